"""A backend registered for a module that is already imported, but that the registry has not scanned yet, must be created once."""
import sys, types
sys.modules["fake_fw_c11r"] = types.ModuleType("fake_fw_c11r")  # the framework is imported first
from einx._src.frontend.backend import BackendRegistryState, Backend
st = BackendRegistryState()
calls = []
class B(Backend):
    name = "fake"
    priority = 0
    @staticmethod
    def is_supported_tensor(t):
        return isinstance(t, complex)
def factory():
    calls.append(1)
    raise RuntimeError("framework broken")
st._register_on_import("fake_fw_c11r", "fake", factory)   # eager path: runs now
st._check_new_imports([False])                              # first scan sees fake_fw_c11r as new
n = sum(b.name == "fake" for b in st.backends)
print("factory calls:", len(calls), "backends named fake:", n)
sys.exit(0 if (len(calls) == 1 and n == 1) else 1)
