# Positive example for the guard-after-use lint (C12.R9): must be reported on every run.
def bad(tokens, token, table):
    stack = [[]]
    for t in tokens:
        stack[-1].append(t)
    opening = stack[-1][0]
    if len(stack) == 1 or table[opening.text] != token.text:
        raise ValueError("not opened")
    return opening


def good(tokens, token, table):
    stack = [[]]
    for t in tokens:
        stack[-1].append(t)
    if len(stack) == 1 or table[stack[-1][0].text] != token.text:
        raise ValueError("not opened")
    opening = stack[-1][0]
    return opening
