# Positive example for the cursor lint (C14.R9): `bad` must be reported on every run, `good` accepted.
def bad(items, lengths):
    out = []
    k = 0
    for item in items:
        if len(item) == 0:
            out.append(lengths[k])
            k += 1
        elif len(item) == 1:
            out.append(lengths[k] * 2)
            k += 1
        else:
            for i in range(len(item)):
                out.append(lengths[k + i])
    return out


def good(items, lengths):
    out = []
    k = 0
    for item in items:
        if len(item) == 0:
            out.append(lengths[k])
            k += 1
        elif len(item) == 1:
            out.append(lengths[k] * 2)
            k += 1
        else:
            for i in range(len(item)):
                out.append(lengths[k + i])
            k += len(item)
    return out
