# Positive example for C01.R14: `bad` must be reported on every run, `good` accepted.
def bad(classical, op, tensor, out):
    result = op(tensor, out=out)
    axis = tuple(idx for idx, a in enumerate(out) if a.marked)
    return classical.flip(result.value, axis=axis)


def good(classical, op, tensor, out):
    result = op(tensor, out=out)
    axis = tuple(idx for idx, a in enumerate(result.expr) if a.marked)
    return classical.flip(result.value, axis=axis)
