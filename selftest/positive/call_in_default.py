# Positive example for the call-in-default lint (C07.R9): `bad` must be reported on every run, `good` accepted.
import uuid


def bad(expr, ellipsis_id=uuid.uuid4().int):
    return (expr, ellipsis_id)


def good(expr, ellipsis_id=None):
    if ellipsis_id is None:
        ellipsis_id = uuid.uuid4().int
    return (expr, ellipsis_id)
