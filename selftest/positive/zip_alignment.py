# Positive example for the zip-alignment lint (C14.R8): `bad` must be reported on every run, `good` accepted.
def bad(axes, values):
    picked = []
    for axis in axes:
        if axis.inside:
            if axis.value != 1:
                picked.append(values[0])
            values = values[1:]
        else:
            picked.append(axis.value)
    strides = []
    for v, axis in zip(picked, axes):
        strides.append(v * axis.value)
    return strides


def good(axes, values):
    picked = []
    for axis in axes:
        if axis.inside:
            picked.append(values[0])
            values = values[1:]
        else:
            picked.append(axis.value)
    strides = []
    for v, axis in zip(picked, axes):
        strides.append(v * axis.value)
    return strides
