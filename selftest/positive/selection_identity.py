# Positive example for the selection-identity lint (C08.R10): `bad` and `bad_helper` must be reported on every run,
# `good` accepted.
def _same_shape(x, shape):
    return tuple(x.shape) == tuple(shape)


def bad(x, perm):
    if tuple(x.shape[i] for i in perm) == tuple(x.shape):
        return x
    return x.transpose(perm)


def bad_helper(x, perm):
    if _same_shape(x, [x.shape[i] for i in perm]):
        return x
    return x.transpose(perm)


def good(x, perm):
    if tuple(perm) == tuple(range(len(perm))):
        return x
    return x.transpose(perm)
