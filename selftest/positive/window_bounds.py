# Positive example for the window-bounds lint (C01.R10): `bad` must be reported on every run, `good` accepted.
def bad(xs):
    for i in range(len(xs) - 2):
        if xs[i] + 1 != xs[i + 1]:
            return False
    return True


def good(xs):
    for i in range(len(xs) - 1):
        if xs[i] + 1 != xs[i + 1]:
            return False
    return True
