# Positive example for the exclusive-bound lint (C12.R13): `bad` must be reported on every run, `good` accepted.
def bad(pos, text):
    assert len(pos) == 0 or (pos.start >= 0 and pos.stop < len(text))
    return list(pos)


def good(pos, text):
    assert len(pos) == 0 or (pos.start >= 0 and pos.stop <= len(text))
    return list(pos)
