# Positive example for the loop-shared-mutable lint (C13.R10): must be reported on every run.
def bad(ops, make, kwargs=None):
    shared = {} if kwargs is None else dict(kwargs)
    out = {}
    for name, op in ops.items():
        shared.setdefault("name", name)
        out[name] = make(op, kwargs=shared)
    return out


def good(ops, make, kwargs=None):
    kwargs = {} if kwargs is None else kwargs
    out = {}
    for name, op in ops.items():
        out[name] = make(op, kwargs={"name": name} | kwargs)
    return out
