# Positive example for the restarting-counter lint (C08.R9): `bad` must be reported on every run, `good` accepted.
def bad(roots, groups):
    def rename_root(root):
        names = {}

        def name_of(idx):
            return names.setdefault(idx, f"g.{len(names)}")

        return [name_of(groups.index(x)) if x in groups else x for x in root]

    return [rename_root(root) for root in roots]


def good(roots, groups):
    names = {}

    def rename_root(root):
        def name_of(idx):
            return names.setdefault(idx, f"g.{len(names)}")

        return [name_of(groups.index(x)) if x in groups else x for x in root]

    return [rename_root(root) for root in roots]
