"""Thorough-tier cross-check of the engine's own facts against CPython's compiler (compile() only, no exec):
 * names loaded as globals in the bytecode of each module vs. the scope analysis (symtable/ast) used by C03.R2
 * STORE_ATTR targets on `self` in every __init__ vs. the ast attribute tables used by the class-based rules
A disagreement means the engine misread the program -> AnalysisError (no verdict)."""

from __future__ import annotations

import ast
import dis
import types

from .core import BUILTIN_NAMES, AnalysisError, undefined_names


def _code_objects(co):
    yield co
    for c in co.co_consts:
        if isinstance(c, types.CodeType):
            yield from _code_objects(c)


def crosscheck(project):
    stats = {"modules": 0, "code_objects": 0, "global_loads": 0, "unresolved_bytecode": 0, "unresolved_ast": 0, "init_classes": 0, "self_attrs": 0}
    for m in project.modules.values():
        try:
            co = compile(m.source, m.path, "exec", dont_inherit=True)
        except SyntaxError as e:
            raise AnalysisError(f"{m.rel} does not compile: {e}") from e
        stats["modules"] += 1
        ns = set(project.module_namespace(m.name).keys())
        unresolved_bc = set()
        for c in _code_objects(co):
            stats["code_objects"] += 1
            for ins in dis.get_instructions(c):
                if ins.opname in ("LOAD_GLOBAL", "LOAD_NAME"):
                    name = ins.argval
                    stats["global_loads"] += 1
                    if ins.opname == "LOAD_NAME" and c.co_name != "<module>":
                        # class bodies: names may be class-local
                        if name in c.co_names and any(i.opname == "STORE_NAME" and i.argval == name for i in dis.get_instructions(c)):
                            continue
                    if ins.opname == "LOAD_NAME" and c.co_name == "<module>":
                        if any(i.opname in ("STORE_NAME", "IMPORT_NAME", "IMPORT_FROM") and i.argval == name for i in dis.get_instructions(c)):
                            continue
                    if name not in ns and name not in BUILTIN_NAMES:
                        unresolved_bc.add(name)
        unresolved_ast = {n for n, _, _ in undefined_names(project, m)}
        stats["unresolved_bytecode"] += len(unresolved_bc)
        stats["unresolved_ast"] += len(unresolved_ast)
        if unresolved_bc != unresolved_ast:
            raise AnalysisError(f"engine self-check failed for {m.rel}: bytecode sees unresolved globals {sorted(unresolved_bc)} but the scope analysis reports {sorted(unresolved_ast)}")
    # attribute tables
    for c in project.classes.values():
        init = c.methods.get("__init__")
        if init is None:
            continue
        tab = set(project.self_attr_table(c))
        src = ast.get_source_segment(c.module.source, init.node)
        if src is None:
            continue
        import textwrap

        try:
            co = compile(textwrap.dedent(src), c.module.path, "exec", dont_inherit=True)
        except SyntaxError:
            continue
        fco = [x for x in _code_objects(co) if x.co_name == "__init__"]
        if not fco:
            continue
        selfname = init.node.args.args[0].arg
        stored = set()
        ins = list(dis.get_instructions(fco[0]))
        for i, x in enumerate(ins):
            if x.opname == "STORE_ATTR" and i > 0 and ins[i - 1].opname in ("LOAD_FAST", "LOAD_DEREF", "LOAD_FAST_CHECK") and ins[i - 1].argval == selfname:
                stored.add(x.argval)
        stats["init_classes"] += 1
        stats["self_attrs"] += len(stored)
        if not stored >= tab:
            raise AnalysisError(f"engine self-check failed for {c.qualname}: attribute table {sorted(tab)} vs bytecode STORE_ATTR {sorted(stored)}")
    return stats
