"""T-EXH: extraction of dispatch chains (`if isinstance(x, A) ... elif ... else: raise`) and
literal dispatch chains (`if v == "lit" ... else: raise`) and computation of their domains."""

from __future__ import annotations

import ast
from dataclasses import dataclass, field

from .core import ClassInfo, LiteralEvaluator, NotLiteral, attr_chain, enclosing, norm, parents, src


@dataclass
class Arm:
    test: ast.AST
    classes: list = field(default_factory=list)  # resolved ClassInfo
    other_types: list = field(default_factory=list)  # unresolved / builtin type names
    literals: list = field(default_factory=list)
    opaque: bool = False
    body: list = field(default_factory=list)  # statements executed for this arm (the `if` body / the table row's handler body)
    subject_name: str = None  # how the dispatched value is called inside `body`
    lineno: int = 0


@dataclass
class Chain:
    func: object
    head: ast.If
    subject: str
    kind: str  # 'class' | 'literal'
    arms: list
    fallthrough: ast.Raise
    fall_exc: str

    @property
    def lineno(self):
        return self.head.lineno


def _isinstance_parts(project, module, test, scope):
    """isinstance(S, T) -> (subject_src, [ClassInfo], [other type names]) or None."""
    if not (isinstance(test, ast.Call) and isinstance(test.func, ast.Name) and test.func.id == "isinstance" and len(test.args) == 2):
        return None
    subj, t = test.args
    items = []

    def flat(n):
        if isinstance(n, ast.Tuple):
            for e in n.elts:
                flat(e)
        elif isinstance(n, ast.BinOp) and isinstance(n.op, ast.BitOr):
            flat(n.left)
            flat(n.right)
        else:
            items.append(n)

    flat(t)
    classes, others = [], []
    for it in items:
        r = project.resolve_expr(module, it, scope)
        if r and r[0] == "class":
            classes.append(r[1])
        else:
            others.append(src(it))
    return norm(subj), classes, others


def _literal_parts(test):
    """S == "lit" | S in ["a", "b"] -> (subject_src, [literals]) or None."""
    if isinstance(test, ast.Compare) and len(test.ops) == 1:
        op, right = test.ops[0], test.comparators[0]
        if isinstance(op, ast.Eq) and isinstance(right, ast.Constant) and isinstance(right.value, (str, int)) and not isinstance(right.value, bool):
            return norm(test.left), [right.value]
        if isinstance(op, ast.In) and isinstance(right, (ast.List, ast.Tuple, ast.Set)) and all(isinstance(e, ast.Constant) for e in right.elts):
            return norm(test.left), [e.value for e in right.elts]
        # enum-style member: S == pkg.Enum.MEMBER  (represented as the dotted text)
        if isinstance(op, (ast.Eq, ast.Is)) and isinstance(right, ast.Attribute):
            ch = attr_chain(right)
            if ch and len(ch) >= 2 and ch[-1].isupper():
                return norm(test.left), [EnumMember(".".join(ch[:-1]), ch[-1])]
    return None


class EnumMember(str):
    """`inspect.Parameter.KEYWORD_ONLY` as a literal arm: str value is the member name."""

    def __new__(cls, prefix, member):
        o = super().__new__(cls, member)
        o.prefix = prefix
        return o


# closed enumerations of the standard library that einx dispatches on
STDLIB_ENUMS = {
    "inspect.Parameter": ["POSITIONAL_ONLY", "POSITIONAL_OR_KEYWORD", "VAR_POSITIONAL", "KEYWORD_ONLY", "VAR_KEYWORD"],
}


def find_chains(project, func, open_tail=False):
    """All if/elif chains in `func` (not nested functions) that end in `else: raise ...`.  With open_tail, also chains
    whose `else:` is a single `return <call>` (the remaining kinds are handed to another dispatcher): for reading the
    arms of a dispatch that is spread over several functions, not for exhaustiveness."""
    out = []
    module = func.module
    fcfg = None
    try:
        from .cfg import CFG

        if isinstance(func.node, (ast.FunctionDef, ast.AsyncFunctionDef)) and any(isinstance(n, ast.If) and isinstance(n.test, ast.Name) for n in ast.walk(func.node)):
            fcfg = CFG(func.node)
    except Exception:
        fcfg = None
    for node in ast.walk(func.node):
        if not isinstance(node, ast.If):
            continue
        if project.func_containing(node) is not func and enclosing(node, (ast.FunctionDef, ast.AsyncFunctionDef)) is not func.node:
            continue
        par = getattr(node, "_parent", None)
        if isinstance(par, ast.If) and par.orelse == [node]:
            continue  # not a head
        tests = []
        cur = node
        while True:
            tests.append(cur.test)
            if len(cur.orelse) == 1 and isinstance(cur.orelse[0], ast.If):
                cur = cur.orelse[0]
            else:
                break
        tail = cur.orelse
        synthesized = None
        if not tail and len(tests) > 1 and isinstance(cur.test, ast.Compare) and len(cur.test.ops) == 1 and isinstance(cur.test.ops[0], ast.NotEq) and isinstance(cur.test.comparators[0], ast.Constant) and len(cur.body) == 1 and isinstance(cur.body[0], ast.Raise):
            # `... elif x != "lit": raise E` followed by the code for "lit": the same as `elif x == "lit": <code>` + `else: raise E`
            synthesized = ast.copy_location(ast.Compare(left=cur.test.left, ops=[ast.Eq()], comparators=cur.test.comparators), cur.test)
            synthesized._parent = getattr(cur.test, "_parent", None)
            tests[-1] = synthesized
            tail = cur.body
        if not tail or len(tail) != 1:
            continue
        if not isinstance(tail[-1], ast.Raise) and not (open_tail and isinstance(tail[0], ast.Return) and isinstance(tail[0].value, ast.Call)):
            continue
        tests = _prefix_arms(node) + tests
        inst = _instantiate(project, func, tests)
        if inst is None:
            ch = _build_chain(project, func, module, fcfg, node, tests, tail)
            if ch is not None:
                out.append(ch)
        else:
            # a dispatch whose class is a parameter (`isinstance(expr, nary_class)`): one chain per class it is called with
            for tests_i in inst:
                ch = _build_chain(project, func, module, fcfg, node, tests_i, tail)
                if ch is not None:
                    out.append(ch)
    # the same dispatch driven by a table of (class, handler) rows
    for blk in _blocks(func.node):
        for i, st in enumerate(blk):
            if isinstance(st, ast.For) and enclosing(st, (ast.FunctionDef, ast.AsyncFunctionDef)) is func.node:
                tail = None
                if st.orelse and isinstance(st.orelse[-1], ast.Raise) and len(st.orelse) == 1:
                    tail = st.orelse[0]
                elif not st.orelse and i + 1 < len(blk) and isinstance(blk[i + 1], ast.Raise):
                    tail = blk[i + 1]
                if tail is not None:
                    ch = _table_chain(project, func, module, st, tail)
                    if ch is not None:
                        out.append(ch)
    # the same dispatch written as a sequence: `if A: return ...` / `if B: return ...` / ... / `raise E`
    for blk in _blocks(func.node):
        i = 0
        while i < len(blk):
            run = []
            j = i
            while j < len(blk) and isinstance(blk[j], ast.If) and not blk[j].orelse and _terminates(blk[j].body):
                run.append(blk[j])
                j += 1
            if len(run) >= 2 and j < len(blk) and isinstance(blk[j], ast.Raise):
                if enclosing(run[0], (ast.FunctionDef, ast.AsyncFunctionDef)) is func.node:
                    ch = _build_chain(project, func, module, fcfg, run[0], [x.test for x in run], [blk[j]])
                    if ch is not None:
                        out.append(ch)
                i = j + 1
            else:
                i = max(j, i + 1)
    return out



def _instantiate(project, func, tests):
    """tests with the class-valued parameters of `func` replaced by the classes it is called with (one list per distinct
    binding); None when no test uses a parameter as a class"""
    from .cfg import _clone, _set_parents

    if not isinstance(func.node, (ast.FunctionDef, ast.AsyncFunctionDef)):
        return None
    params = func.params
    used = set()
    for t in tests:
        for x in ast.walk(t):
            if isinstance(x, ast.Call) and isinstance(x.func, ast.Name) and x.func.id == "isinstance" and len(x.args) == 2:
                used |= {y.id for y in ast.walk(x.args[1]) if isinstance(y, ast.Name) and y.id in params}
    if not used:
        return None
    # call sites: everywhere in the module (the function calls itself with the parameter unchanged: skipped)
    bindings = []
    for c in ast.walk(func.module.tree):
        if isinstance(c, ast.Call) and isinstance(c.func, ast.Name) and c.func.id == func.name and not any(isinstance(a, ast.Starred) for a in c.args):
            b = {}
            for q in used:
                i = params.index(q)
                a = c.args[i] if i < len(c.args) else next((k.value for k in c.keywords if k.arg == q), None)
                if a is None:
                    b = None
                    break
                if isinstance(a, ast.Name) and a.id == q:
                    b = None  # recursive call handing the parameter on
                    break
                r = project.resolve_expr(func.module, a, getattr(c, "_parent", None) and enclosing(c, (ast.FunctionDef, ast.AsyncFunctionDef)))
                if not (r and r[0] == "class"):
                    return None
                b[q] = (a, r[1])
            if b:
                key = tuple(sorted((q, v[1].qualname) for q, v in b.items()))
                if key not in [k for k, _ in bindings]:
                    bindings.append((key, b))
    if not bindings:
        return None
    out = []
    for _, b in bindings:

        class Sub(ast.NodeTransformer):
            def visit_Name(self, n):
                if isinstance(n.ctx, ast.Load) and n.id in b:
                    return ast.copy_location(_clone(b[n.id][0]), n)
                return n

            def visit_Compare(self, n):
                self.generic_visit(n)
                # `nary_class is Op` is decided once the parameter is known
                if len(n.ops) == 1 and isinstance(n.ops[0], (ast.Is, ast.IsNot, ast.Eq, ast.NotEq)):
                    ra = project.resolve_expr(func.module, n.left, func.node)
                    rb = project.resolve_expr(func.module, n.comparators[0], func.node)
                    if ra and rb and ra[0] == "class" and rb[0] == "class":
                        same = ra[1] is rb[1]
                        val = same if isinstance(n.ops[0], (ast.Is, ast.Eq)) else not same
                        return ast.copy_location(ast.Constant(value=val), n)
                return n

            def visit_BoolOp(self, n):
                self.generic_visit(n)
                vals = []
                for v in n.values:
                    if isinstance(v, ast.Constant) and isinstance(v.value, bool):
                        if isinstance(n.op, ast.And) and v.value is False:
                            return ast.copy_location(ast.Constant(value=False), n)
                        if isinstance(n.op, ast.Or) and v.value is True:
                            return ast.copy_location(ast.Constant(value=True), n)
                        continue
                    vals.append(v)
                if not vals:
                    return ast.copy_location(ast.Constant(value=isinstance(n.op, ast.And)), n)
                if len(vals) == 1:
                    return vals[0]
                # isinstance(x, A) or isinstance(x, B)  ->  isinstance(x, (A, B))
                isi = lambda v: isinstance(v, ast.Call) and isinstance(v.func, ast.Name) and v.func.id == "isinstance" and len(v.args) == 2  # noqa: E731
                if isinstance(n.op, ast.Or) and all(isi(v) for v in vals) and len({ast.dump(v.args[0]) for v in vals}) == 1:
                    classes = []
                    for v in vals:
                        st = [v.args[1]]
                        while st:
                            c_ = st.pop()
                            if isinstance(c_, ast.Tuple):
                                st += list(reversed(c_.elts))
                            elif isinstance(c_, ast.BinOp) and isinstance(c_.op, ast.BitOr):
                                st += [c_.right, c_.left]
                            else:
                                classes.append(c_)
                    return ast.copy_location(ast.Call(func=ast.Name(id="isinstance", ctx=ast.Load()), args=[vals[0].args[0], ast.Tuple(elts=classes, ctx=ast.Load())], keywords=[]), n)
                n.values = vals
                return n

        ts = []
        for t in tests:
            t2 = Sub().visit(_clone(t))
            ast.fix_missing_locations(t2)
            _set_parents(t2)
            t2._parent = getattr(t, "_parent", None)
            t2._owner_test = t
            ts.append(t2)
        out.append(ts)
    return out


def _prefix_arms(head):
    """tests of the `if ...: return` chains that precede `head` in its block (separated at most by plain assignments,
    expressions and nested defs): `if A: return a / elif B: return b` + setup + `if C: ... else: raise` is one dispatch"""
    par = getattr(head, "_parent", None)
    blk = None
    for fld in ("body", "orelse", "finalbody"):
        b = getattr(par, fld, None)
        if isinstance(b, list) and any(x is head for x in b):
            blk = b
    if blk is None:
        return []
    out = []
    subject_names = {x.id for x in ast.walk(head.test) if isinstance(x, ast.Name)}
    i = next(k for k, x in enumerate(blk) if x is head) - 1
    while i >= 0:
        st = blk[i]
        if isinstance(st, ast.If):
            tests, cur, good = [], st, True
            while True:
                tests.append(cur.test)
                if not _terminates(cur.body):
                    good = False
                    break
                if len(cur.orelse) == 1 and isinstance(cur.orelse[0], ast.If):
                    cur = cur.orelse[0]
                elif cur.orelse:
                    good = False
                    break
                else:
                    break
            if not good:
                break
            out = tests + out
        elif isinstance(st, (ast.Assign, ast.AnnAssign, ast.Expr, ast.FunctionDef, ast.Pass)):
            # the dispatched value must still be the same one
            stored = {x.id for x in ast.walk(st) if isinstance(x, ast.Name) and isinstance(x.ctx, ast.Store)} if not isinstance(st, ast.FunctionDef) else {st.name}
            if stored & subject_names:
                break
        else:
            break
        i -= 1
    return out


def _terminates(body):
    return bool(body) and isinstance(body[-1], (ast.Return, ast.Raise, ast.Continue, ast.Break))


def _blocks(fnode):
    """statement lists of the function (not of nested functions)"""
    todo = [fnode.body]
    while todo:
        blk = todo.pop()
        yield blk
        for st in blk:
            if isinstance(st, (ast.FunctionDef, ast.AsyncFunctionDef, ast.ClassDef)):
                continue
            for fld in ("body", "orelse", "finalbody"):
                sub = getattr(st, fld, None)
                if isinstance(sub, list) and sub and isinstance(sub[0], ast.stmt):
                    todo.append(sub)
            for h in getattr(st, "handlers", []) or []:
                todo.append(h.body)


def _build_chain(project, func, module, fcfg, node, tests, tail):
    r = tail[0]

    if isinstance(r, ast.Raise):
        exc = r.exc.func if isinstance(r.exc, ast.Call) else r.exc
        fall_exc = src(exc) if exc is not None else "<reraise>"
    else:
        fall_exc = "<delegated>"
    arms = []
    subjects = {}
    for t in tests:
        arm = Arm(test=t)
        # tests written through a named boolean (`is_paren = tok.text == "("; if is_paren:`) are written out
        if isinstance(t, (ast.Name, ast.UnaryOp, ast.BoolOp)) and fcfg is not None:
            ifnode = getattr(t, "_parent", None)
            at = fcfg.node_for(ifnode) if ifnode is not None else None
            if at is not None:
                t = fcfg.expand(t, at)
        # `isinstance(x, A) and cond` : only an unconditional isinstance covers the class
        parts = _isinstance_parts(project, module, t, func.node)
        lit = _literal_parts(t)
        if parts:
            s, classes, others = parts
            arm.classes, arm.other_types = classes, others
            subjects[s] = subjects.get(s, 0) + 1
            arm.subject = s
        elif lit:
            s, lits = lit
            arm.literals = lits
            subjects[s] = subjects.get(s, 0) + 1
            arm.subject = s
        else:
            arm.opaque = True
            arm.subject = None
        owner = getattr(arm.test, "_parent", None)
        if isinstance(owner, ast.If) and (owner.test is arm.test or owner.test is getattr(arm.test, "_owner_test", None)):
            arm.body, arm.lineno = owner.body, owner.lineno
        arms.append(arm)
    if not subjects:
        return None
    subject = max(subjects, key=lambda k: subjects[k])
    mine = [a for a in arms if getattr(a, "subject", None) == subject]
    if any(a.classes or a.other_types for a in mine) and not any(a.literals for a in mine):
        kind = "class"
    elif any(a.literals for a in mine):
        kind = "literal"
    else:
        return None
    # one isinstance test with `else: raise` is a precondition (`if not isinstance(x, T): raise` written the other
    # way round), not a dispatch over a family
    if kind == "class" and len(mine) == 1 and len(tests) == 1:
        return None
    # arms on another subject / opaque arms do not cover anything
    for a in arms:
        if getattr(a, "subject", None) != subject:
            a.classes, a.other_types, a.literals, a.opaque = [], [], [], True
    for a in arms:
        if a.subject_name is None:
            a.subject_name = subject
    return Chain(func=func, head=node, subject=subject, kind=kind, arms=arms, fallthrough=r, fall_exc=fall_exc)


def _scope_lookup(node, name):
    """the statements binding `name` in the function scopes enclosing `node` (innermost first), then the module"""
    cur = node
    while cur is not None:
        cur = getattr(cur, "_parent", None)
        if isinstance(cur, (ast.FunctionDef, ast.AsyncFunctionDef, ast.Module)):
            found = []
            todo = list(cur.body)
            while todo:
                st = todo.pop(0)
                if isinstance(st, (ast.FunctionDef, ast.AsyncFunctionDef, ast.ClassDef)):
                    if st.name == name:
                        found.append(st)
                    continue
                if isinstance(st, ast.Assign) and any(isinstance(t, ast.Name) and t.id == name for t in st.targets):
                    found.append(st)
                for fld in ("body", "orelse", "finalbody"):
                    todo += [x for x in getattr(st, fld, []) or [] if isinstance(x, ast.stmt)]
                for h in getattr(st, "handlers", []) or []:
                    todo += h.body
            if found:
                return found
    return []


def _table_chain(project, func, module, loop, tail):
    """`for T, handler in TABLE: if isinstance(x, T): handler(x); return` + `raise E`: a dispatch whose arms are the
    rows of TABLE (a literal list of (class, function) pairs bound once in an enclosing scope)."""
    if not (isinstance(loop.target, ast.Tuple) and len(loop.target.elts) == 2 and all(isinstance(e, ast.Name) for e in loop.target.elts)):
        return None
    tname, hname = (e.id for e in loop.target.elts)
    if not (len(loop.body) == 1 and isinstance(loop.body[0], ast.If) and not loop.body[0].orelse):
        return None
    iff = loop.body[0]
    t = iff.test
    if not (isinstance(t, ast.Call) and isinstance(t.func, ast.Name) and t.func.id == "isinstance" and len(t.args) == 2 and isinstance(t.args[1], ast.Name) and t.args[1].id == tname and isinstance(t.args[0], ast.Name)):
        return None
    if not _terminates(iff.body):
        return None
    subject = t.args[0].id
    table = loop.iter
    if isinstance(table, ast.Name):
        defs = _scope_lookup(loop, table.id)
        if len(defs) != 1 or not isinstance(defs[0], ast.Assign):
            return None
        table = defs[0].value
    if not (isinstance(table, (ast.List, ast.Tuple)) and table.elts and all(isinstance(r, ast.Tuple) and len(r.elts) == 2 for r in table.elts)):
        return None
    # which argument of the handler receives the subject
    hcall = next((c for st in iff.body for c in ast.walk(st) if isinstance(c, ast.Call) and isinstance(c.func, ast.Name) and c.func.id == hname), None)
    pos = next((i for i, a in enumerate(hcall.args) if isinstance(a, ast.Name) and a.id == subject), None) if hcall is not None else None
    arms = []
    for row in table.elts:
        arm = Arm(test=row.elts[0], lineno=row.lineno)
        parts = _isinstance_parts(project, module, ast.Call(func=ast.Name(id="isinstance", ctx=ast.Load()), args=[t.args[0], row.elts[0]], keywords=[]), func.node)
        if parts:
            arm.classes, arm.other_types = parts[1], parts[2]
        arm.subject = subject
        arm.subject_name = subject
        h = row.elts[1]
        if isinstance(h, ast.Name) and pos is not None:
            hd = [d for d in _scope_lookup(loop, h.id) if isinstance(d, (ast.FunctionDef, ast.AsyncFunctionDef))]
            if len(hd) == 1 and pos < len(hd[0].args.args):
                arm.body, arm.subject_name, arm.lineno = hd[0].body, hd[0].args.args[pos].arg, hd[0].lineno
        elif isinstance(h, ast.Lambda) and pos is not None and pos < len(h.args.args):
            arm.body, arm.subject_name = [ast.copy_location(ast.Expr(value=h.body), h)], h.args.args[pos].arg
        arms.append(arm)
    r = tail
    exc = r.exc.func if isinstance(r.exc, ast.Call) else r.exc
    return Chain(func=func, head=loop, subject=subject, kind="class", arms=arms, fallthrough=r, fall_exc=src(exc) if exc is not None else "<reraise>")


def class_family_root(project, classes):
    """Least common in-project ancestor of the given classes (None if they share none)."""
    if not classes:
        return None
    mros = [project.mro(c) for c in classes]
    for cand in mros[0]:
        if all(cand in m for m in mros[1:]):
            # prefer the top-most common ancestor that is still in the same module family:
            # climb while the parent is also common
            return cand
    return None


def top_family_root(project, c):
    """Top-most in-project base of class c."""
    m = project.mro(c)
    roots = [k for k in m if all(not isinstance(b, ClassInfo) for b in k.bases)]
    return roots[0] if roots else m[-1]


def class_domain(project, chain):
    """(root, domain classes, covered classes, missing classes)."""
    tested = [c for a in chain.arms for c in a.classes]
    if not tested:
        return None, [], [], []
    roots = {top_family_root(project, c) for c in tested}
    if len(roots) != 1:
        return None, [], tested, []
    root = roots.pop()
    domain = project.subclasses(root, strict=True)
    # intermediate base classes that are never constructed have no instances of their own: not part of the domain
    domain = [c for c in domain if not (project.subclasses(c, strict=True) and c.name not in _constructed_names(project))]
    if root in tested:
        return root, domain, domain, []
    covered = [c for c in domain if any(t in project.mro(c) for t in tested)]
    missing = [c for c in domain if c not in covered]
    # an intermediate base (`class _Nary(Expression)` with Sum/Product below it) that is never constructed itself has no
    # instances of its own: it is covered when all of its subclasses are
    for c in list(missing):
        subs = project.subclasses(c, strict=True)
        if subs and all(s_ in covered for s_ in subs) and c.name not in _constructed_names(project):
            missing.remove(c)
            covered.append(c)
    return root, domain, covered, missing


def _constructed_names(project):
    """last name component of everything that is called anywhere in the package (a superset of the classes constructed)"""
    got = getattr(project, "_constructed_names", None)
    if got is None:
        got = set()
        for m in project.modules.values():
            for n in ast.walk(m.tree):
                if isinstance(n, ast.Call):
                    f = n.func
                    if isinstance(f, ast.Name):
                        got.add(f.id)
                    elif isinstance(f, ast.Attribute):
                        got.add(f.attr)
        project._constructed_names = got
    return got


def literal_domain(project, chain, cfg=None):
    """Domain of a literal chain: the module-level literal table that the subject ranges over,
    found as an enclosing `for <subject> in TABLE` or a dominating guard `<subject> in TABLE`.
    Returns (table_name, members) or (None, None)."""
    module = chain.func.module
    ev = LiteralEvaluator(project, module)
    subj = chain.subject
    enum_prefixes = {getattr(l, "prefix", None) for a in chain.arms for l in a.literals}
    if len(enum_prefixes) == 1 and None not in enum_prefixes:
        prefix = enum_prefixes.pop()
        r = project.resolve_chain(module, prefix.split("."), chain.func.node)
        dotted = r[1] if r and r[0] == "external" else prefix
        if dotted in STDLIB_ENUMS:
            return dotted, list(STDLIB_ENUMS[dotted])
        return None, None
    # enclosing for-loop whose target is the subject
    for p in parents(chain.head):
        if isinstance(p, (ast.For,)) and norm(p.target) == subj:
            try:
                return norm(p.iter), list(ev.eval(p.iter))
            except NotLiteral:
                return None, None
        if isinstance(p, (ast.FunctionDef, ast.AsyncFunctionDef)):
            break
    # dominating membership guard
    for p in parents(chain.head):
        if isinstance(p, ast.If) and _contains_stmt(p.body, chain.head):
            for t, pol in _decomp(p.test, True):
                if pol and isinstance(t, ast.Compare) and len(t.ops) == 1 and isinstance(t.ops[0], ast.In) and norm(t.left) == subj:
                    try:
                        v = ev.eval(t.comparators[0])
                        if isinstance(v, dict):
                            v = list(v.keys())
                        return norm(t.comparators[0]), list(v)
                    except NotLiteral:
                        return None, None
        if isinstance(p, (ast.FunctionDef, ast.AsyncFunctionDef)):
            break
    return None, None


def _decomp(test, pol):
    from .cfg import decompose

    return decompose(test, pol)


def _contains_stmt(body, node):
    for st in body:
        for n in ast.walk(st):
            if n is node:
                return True
    return False
