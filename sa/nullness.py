"""May-be-None locals that are dereferenced (AttributeError / TypeError at run time).

Sources: `x = None`, `x = d.get(k)` (no default), `x = f(...)` where the project function f returns a value on some
paths and None (explicitly or by falling off the end) on others, conditional expressions with such an arm.
Flow-sensitive over the statement CFG; a name stops being "maybe None" when it is re-assigned or on the branch edge of
`x is not None` / `x` / `isinstance(x, T)` / `callable(x)` (and the complements of `x is None` / `not x`), including
short-circuit operands inside one expression.  Dereferences: `x.attr`, `x[...]`, `x(...)`, `for _ in x`."""

from __future__ import annotations

import ast

from .cfg import CFG, _stores, decompose, expression_guards
from .core import norm, resolve_callee, walk_no_nested


def may_return_none(f):
    if not isinstance(f.node, (ast.FunctionDef, ast.AsyncFunctionDef)):
        return False
    if any(isinstance(x, (ast.Yield, ast.YieldFrom)) for x in walk_no_nested(f.node)):
        return False
    rets = [r for r in walk_no_nested(f.node) if isinstance(r, ast.Return)]
    is_none = lambda r: r.value is None or (isinstance(r.value, ast.Constant) and r.value.value is None)  # noqa: E731
    vals = [r for r in rets if not is_none(r)]
    if not vals:
        return False
    if any(is_none(r) for r in rets):
        return True
    try:
        cfg = CFG(f.node)
    except Exception:
        return False
    return any(not (q.kind == "stmt" and isinstance(q.ast, ast.Return)) for q in cfg.exit.pred)


class Nullness:
    def __init__(self, p):
        self.p = p
        self.mrn = {f.qualname for f in p.funcs.values() if may_return_none(f)}

    def source(self, f, v):
        if isinstance(v, ast.Constant) and v.value is None:
            return "None"
        if isinstance(v, ast.Call):
            if isinstance(v.func, ast.Attribute) and v.func.attr == "get" and len(v.args) == 1 and not v.keywords:
                return "dict.get without default"
            r = resolve_callee(self.p, v, f.module)
            if r and r[0] == "func" and r[1].qualname in self.mrn:
                return f"{r[1].qualname.split('::')[1]}() may return None"
        if isinstance(v, ast.IfExp):
            return self.source(f, v.body) or self.source(f, v.orelse)
        return None

    def analyse(self, f):
        """-> (number of maybe-None bindings, [(Name node of the dereferenced local, dereferencing node, source text)])"""
        srcs = {}
        for a in walk_no_nested(f.node):
            if isinstance(a, ast.Assign) and len(a.targets) == 1 and isinstance(a.targets[0], ast.Name):
                s = self.source(f, a.value)
                if s:
                    srcs.setdefault(a.targets[0].id, []).append(s)
        if not srcs:
            return 0, []
        cfg = CFG(f.node)
        gen, kill = {}, {}
        for n in cfg.nodes:
            if n.kind in ("stmt", "loop") and n.ast is not None and getattr(n, "label", "") != "assert-fail":
                for nm in _stores(n.ast):
                    kill.setdefault(n.id, set()).add(nm)
                st = n.ast
                if isinstance(st, ast.Assign) and len(st.targets) == 1 and isinstance(st.targets[0], ast.Name) and self.source(f, st.value):
                    gen.setdefault(n.id, set()).add(st.targets[0].id)
            if n.kind == "edge" and n.test is not None and n.polarity is not None:
                for t, pol in decompose(n.test, n.polarity):
                    nm = _not_none_fact(t, pol)
                    if nm:
                        kill.setdefault(n.id, set()).add(nm)
        IN = {n.id: set() for n in cfg.nodes}
        OUT = {n.id: set() for n in cfg.nodes}
        work = list(cfg.nodes)
        while work:
            n = work.pop()
            i = set()
            for q in n.pred:
                i |= OUT[q.id]
            IN[n.id] = i
            o = (i - kill.get(n.id, set())) | gen.get(n.id, set())
            if o != OUT[n.id]:
                OUT[n.id] = o
                work.extend(n.succ)
        out = []
        for n in cfg.nodes:
            if not IN[n.id] or n.ast is None:
                continue
            exprs = []
            if n.kind == "test" and n.test is not None:
                exprs = [n.test]
            elif n.kind == "stmt" and not isinstance(n.ast, (ast.If, ast.While, ast.Try, ast.For, ast.With, ast.FunctionDef, ast.AsyncFunctionDef, ast.ClassDef)):
                exprs = [n.ast]
            elif n.kind == "loop":
                exprs = [n.ast.iter]
            for e in exprs:
                for x in ast.walk(e):
                    tgt = None
                    if isinstance(x, ast.Attribute) and isinstance(x.value, ast.Name) and isinstance(x.ctx, ast.Load):
                        tgt = x.value
                    elif isinstance(x, ast.Subscript) and isinstance(x.value, ast.Name) and isinstance(x.ctx, ast.Load):
                        tgt = x.value
                    elif isinstance(x, ast.Call) and isinstance(x.func, ast.Name):
                        tgt = x.func
                    if tgt is None or tgt.id not in IN[n.id]:
                        continue
                    if any(_not_none_fact(t, pol) == tgt.id for t, pol in expression_guards(x)):
                        continue
                    out.append((tgt, x, "; ".join(sorted(set(srcs.get(tgt.id, ["?"]))))))
            if n.kind == "loop" and isinstance(n.ast.iter, ast.Name) and n.ast.iter.id in IN[n.id]:
                out.append((n.ast.iter, n.ast, "; ".join(sorted(set(srcs.get(n.ast.iter.id, ["?"]))))))
        return sum(len(v) for v in srcs.values()), out


def _not_none_fact(t, pol):
    """name that the fact (t, pol) shows to be not None"""
    if isinstance(t, ast.Compare) and len(t.ops) == 1 and isinstance(t.left, ast.Name) and isinstance(t.comparators[0], ast.Constant) and t.comparators[0].value is None:
        op = t.ops[0]
        if (isinstance(op, (ast.IsNot, ast.NotEq)) and pol) or (isinstance(op, (ast.Is, ast.Eq)) and not pol):
            return t.left.id
    if isinstance(t, ast.Name) and pol:
        return t.id
    if isinstance(t, ast.Call) and norm(t.func) in ("isinstance", "callable", "hasattr", "len") and t.args and isinstance(t.args[0], ast.Name) and pol:
        return t.args[0].id
    return None
