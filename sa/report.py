"""Obligation bookkeeping, known findings, evidence and replay files, exit codes."""

from __future__ import annotations

import hashlib
import json
import os
import time

VERIF = os.path.dirname(os.path.dirname(os.path.abspath(__file__)))


class Obligation:
    __slots__ = ("rule", "key", "site", "status", "detail", "nontrivial", "extra")

    def __init__(self, rule, key, site, status, detail="", nontrivial=True, extra=None):
        self.rule = rule  # e.g. "C03.R1"
        self.key = key  # stable construct key: qualname + descriptor (never a line number)
        self.site = site  # file:line (for humans)
        self.status = status  # 'ok' | 'violation' | 'exempt'
        self.detail = detail
        self.nontrivial = nontrivial
        self.extra = extra or {}

    def to_json(self):
        d = {"rule": self.rule, "key": self.key, "site": self.site, "status": self.status}
        if self.detail:
            d["detail"] = self.detail
        if self.extra:
            d["extra"] = self.extra
        return d


class Report:
    def __init__(self, property_id, tier, repo):
        self.property_id = property_id
        self.tier = tier
        self.repo = repo
        self.obligations = []
        self.rules = {}  # rule id -> {"title":..., "floor":..., "template":...}
        self.assumptions = []
        self.info = {}
        self.t0 = time.time()
        self.analysed = {"files": 0, "functions": 0, "classes": 0}
        self._seen = set()

    # ------------------------------------------------------------------ recording
    def rule(self, rid, title, template, floor=1):
        self.rules[rid] = {"title": title, "template": template, "floor": floor, "count": 0, "violations": 0, "exempt": 0}

    def add(self, rule, key, site, ok, detail="", nontrivial=True, exempt=False, extra=None):
        status = "exempt" if exempt else ("ok" if ok else "violation")
        full = (rule, key)
        if full in self._seen:
            # keys must be unique per rule: disambiguate deterministically
            i = 2
            while (rule, f"{key}#{i}") in self._seen:
                i += 1
            key = f"{key}#{i}"
        self._seen.add((rule, key))
        o = Obligation(rule, key, site, status, detail, nontrivial, extra)
        self.obligations.append(o)
        r = self.rules[rule]
        r["count"] += 1
        if status == "violation":
            r["violations"] += 1
        if status == "exempt":
            r["exempt"] += 1
        return o

    def ok(self, rule, key, site, detail="", **kw):
        return self.add(rule, key, site, True, detail, **kw)

    def violation(self, rule, key, site, detail="", **kw):
        return self.add(rule, key, site, False, detail, **kw)

    def exempt(self, rule, key, site, reason, **kw):
        return self.add(rule, key, site, True, reason, exempt=True, **kw)

    def assume(self, text):
        if text not in self.assumptions:
            self.assumptions.append(text)

    # ------------------------------------------------------------------ finishing
    def evaluate(self, floors_enforced=True):
        """(unlisted violations, known-finding hits) without printing or writing anything."""
        from .core import AnalysisError

        known = load_known(self.property_id)
        if floors_enforced:
            for rid, r in self.rules.items():
                if r["count"] < r["floor"] and r["violations"] == 0:
                    raise AnalysisError(f"rule {rid} matched {r['count']} instances, below its floor {r['floor']}")
        violations, known_hits = [], []
        for o in self.obligations:
            if o.status != "violation":
                continue
            k = known.get((o.rule, o.key))
            if k is not None and k.get("status") == "known":
                known_hits.append((o, k))
            else:
                violations.append(o)
        return violations, known_hits

    def finish(self, evidence_dir=None, floors_enforced=True):
        """Writes evidence, prints the verdict lines, returns the exit code."""
        from .core import AnalysisError

        evidence_dir = evidence_dir or os.path.join(VERIF, "evidence")
        os.makedirs(os.path.join(evidence_dir, "replay"), exist_ok=True)
        known = load_known(self.property_id)
        # floors (fail closed)
        if floors_enforced:
            for rid, r in self.rules.items():
                # a rule that reports a violation evidently still sees its code; a violation may cut
                # dependent obligations short, which must not turn the verdict into "no verdict"
                if r["count"] < r["floor"] and r["violations"] == 0:
                    raise AnalysisError(f"rule {rid} matched {r['count']} instances, below its floor {r['floor']}: the rule no longer sees the code it was written for")
        violations, known_hits = [], []
        for o in self.obligations:
            if o.status != "violation":
                continue
            k = known.get((o.rule, o.key))
            if k is not None and k.get("status") == "known":
                known_hits.append((o, k))
            else:
                violations.append(o)
        for o, k in known_hits:
            print(f"KNOWN-FINDING: property={self.property_id} rule={o.rule} key={o.key} at {o.site}: {k.get('what', o.detail)}")
        for o in violations:
            path = self._write_replay(evidence_dir, o)
            print(f"VIOLATION property={self.property_id} replay={path}")
            print(f"  {o.site}  rule={o.rule}  instance={o.key}")
            print(f"  {o.detail}")
        self._write_evidence(evidence_dir, len(violations), known_hits)
        n_ok = sum(1 for o in self.obligations if o.status == "ok")
        n_ex = sum(1 for o in self.obligations if o.status == "exempt")
        print(
            f"{self.property_id} [{self.tier}] {len(self.obligations)} obligations over {len(self.rules)} rules: "
            f"{n_ok} discharged, {n_ex} exempt (table), {len(known_hits)} known findings, {len(violations)} violations; "
            f"{time.time() - self.t0:.2f}s"
        )
        return 1 if violations else 0

    def _write_replay(self, evidence_dir, o):
        digest = hashlib.sha1(f"{o.rule}|{o.key}".encode()).hexdigest()[:10]
        path = os.path.join(evidence_dir, "replay", f"{self.property_id}-{o.rule}-{digest}.json")
        with open(path, "w") as f:
            json.dump(
                {"property": self.property_id, "rule": o.rule, "rule_title": self.rules[o.rule]["title"], "key": o.key, "site": o.site, "detail": o.detail, "extra": o.extra, "repo": self.repo},
                f,
                indent=1,
            )
        return path

    def _write_evidence(self, evidence_dir, n_viol, known_hits):
        obs = self.obligations
        per_rule = {
            rid: {"title": r["title"], "template": r["template"], "instances": r["count"], "floor": r["floor"], "violations": r["violations"], "exempt_by_table": r["exempt"]}
            for rid, r in self.rules.items()
        }
        samples = []
        seen_rules = set()
        for o in obs:  # at least one sample per rule, then all non-ok ones
            if o.rule not in seen_rules or o.status != "ok":
                seen_rules.add(o.rule)
                samples.append(o.to_json())
        samples = samples[:60]
        distinct_nontrivial = len({(o.rule, o.key) for o in obs if o.nontrivial})
        ev = {
            "property_id": self.property_id,
            "tier": self.tier,
            "seed": int(os.environ.get("VERIF_SEED", "0") or 0),
            "level": "other",
            "coverage": {
                "explanation": (
                    "Static analysis of /repo's current source (ast/symtable; nothing imported or executed). "
                    "Each obligation is one instance of a structural rule (see rules) evaluated on a concrete construct "
                    "(function, call site, class, table entry or CFG path). A pass means every listed structural clause holds; "
                    "it is a necessary-condition check, not a proof of the behavioural property."
                ),
                "obligations": len(obs),
                "discharged": sum(1 for o in obs if o.status in ("ok", "exempt")),
                "evaluations": len(obs),
                "distinct_nontrivial": distinct_nontrivial,
                "rule": "one evaluation = one rule instance on one construct; non-trivial = the instance inspected a real construct of /repo (not a vacuous match); distinct by (rule, construct key)",
                "samples": samples,
                "rules": per_rule,
                "analysed": self.analysed,
                "known_findings_hit": [{"rule": o.rule, "key": o.key, "site": o.site} for o, _ in known_hits],
                "info": self.info,
                "exhaustive": True,
            },
            "assumptions": self.assumptions,
            "wall_s": round(time.time() - self.t0, 3),
            "violations": n_viol,
        }
        with open(os.path.join(evidence_dir, f"{self.property_id}.json"), "w") as f:
            json.dump(ev, f, indent=1, default=str)


def load_known(property_id):
    path = os.path.join(VERIF, "known_findings.json")
    out = {}
    try:
        with open(path) as f:
            data = json.load(f)
    except FileNotFoundError:
        return out
    for e in data.get("findings", []):
        if e.get("property") == property_id:
            out[(e["rule"], e["key"])] = e
    return out
