"""Statement-level control-flow graph for one Python function, with dominators,
post-dominators, branch-edge nodes (so that "guarded by condition c being true/false" is a
dominance query), reaching definitions and bounded path enumeration.

Handled statement kinds: if / for / while (+else) / try-except-else-finally / with /
return / raise / break / continue / assert / match (coarsely) and conditional expressions at
the top of Return/Assign/Expr values (desugared into branches).  Exceptions: inside a `try`
body every statement has an edge to every handler (and to `finally`); an explicit `raise`
goes to the innermost handler set or to the function's RAISE exit.  `assert` has a false
edge to RAISE.  Implicit exceptions outside `try` are not modelled (not needed by the rules).
"""

from __future__ import annotations

import ast

from .core import register_cache  # noqa: E402
from collections import defaultdict


class Node:
    __slots__ = ("id", "kind", "ast", "label", "succ", "pred", "polarity", "test", "normal_preds")

    def __init__(self, id, kind, astnode=None, label=""):
        self.id = id
        self.kind = kind  # entry | exit | raise | stmt | test | edge | join | handler | finally | with_exit | loop
        self.ast = astnode
        self.label = label
        self.succ = []
        self.pred = []
        self.polarity = None  # for kind == 'edge': True / False
        self.test = None  # for kind == 'edge': the test expression

    def __repr__(self):
        ln = getattr(self.ast, "lineno", "")
        return f"<{self.id}:{self.kind}{':' + str(ln) if ln else ''}{' ' + self.label if self.label else ''}>"


class CFG:
    def __init__(self, fnode):
        self.fnode = fnode
        self.nodes = []
        self.entry = self._new("entry")
        self.exit = self._new("exit")  # normal return
        self.raise_exit = self._new("raise")  # exceptional exit
        self.node_of_stmt = {}  # id(ast stmt) -> Node
        self._loop_stack = []  # (continue_target, break_collector list)
        self._handler_stack = []  # list of lists of handler-entry nodes (+ finally)
        self._finally_stack = []
        body = fnode.body if not isinstance(fnode, ast.Lambda) else [ast.Return(value=fnode.body, lineno=fnode.lineno, col_offset=0)]
        outs = self._block(body, [self.entry])
        for o in outs:
            self._edge(o, self.exit)
        self._dom = None
        self._pdom = None

    # ------------------------------------------------------------------ construction
    def _new(self, kind, astnode=None, label=""):
        n = Node(len(self.nodes), kind, astnode, label)
        self.nodes.append(n)
        return n

    def _edge(self, a, b):
        if b not in a.succ:
            a.succ.append(b)
            b.pred.append(a)

    def _stmt_node(self, st, preds, kind="stmt", label=""):
        n = self._new(kind, st, label)
        if kind == "stmt" or id(st) not in self.node_of_stmt:
            self.node_of_stmt.setdefault(id(st), n)
        for p in preds:
            self._edge(p, n)
        # exception edges
        if self._handler_stack and kind in ("stmt", "test"):
            for h in self._handler_stack[-1]:
                self._edge(n, h)
        return n

    def _raise_targets(self):
        if self._handler_stack:
            return list(self._handler_stack[-1])
        return [self.raise_exit]

    def _branch(self, test, preds, owner):
        """Create a test node with true/false edge nodes.  Returns (true_edge, false_edge)."""
        t = self._stmt_node(owner, preds, kind="test", label="test")
        t.test = test
        te = self._new("edge", owner, "T")
        te.polarity, te.test = True, test
        fe = self._new("edge", owner, "F")
        fe.polarity, fe.test = False, test
        self._edge(t, te)
        self._edge(t, fe)
        return te, fe

    def _block(self, stmts, preds):
        cur = list(preds)
        for st in stmts:
            if not cur:
                # unreachable code: still build it (detached) so statements have nodes
                cur = []
            cur = self._stmt(st, cur)
        return cur

    def _stmt(self, st, preds):
        if isinstance(st, ast.If):
            te, fe = self._branch(st.test, preds, st)
            a = self._block(st.body, [te])
            b = self._block(st.orelse, [fe]) if st.orelse else [fe]
            return a + b
        if isinstance(st, (ast.For, ast.AsyncFor)):
            head = self._stmt_node(st, preds, kind="loop", label="for")
            te = self._new("edge", st, "iter")
            te.polarity, te.test = True, None
            fe = self._new("edge", st, "done")
            fe.polarity, fe.test = False, None
            self._edge(head, te)
            self._edge(head, fe)
            breaks = []
            self._loop_stack.append((head, breaks))
            outs = self._block(st.body, [te])
            self._loop_stack.pop()
            for o in outs:
                self._edge(o, head)
            after = self._block(st.orelse, [fe]) if st.orelse else [fe]
            return after + breaks
        if isinstance(st, ast.While):
            head = self._new("join", st, "while")
            for p in preds:
                self._edge(p, head)
            te, fe = self._branch(st.test, [head], st)
            breaks = []
            self._loop_stack.append((head, breaks))
            outs = self._block(st.body, [te])
            self._loop_stack.pop()
            for o in outs:
                self._edge(o, head)
            is_true = isinstance(st.test, ast.Constant) and bool(st.test.value)
            after = self._block(st.orelse, [fe]) if st.orelse else [fe]
            if is_true:
                # `while True`: the false edge is infeasible
                for a in after:
                    pass
                fe.label = "F-infeasible"
                after = []
            return after + breaks
        if isinstance(st, ast.Break):
            n = self._stmt_node(st, preds)
            if self._loop_stack:
                self._loop_stack[-1][1].append(n)
            return []
        if isinstance(st, ast.Continue):
            n = self._stmt_node(st, preds)
            if self._loop_stack:
                self._edge(n, self._loop_stack[-1][0])
            return []
        if isinstance(st, ast.Return):
            if isinstance(st.value, ast.IfExp):
                return self._ifexp(st, st.value, preds, lambda v: ast.copy_location(ast.Return(value=v), st))
            n = self._stmt_node(st, preds)
            self._to_exit(n, self.exit)
            return []
        if isinstance(st, ast.Raise):
            n = self._stmt_node(st, preds)
            for t in self._raise_targets():
                self._edge(n, t)
            return []
        if isinstance(st, ast.Assert):
            te, fe = self._branch(st.test, preds, st)
            r = self._new("stmt", st, "assert-fail")
            self._edge(fe, r)
            for t in self._raise_targets():
                self._edge(r, t)
            return [te]
        if isinstance(st, ast.Try) or (hasattr(ast, "TryStar") and isinstance(st, ast.TryStar)):
            return self._try(st, preds)
        if isinstance(st, (ast.With, ast.AsyncWith)):
            n = self._stmt_node(st, preds, kind="stmt", label="with")
            outs = self._block(st.body, [n])
            x = self._new("with_exit", st, "with-exit")
            for o in outs:
                self._edge(o, x)
            return [x]
        if isinstance(st, ast.Match):
            n = self._stmt_node(st, preds, kind="test", label="match")
            outs = []
            for case in st.cases:
                e = self._new("edge", st, "case")
                self._edge(n, e)
                outs += self._block(case.body, [e])
            e = self._new("edge", st, "nomatch")
            self._edge(n, e)
            return outs + [e]
        if isinstance(st, (ast.Assign, ast.AnnAssign)) and isinstance(getattr(st, "value", None), ast.IfExp) and isinstance(st, ast.Assign):
            return self._ifexp(st, st.value, preds, lambda v: ast.copy_location(ast.Assign(targets=st.targets, value=v), st))
        # a bare call of a helper that never returns normally (its body always raises) ends the path like `raise`
        if isinstance(st, ast.Expr) and isinstance(st.value, ast.Call) and _callee_never_returns(st.value):
            n = self._stmt_node(st, preds)
            for t in self._raise_targets():
                self._edge(n, t)
            return []
        # simple statement (incl. nested def/class: one node)
        n = self._stmt_node(st, preds)
        return [n]

    def _ifexp(self, st, ifexp, preds, mk):
        te, fe = self._branch(ifexp.test, preds, st)
        a = mk(ifexp.body)
        b = mk(ifexp.orelse)
        for x in (a, b):
            x._parent = getattr(st, "_parent", None)
            x._desugared_from = st
            ast.fix_missing_locations(x)
        return self._stmt(a, [te]) + self._stmt(b, [fe])

    def _to_exit(self, n, target):
        # a return inside try/finally passes through the finally blocks
        if self._finally_stack:
            self._edge(n, self._finally_stack[-1])
            self._finally_pending.setdefault(self._finally_stack[-1].id, set()).add(target.id)
        else:
            self._edge(n, target)

    _finally_pending = None

    def _try(self, st, preds):
        if self._finally_pending is None:
            self._finally_pending = {}
        fin_entry = None
        if st.finalbody:
            fin_entry = self._new("finally", st, "finally")
        handler_entries = []
        for h in st.handlers:
            hn = self._new("handler", h, "except")
            handler_entries.append(hn)
        # body: exceptions go to handlers, and (if not caught) to finally / outer
        targets = list(handler_entries)
        catches_all = any(h.type is None or (isinstance(h.type, ast.Name) and h.type.id in ("BaseException", "Exception")) for h in st.handlers)
        if not catches_all:
            if fin_entry is not None:
                targets.append(fin_entry)
            else:
                targets += self._raise_targets()
        self._handler_stack.append(targets)
        if fin_entry is not None:
            self._finally_stack.append(fin_entry)
        head = self._new("join", st, "try")
        for p in preds:
            self._edge(p, head)
        body_out = self._block(st.body, [head])
        self._handler_stack.pop()
        # else
        if st.orelse:
            outer = self._raise_targets_with_finally(fin_entry)
            self._handler_stack.append(outer)
            body_out = self._block(st.orelse, body_out)
            self._handler_stack.pop()
        # handlers: exceptions inside a handler go to finally / outer
        outs = list(body_out)
        for h, hn in zip(st.handlers, handler_entries):
            outer = self._raise_targets_with_finally(fin_entry)
            self._handler_stack.append(outer)
            outs += self._block(h.body, [hn])
            self._handler_stack.pop()
        if fin_entry is not None:
            self._finally_stack.pop()
            for o in outs:
                self._edge(o, fin_entry)
            fin_entry.normal_preds = {o.id for o in outs}  # the other predecessors are exception / return edges
            fouts = self._block(st.finalbody, [fin_entry])
            # after finally: fall through, or continue an exception / pending return
            for fo in fouts:
                for t in self._raise_targets():
                    self._edge(fo, t)
                for tid in self._finally_pending.get(fin_entry.id, ()):
                    self._to_exit(fo, self.nodes[tid])
            return fouts
        return outs

    def _raise_targets_with_finally(self, fin_entry):
        if fin_entry is not None:
            return [fin_entry]
        return self._raise_targets()

    # ------------------------------------------------------------------ analyses
    def reachable(self):
        seen = {self.entry.id}
        st = [self.entry]
        while st:
            n = st.pop()
            for s in n.succ:
                if s.id not in seen:
                    seen.add(s.id)
                    st.append(s)
        return seen

    def dominators(self):
        """dom[n] = set of node ids dominating n (including n); only for reachable nodes."""
        if self._dom is not None:
            return self._dom
        reach = self.reachable()
        order = [n for n in self.nodes if n.id in reach]
        allset = set(reach)
        dom = {n.id: set(allset) for n in order}
        dom[self.entry.id] = {self.entry.id}
        changed = True
        while changed:
            changed = False
            for n in order:
                if n is self.entry:
                    continue
                ps = [dom[p.id] for p in n.pred if p.id in reach]
                new = set.intersection(*ps) if ps else set()
                new = new | {n.id}
                if new != dom[n.id]:
                    dom[n.id] = new
                    changed = True
        self._dom = dom
        return dom

    def postdominators(self, exits=None):
        """pdom[n] = nodes post-dominating n w.r.t. the given exit nodes (default: normal and raise exit)."""
        exits = exits or [self.exit, self.raise_exit]
        virtual = -1
        ids = [n.id for n in self.nodes]
        # only paths that can reach one of the chosen exits count (e.g. ignore exceptional paths
        # when post-dominance w.r.t. the normal exit is asked for)
        can = {e.id for e in exits}
        changed = True
        while changed:
            changed = False
            for n in self.nodes:
                if n.id not in can and any(s.id in can for s in n.succ):
                    can.add(n.id)
                    changed = True
        succ = {n.id: [s.id for s in n.succ if s.id in can] for n in self.nodes}
        for e in exits:
            succ[e.id] = succ[e.id] + [virtual]
        allset = set(ids) | {virtual}
        pdom = {i: set(allset) for i in ids}
        pdom[virtual] = {virtual}
        changed = True
        while changed:
            changed = False
            for i in reversed(ids):
                ss = [pdom[s] for s in succ[i]]
                new = set.intersection(*ss) if ss else set()
                new = new | {i}
                if new != pdom[i]:
                    pdom[i] = new
                    changed = True
        return pdom

    def dominates(self, a, b):
        d = self.dominators()
        return b.id in d and a.id in d[b.id]

    def node_for(self, astnode):
        """CFG node of the statement containing `astnode` (the innermost statement that has a node)."""
        n = astnode
        while n is not None:
            if id(n) in self.node_of_stmt:
                return self.node_of_stmt[id(n)]
            n = getattr(n, "_parent", None)
            if n is self.fnode:
                break
        return None

    def nodes_for(self, astnode):
        """All CFG nodes for the statement containing astnode (desugared IfExp statements may have several)."""
        first = self.node_for(astnode)
        return [first] if first else []

    def guards(self, node):
        """Branch facts that hold whenever `node` executes: list of (test_expr, polarity)
        for every edge node dominating it; conjunctions/disjunctions/not are decomposed."""
        d = self.dominators()
        if node.id not in d:
            return []
        cache = self.__dict__.setdefault("_edge_facts", {}) if hasattr(self, "__dict__") else {}
        facts = []
        for i in sorted(d[node.id]):
            e = self.nodes[i]
            if e.kind == "edge" and e.test is not None:
                if i not in cache:
                    base = decompose(e.test, e.polarity)
                    extra = []
                    # the same facts with named booleans / count locals / one-line predicate helpers written out
                    if any(isinstance(y, (ast.Name, ast.Call)) for y in ast.walk(e.test)):
                        x = self.expand(e.test, e.pred[0] if e.pred else e)
                        if x is not e.test:
                            have = {(ast.dump(t), pol) for t, pol in base}
                            extra = [(t, pol) for t, pol in decompose(x, e.polarity) if (ast.dump(t), pol) not in have]
                    cache[i] = base + extra
                facts.extend(cache[i])
            elif e.kind == "stmt" and isinstance(e.ast, ast.Expr) and isinstance(e.ast.value, ast.Call) and e is not node:
                # a dominating call of a checking helper that returns normally only under certain conditions
                # (`_check_count(len(a), len(b))` raising when they differ) establishes those conditions
                if i not in cache:
                    cache[i] = _facts_after_call(e.ast.value)
                rd = self._rd()
                for t, pol in cache[i]:
                    names = {y.id for y in ast.walk(t) if isinstance(y, ast.Name)}
                    if all(rd.defs_reaching(e, nm) == rd.defs_reaching(node, nm) for nm in names):
                        facts.append((t, pol))
        return facts

    # ------------------------------------------------------------------ expression expansion
    def _rd(self):
        if getattr(self, "_rdefs", None) is None:
            self._rdefs = ReachingDefs(self)
        return self._rdefs

    def expand(self, expr, at_node, depth=0):
        """`expr` with (a) every local that has exactly one reaching definition `v = <pure expression>` at `at_node`
        replaced by that expression (provided the names it mentions still have the same definitions), and (b) calls of
        one-line predicate helpers (`def h(a, b): return <expr>`) replaced by their body.  Returns `expr` itself when
        nothing changes.  Used so that `n = len(xs); ok = n == 1; if ok:` yields the fact `len(xs) == 1`."""
        if depth > 4 or at_node is None:
            return expr
        rd = self._rd()
        byid = self.nodes
        changed = [False]
        cfg = self

        def pure(e):
            for x in ast.walk(e):
                if isinstance(x, (ast.Await, ast.Yield, ast.YieldFrom, ast.NamedExpr, ast.Lambda)):
                    return False
            return True

        class T(ast.NodeTransformer):
            def visit_Name(self, n):
                if not isinstance(n.ctx, ast.Load):
                    return n
                defs = rd.defs_reaching(at_node, n.id)
                if len(defs) != 1:
                    return n
                d = byid[defs[0]]
                st = d.ast
                if d.kind != "stmt" or not isinstance(st, ast.Assign) or len(st.targets) != 1 or not isinstance(st.targets[0], ast.Name) or st.targets[0].id != n.id:
                    return n
                v = st.value
                if not pure(v) or isinstance(v, (ast.Constant, ast.List, ast.Dict, ast.Set, ast.ListComp, ast.SetComp, ast.DictComp)):
                    return n
                # only expressions that read like conditions / counts / plain aliases are written out
                if not isinstance(v, (ast.Compare, ast.BoolOp, ast.UnaryOp, ast.Call, ast.Attribute, ast.Subscript, ast.Name, ast.BinOp, ast.IfExp)):
                    return n
                if isinstance(v, ast.Call) and not (isinstance(v.func, ast.Name) and v.func.id in ("len", "isinstance", "any", "all", "bool", "callable", "hasattr", "int") or _one_line_body(v) is not None):
                    return n
                for y in ast.walk(v):
                    if isinstance(y, ast.Name) and isinstance(y.ctx, ast.Load) and rd.defs_reaching(d, y.id) != rd.defs_reaching(at_node, y.id):
                        return n  # a name of the definition was rebound in between
                changed[0] = True
                new = _clone(v)
                new = cfg.expand(new, d, depth + 1)
                return ast.copy_location(new, n)

            def visit_Call(self, c):
                self.generic_visit(c)
                body = _one_line_body(c)
                if body is None:
                    return c
                fdef, ret = body
                params = [a.arg for a in fdef.args.posonlyargs + fdef.args.args]
                if fdef.args.vararg or fdef.args.kwarg or any(isinstance(a, ast.Starred) for a in c.args) or any(k.arg is None for k in c.keywords):
                    return c
                is_method = bool(params) and params[0] in ("self", "cls") and isinstance(c.func, ast.Attribute)
                mapping = {}
                if is_method:
                    mapping[params[0]] = c.func.value
                    params = params[1:]
                for i, a in enumerate(c.args):
                    if i < len(params):
                        mapping[params[i]] = a
                for k in c.keywords:
                    mapping[k.arg] = k.value
                defaults = fdef.args.defaults
                for prm, dflt in zip(([a.arg for a in fdef.args.posonlyargs + fdef.args.args])[len(fdef.args.posonlyargs + fdef.args.args) - len(defaults):], defaults):
                    mapping.setdefault(prm, dflt)
                need = {x.id for x in ast.walk(ret) if isinstance(x, ast.Name) and isinstance(x.ctx, ast.Load)} & set([a.arg for a in fdef.args.posonlyargs + fdef.args.args])
                if not need <= set(mapping):
                    return c
                class S(ast.NodeTransformer):
                    def visit_Name(self, n):
                        if isinstance(n.ctx, ast.Load) and n.id in mapping:
                            return _clone(mapping[n.id])
                        return n

                changed[0] = True
                return ast.copy_location(S().visit(_clone(ret)), c)

        work = _clone(expr)
        _set_parents(work)
        work._parent = getattr(expr, "_parent", None)  # lexical lookups of helpers climb from here
        new = T().visit(work)
        if not changed[0]:
            return expr
        ast.fix_missing_locations(new)
        _set_parents(new)
        new._parent = getattr(expr, "_parent", None)
        new._expanded_from = expr
        return new

    def guards_of_ast(self, astnode):
        n = self.node_for(astnode)
        if n is None:
            return []
        facts = self.guards(n)
        # an expression inside the test of an `if`/`while` with and/or: left operands guard the right ones
        facts += expression_guards(astnode)
        return facts

    def paths(self, src, dst_ids, limit=200000, avoid=()):
        """Enumerate acyclic paths (each node at most once... loops unrolled once) from src to any node in dst_ids."""
        out = []
        stack = [(src, [src.id])]
        count = 0
        avoid = set(avoid)
        while stack:
            n, path = stack.pop()
            if n.id in dst_ids:
                out.append(path)
                count += 1
                if count >= limit:
                    break
                continue
            for s in n.succ:
                if s.id in avoid or path.count(s.id) >= 2:
                    continue
                stack.append((s, path + [s.id]))
        return out

    def can_reach(self, src, dst, avoid=()):
        """Is there a path src -> dst that does not pass through any node in `avoid`?"""
        avoid = {a.id for a in avoid}
        seen = {src.id}
        st = [src]
        while st:
            n = st.pop()
            for s in n.succ:
                if s.id in avoid or s.id in seen:
                    continue
                if s is dst:
                    return True
                seen.add(s.id)
                st.append(s)
        return False


def decompose(test, polarity):
    """(a and b) true -> a true, b true; (a or b) false -> a false, b false; not a -> flip."""
    out = []
    if isinstance(test, ast.UnaryOp) and isinstance(test.op, ast.Not):
        return decompose(test.operand, not polarity)
    if isinstance(test, ast.BoolOp):
        if isinstance(test.op, ast.And) and polarity:
            for v in test.values:
                out += decompose(v, True)
            return out
        if isinstance(test.op, ast.Or) and not polarity:
            for v in test.values:
                out += decompose(v, False)
            return out
    return [(test, polarity)]


def expression_guards(node):
    """Short-circuit facts inside one expression: in `a and b`, evaluating b implies a true;
    in `a or b`, evaluating b implies a false; in `x if c else y`, x implies c true."""
    facts = []
    child = node
    p = getattr(node, "_parent", None)
    while p is not None and not isinstance(p, ast.stmt):
        if isinstance(p, ast.BoolOp):
            idx = next((i for i, v in enumerate(p.values) if v is child), None)
            if idx:
                for v in p.values[:idx]:
                    facts += decompose(v, isinstance(p.op, ast.And))
        elif isinstance(p, ast.IfExp):
            if child is p.body:
                facts += decompose(p.test, True)
            elif child is p.orelse:
                facts += decompose(p.test, False)
        elif isinstance(p, (ast.ListComp, ast.SetComp, ast.GeneratorExp, ast.DictComp)):
            # element is evaluated only when all `if` filters hold
            if child is getattr(p, "elt", None) or child is getattr(p, "key", None) or child is getattr(p, "value", None):
                for g in p.generators:
                    for c in g.ifs:
                        facts += decompose(c, True)
        child = p
        p = getattr(p, "_parent", None)
    return facts


# --------------------------------------------------------------------------------------
# Lexical lookup of helpers (no Project needed: parents are climbed to the module)
# --------------------------------------------------------------------------------------


def _clone(node):
    """structural copy of an expression (fields only: the `_parent` back references are not followed)"""
    if isinstance(node, list):
        return [_clone(x) for x in node]
    if not isinstance(node, ast.AST):
        return node
    new = type(node)(**{f: _clone(v) for f, v in ast.iter_fields(node)})
    if hasattr(node, "_home_module"):
        new._home_module = node._home_module  # inlined from another module: names keep their meaning
    return ast.copy_location(new, node) if hasattr(node, "lineno") else new


def _set_parents(tree):
    for n in ast.walk(tree):
        for c in ast.iter_child_nodes(n):
            c._parent = n


def _scope_statements(scope):
    """statements of a function / module body including those nested in compound statements, not in nested defs"""
    todo = list(scope.body)
    while todo:
        st = todo.pop(0)
        yield st
        if isinstance(st, (ast.FunctionDef, ast.AsyncFunctionDef, ast.ClassDef)):
            continue
        for fld in ("body", "orelse", "finalbody"):
            sub = getattr(st, fld, None)
            if isinstance(sub, list):
                todo.extend(x for x in sub if isinstance(x, ast.stmt))
        for h in getattr(st, "handlers", []) or []:
            todo.extend(h.body)


def _lookup_def(call):
    """FunctionDef a call denotes when that is lexically evident: `name(...)` -> a def of that name in an enclosing
    function or at module level; `self.name(...)` / `cls.name(...)` -> a method of the enclosing class."""
    f = call.func
    scopes = []
    p = getattr(call, "_parent", None)
    cls = None
    while p is not None:
        if isinstance(p, (ast.FunctionDef, ast.AsyncFunctionDef, ast.Module)):
            scopes.append(p)
        if isinstance(p, ast.ClassDef) and cls is None:
            cls = p
        p = getattr(p, "_parent", None)
    if isinstance(f, ast.Name):
        for sc in scopes:
            stmts = list(_scope_statements(sc))
            found = [st for st in stmts if isinstance(st, (ast.FunctionDef, ast.AsyncFunctionDef)) and st.name == f.id]
            # a name that is also assigned in that scope is not reliably the def
            if found:
                rebound = any(isinstance(st, ast.Assign) and any(isinstance(t, ast.Name) and t.id == f.id for t in st.targets) for st in stmts)
                return None if rebound or len(found) != 1 else found[0]
            if isinstance(sc, (ast.FunctionDef, ast.AsyncFunctionDef)):
                a = sc.args
                if f.id in {x.arg for x in a.posonlyargs + a.args + a.kwonlyargs} | ({a.vararg.arg} if a.vararg else set()) | ({a.kwarg.arg} if a.kwarg else set()):
                    return None  # a parameter shadows it
        return None
    if isinstance(f, ast.Attribute) and isinstance(f.value, ast.Name) and f.value.id in ("self", "cls") and cls is not None:
        found = [st for st in cls.body if isinstance(st, (ast.FunctionDef, ast.AsyncFunctionDef)) and st.name == f.attr]
        return found[0] if len(found) == 1 else None
    return None


def _block_never_returns(body):
    """every path through the statement list ends in `raise` (no return, no fall-through)"""
    for st in body:
        if isinstance(st, ast.Raise):
            return True
        if isinstance(st, ast.If) and st.orelse and _block_never_returns(st.body) and _block_never_returns(st.orelse):
            return True
        if isinstance(st, (ast.Return,)):
            return False
    return False


def _callee_never_returns(call):
    fdef = _lookup_def(call)
    if fdef is None or any(isinstance(x, (ast.Yield, ast.YieldFrom)) for x in ast.walk(fdef)):
        return False
    if any(isinstance(x, ast.Return) for x in ast.walk(fdef)):
        return False
    return _block_never_returns(fdef.body)


_HELPER_FACTS = register_cache({})


def _normal_exit_facts(fdef, depth=0):
    """facts over the helper's own parameters that hold at every normal exit of fdef (the helper raises otherwise)"""
    key = id(fdef)
    if key in _HELPER_FACTS:
        return _HELPER_FACTS[key]
    _HELPER_FACTS[key] = []  # recursion guard
    if depth > 2 or any(isinstance(x, (ast.Yield, ast.YieldFrom)) for x in ast.walk(fdef)):
        return []
    try:
        g = CFG(fdef)
    except Exception:
        return []
    params = {a.arg for a in fdef.args.posonlyargs + fdef.args.args + fdef.args.kwonlyargs}
    common = None
    for e in g.exit.pred:
        fs = g.guards(e)
        if e.kind == "edge" and e.test is not None:
            fs = fs + decompose(e.test, e.polarity)
            x = g.expand(e.test, e.pred[0] if e.pred else e)
            if x is not e.test:
                fs = fs + decompose(x, e.polarity)
        cur = {}
        for t, pol in fs:
            names = {y.id for y in ast.walk(t) if isinstance(y, ast.Name) and isinstance(y.ctx, ast.Load)}
            free = names - params - {"len", "isinstance", "any", "all", "int", "bool", "None", "True", "False"}
            if names & params and not free:
                cur[(ast.dump(t), pol)] = (t, pol)
        common = cur if common is None else {k: v for k, v in common.items() if k in cur}
    out = list((common or {}).values())
    _HELPER_FACTS[key] = out
    return out


def _facts_after_call(call):
    fdef = _lookup_def(call)
    if fdef is None or fdef.decorator_list or fdef.args.vararg or fdef.args.kwarg:
        return []
    if any(isinstance(a, ast.Starred) for a in call.args) or any(k.arg is None for k in call.keywords):
        return []
    facts = _normal_exit_facts(fdef)
    if not facts:
        return []
    params = [a.arg for a in fdef.args.posonlyargs + fdef.args.args]
    mapping = {}
    if params and params[0] in ("self", "cls") and isinstance(call.func, ast.Attribute):
        mapping[params[0]] = call.func.value
        params = params[1:]
    for i, a in enumerate(call.args):
        if i < len(params):
            mapping[params[i]] = a
    for k in call.keywords:
        mapping[k.arg] = k.value
    out = []

    class S(ast.NodeTransformer):
        def visit_Name(self, n):
            if isinstance(n.ctx, ast.Load) and n.id in mapping:
                return _clone(mapping[n.id])
            return n

    for t, pol in facts:
        names = {y.id for y in ast.walk(t) if isinstance(y, ast.Name)} & set(a.arg for a in fdef.args.posonlyargs + fdef.args.args + fdef.args.kwonlyargs)
        if not names <= set(mapping):
            continue
        new = S().visit(_clone(t))
        ast.fix_missing_locations(new)
        _set_parents(new)
        new._parent = getattr(call, "_parent", None)
        out.append((new, pol))
    return out


def _one_line_body(call):
    """(FunctionDef, returned expression) when the call denotes a straight-line helper: optional single-name
    assignments of pure expressions followed by `return <expr>`; the locals are written out in the returned expression"""
    fdef = _lookup_def(call)
    if fdef is None or fdef.decorator_list:
        return None
    body = [st for st in fdef.body if not (isinstance(st, ast.Expr) and isinstance(st.value, ast.Constant))]
    if not body or not isinstance(body[-1], ast.Return) or body[-1].value is None:
        return None
    subst = {}

    class S(ast.NodeTransformer):
        def visit_Name(self, n):
            if isinstance(n.ctx, ast.Load) and n.id in subst:
                return _clone(subst[n.id])
            return n

    for st in body[:-1]:
        if not (isinstance(st, ast.Assign) and len(st.targets) == 1 and isinstance(st.targets[0], ast.Name)):
            return None
        if any(isinstance(x, (ast.Await, ast.Yield, ast.YieldFrom, ast.NamedExpr, ast.Lambda)) for x in ast.walk(st.value)):
            return None
        subst[st.targets[0].id] = S().visit(_clone(st.value))
    if len(body) == 1:
        return fdef, body[0].value
    ret = S().visit(_clone(body[-1].value))
    ast.fix_missing_locations(ret)
    return fdef, ret


# --------------------------------------------------------------------------------------
# Reaching definitions
# --------------------------------------------------------------------------------------


def _stores(st):
    """Names (re)defined by statement node `st` itself (not nested blocks)."""
    names = []

    def targets(t):
        for n in ast.walk(t):
            if isinstance(n, ast.Name) and isinstance(n.ctx, (ast.Store, ast.Del)):
                names.append(n.id)

    if isinstance(st, ast.Assign):
        for t in st.targets:
            targets(t)
    elif isinstance(st, (ast.AugAssign, ast.AnnAssign)):
        targets(st.target)
    elif isinstance(st, (ast.For, ast.AsyncFor)):
        targets(st.target)
    elif isinstance(st, (ast.With, ast.AsyncWith)):
        for it in st.items:
            if it.optional_vars is not None:
                targets(it.optional_vars)
    elif isinstance(st, (ast.FunctionDef, ast.AsyncFunctionDef, ast.ClassDef)):
        names.append(st.name)
    elif isinstance(st, ast.Import):
        for a in st.names:
            names.append(a.asname or a.name.split(".")[0])
    elif isinstance(st, ast.ImportFrom):
        for a in st.names:
            names.append(a.asname or a.name)
    elif isinstance(st, ast.ExceptHandler):
        if st.name:
            names.append(st.name)
    elif isinstance(st, ast.Delete):
        for t in st.targets:
            targets(t)
    # walrus anywhere in the statement's own expressions
    if isinstance(st, ast.stmt) and not isinstance(st, (ast.FunctionDef, ast.AsyncFunctionDef, ast.ClassDef)):
        for n in _own_expr_nodes(st):
            if isinstance(n, ast.NamedExpr):
                names.append(n.target.id)
    return names


def _own_expr_nodes(st):
    """Expression nodes belonging to the statement header (not to nested statement blocks)."""
    for field, value in ast.iter_fields(st):
        if field in ("body", "orelse", "finalbody", "handlers", "cases"):
            continue
        vals = value if isinstance(value, list) else [value]
        for v in vals:
            if isinstance(v, ast.AST):
                for n in ast.walk(v):
                    yield n


class ReachingDefs:
    """Reaching definitions over a CFG.  A definition is (name, node_id); parameters are
    defined at the entry node."""

    def __init__(self, cfg):
        self.cfg = cfg
        gen = defaultdict(set)
        f = cfg.fnode
        if hasattr(f, "args"):
            a = f.args
            for x in a.posonlyargs + a.args + a.kwonlyargs:
                gen[cfg.entry.id].add(x.arg)
            if a.vararg:
                gen[cfg.entry.id].add(a.vararg.arg)
            if a.kwarg:
                gen[cfg.entry.id].add(a.kwarg.arg)
        for n in cfg.nodes:
            if n.kind in ("stmt", "loop") and n.ast is not None and n.label != "assert-fail":
                for nm in _stores(n.ast):
                    gen[n.id].add(nm)
            elif n.kind == "handler" and n.ast is not None and n.ast.name:
                gen[n.id].add(n.ast.name)
            elif n.kind == "test" and n.ast is not None:
                t = n.test
                if t is not None:
                    for x in ast.walk(t):
                        if isinstance(x, ast.NamedExpr):
                            gen[n.id].add(x.target.id)
        self.gen = gen
        IN = {n.id: set() for n in cfg.nodes}
        OUT = {n.id: set() for n in cfg.nodes}
        work = list(cfg.nodes)
        while work:
            n = work.pop()
            i = set()
            for p in n.pred:
                i |= OUT[p.id]
            IN[n.id] = i
            g = gen.get(n.id, ())
            o = {d for d in i if d[0] not in g} | {(nm, n.id) for nm in g}
            if o != OUT[n.id]:
                OUT[n.id] = o
                work.extend(n.succ)
        self.IN, self.OUT = IN, OUT

    def defs_reaching(self, node, name):
        """Definition node ids of `name` that reach the *entry* of CFG node `node`."""
        return sorted(d[1] for d in self.IN[node.id] if d[0] == name)

    def defs_reaching_ast(self, astnode, name):
        n = self.cfg.node_for(astnode)
        if n is None:
            return []
        return self.defs_reaching(n, name)
