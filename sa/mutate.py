"""Whole-package behaviour-preserving source transformations (used by tools/neutral_mutate.py and by the thorough
tier's self-test): each is applied to EVERY function of a scratch copy of the package; every check must stay silent
on the result.  `transform(kind, source, filename)` returns the rewritten source.

 T1  rename every plain local (not a parameter, not captured by / from another scope) to <name>_r
 T2  bind every `if` test that is a comparison or boolean operation to a fresh local first
 T3  swap the operands of == and != when both are side-effect-free
 T5  isinstance(x, A | B)  ->  isinstance(x, (A, B))
 T6  `return <expr>`  ->  `_ret = <expr>; return _ret`
 T7  `x = a if c else b`  ->  if c: x = a / else: x = b
 T8  `if c: ...; return` + rest  ->  `if c: ...; return  else: rest`          T9  the inverse
 T11 `if c: A else: B`  ->  `if not c: B else: A`
 T12 `if a and b: X`  ->  `if a: if b: X`
 T13 `for x in xs: if c: body`  ->  `for x in xs: if not c: continue; body`
 T15 `y = [e for x in xs if c]`  ->  `y = []; for x in xs: if c: y.append(e)`
 T17 string literals compared with == / != become module-level constants
 T18 isinstance(x, (A, B))  ->  isinstance(x, A) or isinstance(x, B)
 T23 `return a if c else b`  ->  if c: return a else: return b
 T26 keyword arguments with effect-free values are sorted by name
 T35 De Morgan on `not (a and b)` / `not a and not b`
 T36 integer comparisons of len(): `len(x) > k` -> `len(x) >= k+1` etc.
 T39 f-strings without format specs -> concatenation with str()
 T40 dict displays with identifier keys -> dict(k=v)
 T46 two adjacent independent plain assignments -> one tuple assignment
 T51 comprehension variables renamed
 T33 closure-free nested functions lifted to module level
 T42 `import a.b.c as c` -> `from a.b import c`
Each transformed copy of the package passes the 85 baseline tests (tools/neutral_mutate.py with VERIF_MUT_TESTS=1)."""
import ast
import symtable

KINDS = ["T1", "T2", "T3", "T5", "T6", "T7", "T8", "T9", "T11", "T12", "T13", "T15", "T17", "T18", "T23", "T26", "T35", "T36", "T39", "T40", "T46", "T51", "T33", "T42"]


def pure(e):
    return all(isinstance(x, (ast.Name, ast.Attribute, ast.Constant, ast.Subscript, ast.Load, ast.Tuple, ast.List, ast.UnaryOp, ast.USub, ast.Not, ast.BinOp, ast.operator, ast.expr_context, ast.Call, ast.keyword, ast.Slice)) for x in ast.walk(e)) and not any(isinstance(x, (ast.NamedExpr, ast.Await, ast.Yield, ast.YieldFrom)) for x in ast.walk(e))


class T1(ast.NodeTransformer):
    """rename plain locals per function using symtable (skips functions with nested scopes that capture them)"""

    def __init__(self, src, filename):
        self.table = symtable.symtable(src, filename, "exec")

    def run(self, tree):
        self._walk(tree, self.table)
        return tree

    def _walk(self, node, table):
        children = {}
        for ch in table.get_children():
            children.setdefault((ch.get_name(), ch.get_lineno()), ch)
        for n in ast.iter_child_nodes(node):
            if isinstance(n, (ast.FunctionDef, ast.AsyncFunctionDef)):
                st = children.get((n.name, n.lineno))
                if st is not None:
                    self._rename_in(n, st)
                    self._walk(n, st)
            elif isinstance(n, ast.ClassDef):
                st = children.get((n.name, n.lineno))
                if st is not None:
                    self._walk(n, st)
            else:
                self._walk(n, table)

    def _rename_in(self, fn, st):
        if st.get_type() != "function":
            return
        # names that are local here and not visible to nested scopes
        captured = set()
        for ch in st.get_children():
            for s in ch.get_symbols():
                if s.is_free() or s.is_global():
                    captured.add(s.get_name())
        # comprehension / lambda / nested def scopes reference enclosing names as free variables
        names = set()
        for s in st.get_symbols():
            nm = s.get_name()
            if s.is_local() and not s.is_parameter() and not s.is_free() and not s.is_global() and not s.is_imported() and nm not in captured and not nm.startswith("__") and not s.is_namespace():
                names.add(nm)
        if not names:
            return
        # do not touch names used in nested scopes at all (symtable free detection covers it), nor `del`/global decls
        nested_names = set()
        for sub in ast.walk(fn):
            if sub is not fn and isinstance(sub, (ast.FunctionDef, ast.AsyncFunctionDef, ast.Lambda, ast.ClassDef, ast.ListComp, ast.SetComp, ast.DictComp, ast.GeneratorExp)):
                for x in ast.walk(sub):
                    if isinstance(x, ast.Name):
                        nested_names.add(x.id)
                    if isinstance(x, ast.arg):
                        nested_names.add(x.arg)
        names -= nested_names
        names -= {"self", "cls"}

        def visit(node, top=True):
            for child in ast.iter_child_nodes(node):
                if isinstance(child, (ast.FunctionDef, ast.AsyncFunctionDef, ast.Lambda, ast.ClassDef, ast.ListComp, ast.SetComp, ast.DictComp, ast.GeneratorExp)):
                    continue
                if isinstance(child, ast.Name) and child.id in names:
                    child.id = child.id + "_r"
                elif isinstance(child, ast.ExceptHandler) and child.name in names:
                    child.name = child.name + "_r"
                    visit(child, False)
                    continue
                visit(child, False)

        for st_ in fn.body:  # decorators and defaults belong to the enclosing scope
            holder = ast.Module(body=[st_], type_ignores=[])
            visit(holder)


class T2(ast.NodeTransformer):
    def __init__(self):
        self.k = 0

    def _block(self, stmts):
        out = []
        for st in stmts:
            st = self.generic_visit(st) if not isinstance(st, (ast.FunctionDef, ast.AsyncFunctionDef, ast.ClassDef)) else self.visit(st)
            if isinstance(st, ast.If) and isinstance(st.test, (ast.Compare, ast.BoolOp)) and not any(isinstance(x, ast.NamedExpr) for x in ast.walk(st.test)) and not getattr(st, "_is_elif", False):
                self.k += 1
                nm = f"_cond{self.k}"
                out.append(ast.Assign(targets=[ast.Name(id=nm, ctx=ast.Store())], value=st.test))
                st.test = ast.Name(id=nm, ctx=ast.Load())
            out.append(st)
        return out

    def visit_FunctionDef(self, node):
        self._mark_elifs(node)
        self._rewrite(node)
        return node

    visit_AsyncFunctionDef = visit_FunctionDef

    def _mark_elifs(self, node):
        for x in ast.walk(node):
            if isinstance(x, ast.If) and len(x.orelse) == 1 and isinstance(x.orelse[0], ast.If):
                x.orelse[0]._is_elif = True

    def _rewrite(self, node):
        for fld in ("body", "orelse", "finalbody"):
            blk = getattr(node, fld, None)
            if isinstance(blk, list) and blk and isinstance(blk[0], ast.stmt):
                new = []
                for st in blk:
                    if isinstance(st, (ast.FunctionDef, ast.AsyncFunctionDef)):
                        self.visit_FunctionDef(st)
                        new.append(st)
                        continue
                    if isinstance(st, ast.ClassDef):
                        for s2 in st.body:
                            if isinstance(s2, (ast.FunctionDef, ast.AsyncFunctionDef)):
                                self.visit_FunctionDef(s2)
                        new.append(st)
                        continue
                    self._rewrite(st)
                    for h in getattr(st, "handlers", []) or []:
                        self._rewrite(h)
                    if isinstance(st, ast.If) and isinstance(st.test, (ast.Compare, ast.BoolOp)) and not any(isinstance(x, (ast.NamedExpr, ast.Await)) for x in ast.walk(st.test)) and not getattr(st, "_is_elif", False):
                        self.k += 1
                        nm = f"_cond{self.k}"
                        new.append(ast.Assign(targets=[ast.Name(id=nm, ctx=ast.Store())], value=st.test))
                        st.test = ast.Name(id=nm, ctx=ast.Load())
                    new.append(st)
                setattr(node, fld, new)

    def visit_Module(self, node):
        for st in node.body:
            if isinstance(st, (ast.FunctionDef, ast.AsyncFunctionDef)):
                self.visit_FunctionDef(st)
            elif isinstance(st, ast.ClassDef):
                for s2 in st.body:
                    if isinstance(s2, (ast.FunctionDef, ast.AsyncFunctionDef)):
                        self.visit_FunctionDef(s2)
        return node


class T3(ast.NodeTransformer):
    def visit_Compare(self, node):
        self.generic_visit(node)
        if len(node.ops) == 1 and isinstance(node.ops[0], (ast.Eq, ast.NotEq)) and pure(node.left) and pure(node.comparators[0]) and not any(isinstance(x, ast.Call) for x in ast.walk(node)):
            node.left, node.comparators = node.comparators[0], [node.left]
        return node


class T5(ast.NodeTransformer):
    def visit_Call(self, node):
        self.generic_visit(node)
        if isinstance(node.func, ast.Name) and node.func.id == "isinstance" and len(node.args) == 2 and isinstance(node.args[1], ast.BinOp) and isinstance(node.args[1].op, ast.BitOr):
            parts, st = [], [node.args[1]]
            while st:
                x = st.pop()
                if isinstance(x, ast.BinOp) and isinstance(x.op, ast.BitOr):
                    st += [x.right, x.left]
                else:
                    parts.append(x)
            node.args[1] = ast.Tuple(elts=parts, ctx=ast.Load())
        return node


class T6(ast.NodeTransformer):
    def __init__(self):
        self.k = 0

    def _blk(self, blk):
        out = []
        for st in blk:
            if isinstance(st, ast.Return) and st.value is not None and not isinstance(st.value, (ast.Name, ast.Constant)):
                self.k += 1
                nm = f"_ret{self.k}"
                out.append(ast.Assign(targets=[ast.Name(id=nm, ctx=ast.Store())], value=st.value))
                out.append(ast.Return(value=ast.Name(id=nm, ctx=ast.Load())))
            else:
                out.append(st)
        return out

    def generic_visit(self, node):
        super().generic_visit(node)
        for fld in ("body", "orelse", "finalbody"):
            blk = getattr(node, fld, None)
            if isinstance(blk, list) and blk and isinstance(blk[0], ast.stmt) and not isinstance(node, (ast.Module, ast.ClassDef)):
                setattr(node, fld, self._blk(blk))
        return node


class T7(ast.NodeTransformer):
    def _blk(self, blk):
        out = []
        for st in blk:
            if isinstance(st, ast.Assign) and len(st.targets) == 1 and isinstance(st.targets[0], ast.Name) and isinstance(st.value, ast.IfExp):
                v = st.value
                out.append(ast.If(test=v.test, body=[ast.Assign(targets=[ast.Name(id=st.targets[0].id, ctx=ast.Store())], value=v.body)], orelse=[ast.Assign(targets=[ast.Name(id=st.targets[0].id, ctx=ast.Store())], value=v.orelse)]))
            else:
                out.append(st)
        return out

    def generic_visit(self, node):
        super().generic_visit(node)
        for fld in ("body", "orelse", "finalbody"):
            blk = getattr(node, fld, None)
            if isinstance(blk, list) and blk and isinstance(blk[0], ast.stmt) and not isinstance(node, (ast.Module, ast.ClassDef)):
                setattr(node, fld, self._blk(blk))
        return node


_TERMS = (ast.Return, ast.Raise, ast.Continue, ast.Break)


def _blocks_of(node):
    for fld in ("body", "orelse", "finalbody"):
        blk = getattr(node, fld, None)
        if isinstance(blk, list) and blk and isinstance(blk[0], ast.stmt):
            yield fld, blk


class _BlockRewriter(ast.NodeTransformer):
    """applies self.block(list of statements, owner) to every statement list inside functions, innermost first"""

    def generic_visit(self, node):
        super().generic_visit(node)
        if isinstance(node, (ast.Module, ast.ClassDef)):
            return node
        for fld, blk in list(_blocks_of(node)):
            setattr(node, fld, self.block(blk, node, fld))
        return node


class T8(_BlockRewriter):
    """if c: ...; return   <rest>     ->   if c: ...; return  else: <rest>"""

    def block(self, blk, owner, fld):
        for i, st in enumerate(blk):
            if isinstance(st, ast.If) and not st.orelse and isinstance(st.body[-1], _TERMS) and i + 1 < len(blk):
                rest = blk[i + 1 :]
                if any(isinstance(x, (ast.FunctionDef, ast.ClassDef)) for x in rest):
                    continue
                st.orelse = rest
                return blk[: i + 1]
        return blk


class T9(_BlockRewriter):
    """if c: ...; return  else: <rest>   ->   if c: ...; return   <rest>"""

    def block(self, blk, owner, fld):
        out = []
        for st in blk:
            out.append(st)
            if isinstance(st, ast.If) and st.orelse and isinstance(st.body[-1], _TERMS) and st is blk[-1] or (isinstance(st, ast.If) and st.orelse and isinstance(st.body[-1], _TERMS)):
                rest, st.orelse = st.orelse, []
                out.extend(rest)
        return out


class T11(_BlockRewriter):
    """if c: A else: B   ->   if not c: B else: A     (not for elif chains)"""

    def block(self, blk, owner, fld):
        for st in blk:
            if isinstance(st, ast.If) and st.orelse and not (len(st.orelse) == 1 and isinstance(st.orelse[0], ast.If)) and not (isinstance(owner, ast.If) and fld == "orelse" and len(blk) == 1):
                st.test = ast.UnaryOp(op=ast.Not(), operand=st.test)
                st.body, st.orelse = st.orelse, st.body
        return blk


class T12(_BlockRewriter):
    """if a and b: X   ->   if a: if b: X      (no else)"""

    def block(self, blk, owner, fld):
        for st in blk:
            if isinstance(st, ast.If) and not st.orelse and isinstance(st.test, ast.BoolOp) and isinstance(st.test.op, ast.And) and not (isinstance(owner, ast.If) and fld == "orelse" and len(blk) == 1):
                vals = st.test.values
                inner = ast.If(test=vals[-1] if len(vals) == 2 else ast.BoolOp(op=ast.And(), values=vals[1:]), body=st.body, orelse=[])
                st.test, st.body = vals[0], [inner]
        return blk


class T13(_BlockRewriter):
    """for x in xs: if c: body   ->   for x in xs: if not c: continue; body"""

    def block(self, blk, owner, fld):
        if isinstance(owner, (ast.For, ast.While)) and fld == "body" and len(blk) == 1 and isinstance(blk[0], ast.If) and not blk[0].orelse:
            st = blk[0]
            return [ast.If(test=ast.UnaryOp(op=ast.Not(), operand=st.test), body=[ast.Continue()], orelse=[])] + st.body
        return blk


class T15(ast.NodeTransformer):
    """y = [e for x in xs if c]   ->   y = []; for x in xs: if c: y.append(e)   (x not otherwise bound in the function)"""

    def visit_FunctionDef(self, fn):
        self.generic_visit(fn)
        bound = set()
        for x in ast.walk(fn):
            if isinstance(x, ast.Name) and isinstance(x.ctx, (ast.Store, ast.Del)):
                bound.add(x.id)
            elif isinstance(x, ast.arg):
                bound.add(x.arg)
        comp_bound = {t.id for c in ast.walk(fn) if isinstance(c, ast.comprehension) for t in ast.walk(c.target) if isinstance(t, ast.Name)}
        outer_bound = set()

        def collect(node):
            for ch in ast.iter_child_nodes(node):
                if isinstance(ch, (ast.ListComp, ast.SetComp, ast.DictComp, ast.GeneratorExp)):
                    continue
                if isinstance(ch, ast.Name) and isinstance(ch.ctx, (ast.Store, ast.Del)):
                    outer_bound.add(ch.id)
                if isinstance(ch, ast.arg):
                    outer_bound.add(ch.arg)
                collect(ch)

        collect(fn)
        used_free = {x.id for sub in ast.walk(fn) if isinstance(sub, (ast.Lambda, ast.FunctionDef)) and sub is not fn for x in ast.walk(sub) if isinstance(x, ast.Name)}

        def rewrite(blk):
            out = []
            for st in blk:
                for fld, b in list(_blocks_of(st)):
                    if not isinstance(st, (ast.FunctionDef, ast.ClassDef)):
                        setattr(st, fld, rewrite(b))
                for h in getattr(st, "handlers", []) or []:
                    h.body = rewrite(h.body)
                if isinstance(st, ast.Assign) and len(st.targets) == 1 and isinstance(st.targets[0], ast.Name) and isinstance(st.value, ast.ListComp) and len(st.value.generators) == 1:
                    g = st.value.generators[0]
                    y = st.targets[0].id
                    tnames = [t.id for t in ast.walk(g.target) if isinstance(t, ast.Name)]
                    uses_y = any(isinstance(x, ast.Name) and x.id == y for x in ast.walk(st.value))
                    nested = any(isinstance(x, (ast.ListComp, ast.SetComp, ast.DictComp, ast.GeneratorExp, ast.Lambda)) for x in ast.walk(st.value) if x is not st.value)
                    if not g.is_async and not uses_y and not nested and all(t not in outer_bound and t not in used_free and t != y for t in tnames):
                        body = [ast.Expr(value=ast.Call(func=ast.Attribute(value=ast.Name(id=y, ctx=ast.Load()), attr="append", ctx=ast.Load()), args=[st.value.elt], keywords=[]))]
                        for c in reversed(g.ifs):
                            body = [ast.If(test=c, body=body, orelse=[])]
                        out.append(ast.Assign(targets=[ast.Name(id=y, ctx=ast.Store())], value=ast.List(elts=[], ctx=ast.Load())))
                        out.append(ast.For(target=g.target, iter=g.iter, body=body, orelse=[]))
                        for t in tnames:
                            outer_bound.add(t)
                        continue
                out.append(st)
            return out

        fn.body = rewrite(fn.body)
        return fn


class T17(ast.NodeTransformer):
    """string literals compared with == / != / in (...) become module-level constants"""

    def __init__(self):
        self.consts = {}

    def _name(self, value):
        if value not in self.consts:
            self.consts[value] = f"_STR_{len(self.consts)}"
        return ast.Name(id=self.consts[value], ctx=ast.Load())

    def visit_Compare(self, node):
        self.generic_visit(node)
        if len(node.ops) == 1 and isinstance(node.ops[0], (ast.Eq, ast.NotEq)):
            c = node.comparators[0]
            if isinstance(c, ast.Constant) and isinstance(c.value, str) and c.value:
                node.comparators = [self._name(c.value)]
        return node

    def visit_FunctionDef(self, node):
        # not inside default values / decorators (evaluated before the constants exist is fine, but keep it simple)
        node.body = [self.visit(st) for st in node.body]
        return node

    def visit_Module(self, node):
        self.generic_visit(node)
        if self.consts:
            i = 0
            while i < len(node.body) and (isinstance(node.body[i], (ast.Import, ast.ImportFrom)) or (isinstance(node.body[i], ast.Expr) and isinstance(node.body[i].value, ast.Constant))):
                i += 1
            node.body[i:i] = [ast.Assign(targets=[ast.Name(id=n, ctx=ast.Store())], value=ast.Constant(value=v)) for v, n in self.consts.items()]
        return node

    def visit_ClassDef(self, node):
        # class bodies are their own scope but module constants are visible there too
        self.generic_visit(node)
        return node


class T18(ast.NodeTransformer):
    """isinstance(x, (A, B)) / isinstance(x, A | B)  ->  isinstance(x, A) or isinstance(x, B)   (x a plain name)"""

    def visit_Call(self, node):
        self.generic_visit(node)
        if isinstance(node.func, ast.Name) and node.func.id == "isinstance" and len(node.args) == 2 and isinstance(node.args[0], ast.Name) and not node.keywords:
            parts, st = [], [node.args[1]]
            while st:
                x = st.pop()
                if isinstance(x, ast.BinOp) and isinstance(x.op, ast.BitOr):
                    st += [x.right, x.left]
                elif isinstance(x, ast.Tuple):
                    st += list(reversed(x.elts))
                else:
                    parts.append(x)
            if len(parts) > 1 and all(isinstance(q, (ast.Name, ast.Attribute)) for q in parts):
                return ast.BoolOp(op=ast.Or(), values=[ast.Call(func=ast.Name(id="isinstance", ctx=ast.Load()), args=[ast.Name(id=node.args[0].id, ctx=ast.Load()), q], keywords=[]) for q in parts])
        return node


class T23(_BlockRewriter):
    """return a if c else b   ->   if c: return a  else: return b"""

    def block(self, blk, owner, fld):
        out = []
        for st in blk:
            if isinstance(st, ast.Return) and isinstance(st.value, ast.IfExp):
                v = st.value
                out.append(ast.If(test=v.test, body=[ast.Return(value=v.body)], orelse=[ast.Return(value=v.orelse)]))
            else:
                out.append(st)
        return out


class T26(ast.NodeTransformer):
    """keyword arguments with effect-free values are sorted by name"""

    def visit_Call(self, node):
        self.generic_visit(node)
        if len(node.keywords) > 1 and all(k.arg is not None for k in node.keywords) and all(pure(k.value) and not any(isinstance(x, ast.Call) for x in ast.walk(k.value)) for k in node.keywords):
            node.keywords = sorted(node.keywords, key=lambda k: k.arg)
        return node


class T35(ast.NodeTransformer):
    """De Morgan: not (a and b) -> not a or not b ; not (a or b) -> not a and not b   (and (not a) and (not b) -> not (a or b))"""

    def visit_UnaryOp(self, node):
        self.generic_visit(node)
        if isinstance(node.op, ast.Not) and isinstance(node.operand, ast.BoolOp):
            b = node.operand
            op = ast.Or() if isinstance(b.op, ast.And) else ast.And()
            return ast.BoolOp(op=op, values=[ast.UnaryOp(op=ast.Not(), operand=v) for v in b.values])
        return node

    def visit_BoolOp(self, node):
        self.generic_visit(node)
        if all(isinstance(v, ast.UnaryOp) and isinstance(v.op, ast.Not) and not isinstance(v.operand, ast.BoolOp) for v in node.values) and len(node.values) > 1:
            op = ast.Or() if isinstance(node.op, ast.And) else ast.And()
            return ast.UnaryOp(op=ast.Not(), operand=ast.BoolOp(op=op, values=[v.operand for v in node.values]))
        return node


class T36(ast.NodeTransformer):
    """len(x) > k -> len(x) >= k+1 ; len(x) < k -> len(x) <= k-1 ; >= k -> > k-1 ; <= k -> < k+1   (integers)"""

    def visit_Compare(self, node):
        self.generic_visit(node)
        if len(node.ops) == 1 and isinstance(node.left, ast.Call) and isinstance(node.left.func, ast.Name) and node.left.func.id == "len" and isinstance(node.comparators[0], ast.Constant) and type(node.comparators[0].value) is int:
            k = node.comparators[0].value
            op = node.ops[0]
            new = {ast.Gt: (ast.GtE, k + 1), ast.Lt: (ast.LtE, k - 1), ast.GtE: (ast.Gt, k - 1), ast.LtE: (ast.Lt, k + 1)}.get(type(op))
            if new is not None and new[1] >= 0:
                node.ops = [new[0]()]
                node.comparators = [ast.Constant(value=new[1])]
        return node


class T39(ast.NodeTransformer):
    """f"a{x}b" -> "a" + str(x) + "b"   (no conversion, no format spec; not inside another f-string)"""

    def visit_JoinedStr(self, node):
        parts = []
        for v in node.values:
            if isinstance(v, ast.Constant):
                parts.append(v)
            elif isinstance(v, ast.FormattedValue) and v.conversion == -1 and v.format_spec is None and not any(isinstance(y, ast.JoinedStr) for y in ast.walk(v.value)):
                parts.append(ast.Call(func=ast.Name(id="str", ctx=ast.Load()), args=[v.value], keywords=[]))
            else:
                return node
        if not parts or len(parts) < 2:
            return node
        out = parts[0]
        for q in parts[1:]:
            out = ast.BinOp(left=out, op=ast.Add(), right=q)
        if not isinstance(parts[0], ast.Constant):
            out_first = ast.BinOp(left=ast.Constant(value=""), op=ast.Add(), right=parts[0])
            out = out_first
            for q in parts[1:]:
                out = ast.BinOp(left=out, op=ast.Add(), right=q)
        return out

    def visit_Module(self, node):
        if any(isinstance(x, ast.Name) and x.id == "str" and not isinstance(x.ctx, ast.Load) for x in ast.walk(node)) or any(isinstance(x, ast.arg) and x.arg == "str" for x in ast.walk(node)):
            return node
        self.generic_visit(node)
        return node


class T40(ast.NodeTransformer):
    """{"a": x, "b": y} -> dict(a=x, b=y)   (identifier keys only, dict not shadowed)"""

    def visit_Dict(self, node):
        self.generic_visit(node)
        import keyword

        if node.keys and all(isinstance(k, ast.Constant) and isinstance(k.value, str) and k.value.isidentifier() and not keyword.iskeyword(k.value) for k in node.keys) and len({k.value for k in node.keys}) == len(node.keys):
            return ast.Call(func=ast.Name(id="dict", ctx=ast.Load()), args=[], keywords=[ast.keyword(arg=k.value, value=v) for k, v in zip(node.keys, node.values)])
        return node

    def visit_Module(self, node):
        if any((isinstance(x, ast.Name) and x.id == "dict" and not isinstance(x.ctx, ast.Load)) or (isinstance(x, ast.arg) and x.arg == "dict") for x in ast.walk(node)):
            return node
        self.generic_visit(node)
        return node


class T46(_BlockRewriter):
    """a = x ; b = y  ->  a, b = x, y   (adjacent plain-name assignments, y does not mention a, both effect-free)"""

    def block(self, blk, owner, fld):
        out = []
        i = 0
        while i < len(blk):
            a = blk[i]
            b = blk[i + 1] if i + 1 < len(blk) else None
            if (
                b is not None
                and all(isinstance(s_, ast.Assign) and len(s_.targets) == 1 and isinstance(s_.targets[0], ast.Name) for s_ in (a, b))
                and a.targets[0].id != b.targets[0].id
                and pure(a.value)
                and pure(b.value)
                and not any(isinstance(y, ast.Call) for y in list(ast.walk(a.value)) + list(ast.walk(b.value)))
                and not any(isinstance(y, ast.Name) and y.id == a.targets[0].id for y in ast.walk(b.value))
            ):
                out.append(ast.Assign(targets=[ast.Tuple(elts=[ast.Name(id=a.targets[0].id, ctx=ast.Store()), ast.Name(id=b.targets[0].id, ctx=ast.Store())], ctx=ast.Store())], value=ast.Tuple(elts=[a.value, b.value], ctx=ast.Load())))
                i += 2
                continue
            out.append(a)
            i += 1
        return out


class T51(ast.NodeTransformer):
    """comprehension variables are renamed (<v> -> <v>_c) when nothing nested inside binds the same name"""

    def _comp(self, node):
        self.generic_visit(node)
        names = {t.id for g in node.generators for t in ast.walk(g.target) if isinstance(t, ast.Name)}
        inner_binders = set()
        for x in ast.walk(node):
            if x is node:
                continue
            if isinstance(x, (ast.ListComp, ast.SetComp, ast.DictComp, ast.GeneratorExp)):
                inner_binders |= {t.id for g in x.generators for t in ast.walk(g.target) if isinstance(t, ast.Name)}
            if isinstance(x, ast.Lambda):
                inner_binders |= {a.arg for a in ast.walk(x.args) if isinstance(a, ast.arg)}
            if isinstance(x, ast.NamedExpr):
                inner_binders.add(x.target.id)
        names -= inner_binders
        # the first iterable is evaluated in the enclosing scope: a use of the name there is another variable
        first_iter_names = {y.id for y in ast.walk(node.generators[0].iter) if isinstance(y, ast.Name)}
        names -= first_iter_names
        if not names:
            return node
        for x in ast.walk(node):
            if isinstance(x, ast.Name) and x.id in names:
                x.id = x.id + "_c"
        return node

    visit_ListComp = visit_SetComp = visit_DictComp = visit_GeneratorExp = _comp


class T33:
    """closure-free nested functions (no free variables, not decorated, defined at the top level of their function) are
    lifted to module level under the same name, when the module does not bind that name"""

    def __init__(self, src, filename):
        self.table = symtable.symtable(src, filename, "exec")

    def run(self, tree):
        module_names = set()
        for x in ast.walk(tree):
            if isinstance(x, ast.Name) and not isinstance(x.ctx, ast.Load):
                module_names.add(x.id)
            elif isinstance(x, (ast.FunctionDef, ast.AsyncFunctionDef, ast.ClassDef)):
                module_names.add(x.name)
            elif isinstance(x, ast.alias):
                module_names.add((x.asname or x.name).split(".")[0])
            elif isinstance(x, ast.arg):
                module_names.add(x.arg)
        counts = {}
        for x in ast.walk(tree):
            if isinstance(x, (ast.FunctionDef, ast.AsyncFunctionDef, ast.ClassDef)):
                counts[x.name] = counts.get(x.name, 0) + 1
        star = any(isinstance(x, ast.ImportFrom) and any(a.name == "*" for a in x.names) for x in tree.body)
        if star:
            return tree
        new_body = []
        for top in tree.body:
            lifted = []
            holders = [top] if isinstance(top, ast.FunctionDef) else ([m for m in top.body if isinstance(m, ast.FunctionDef)] if isinstance(top, ast.ClassDef) else [])
            for F in holders:
                ftab = self._find(self.table if isinstance(top, ast.FunctionDef) else self._find(self.table, top), F)
                if ftab is None:
                    continue
                keep = []
                for st in F.body:
                    if isinstance(st, ast.FunctionDef) and not st.decorator_list and counts.get(st.name, 0) == 1 and not st.name.startswith("__"):
                        gtab = self._find(ftab, st)
                        stores = sum(1 for y in ast.walk(F) if isinstance(y, ast.Name) and y.id == st.name and not isinstance(y.ctx, ast.Load))
                        if gtab is not None and not self._has_free(gtab) and stores == 0 and not any(isinstance(y, (ast.Global, ast.Nonlocal)) for y in ast.walk(st)) and not any(isinstance(y, ast.arg) and y.arg == st.name for y in ast.walk(F)):
                            # names the nested function reads must not be locals of F (symtable says they are global/builtin)
                            lifted.append(st)
                            continue
                    keep.append(st)
                if keep:
                    F.body = keep
                else:
                    lifted = [x for x in lifted if x not in F.body] and lifted
                    F.body = keep or [ast.Pass()]
            new_body.extend(lifted)
            new_body.append(top)
        tree.body = new_body
        return tree

    def _find(self, table, node):
        if table is None:
            return None
        for ch in table.get_children():
            if ch.get_name() == node.name and ch.get_lineno() == node.lineno:
                return ch
        return None

    def _has_free(self, tab):
        if any(s.is_free() for s in tab.get_symbols()):
            return True
        return any(self._has_free(ch) for ch in tab.get_children())


class T42(ast.NodeTransformer):
    """`import a.b.c as c` -> `from a.b import c`"""

    def visit_Import(self, node):
        if len(node.names) == 1 and node.names[0].asname and "." in node.names[0].name and node.names[0].name.rsplit(".", 1)[1] == node.names[0].asname:
            mod, last = node.names[0].name.rsplit(".", 1)
            return ast.ImportFrom(module=mod, names=[ast.alias(name=last, asname=None)], level=0)
        return node


def transform(kind, src, filename):
    tree = ast.parse(src)
    if kind == "T1":
        tree = T1(src, filename).run(tree)
    elif kind == "T33":
        tree = T33(src, filename).run(tree)
    else:
        tree = {"T2": T2, "T3": T3, "T5": T5, "T6": T6, "T7": T7, "T8": T8, "T9": T9, "T11": T11, "T12": T12, "T13": T13, "T15": T15, "T17": T17, "T18": T18, "T23": T23, "T26": T26, "T35": T35, "T36": T36, "T39": T39, "T40": T40, "T46": T46, "T51": T51, "T42": T42}[kind]().visit(tree)
    ast.fix_missing_locations(tree)
    out = ast.unparse(tree)
    compile(out, filename, "exec")
    return out


