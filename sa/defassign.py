"""Definite assignment: local names that may be read before any assignment on some CFG path
(UnboundLocalError / NameError at run time).

May-analysis "the name is possibly unassigned here" over the statement CFG.  To stay free of false reports it is
deliberately optimistic in the two places where path-insensitive analyses are known to raise them:

 * a loop body is assumed to execute at least once when the loop is left through its normal exit
   (`for x in xs: y = ...` followed by a use of `y` is not reported);
 * correlated guards: a use is not reported when every assignment of the name is made under a condition that also
   guards the use (same normalised test and polarity, and no name of the test is re-assigned in the function other
   than before both), or when the use is guarded by a flag that is only set to a true value next to an assignment.

What remains is reported with the path facts, i.e. a read on a path on which no assignment can have happened."""

from __future__ import annotations

import ast

from .cfg import CFG, ReachingDefs
from .core import norm, walk_no_nested


def _own_exprs(n):
    """expressions evaluated by CFG node n itself"""
    if n.ast is None:
        return []
    if n.kind == "test" and getattr(n, "test", None) is not None:
        return [n.test]
    if n.kind == "loop":
        return [n.ast.iter]
    if n.kind == "stmt":
        st = n.ast
        if isinstance(st, (ast.If, ast.While, ast.Try, ast.For, ast.AsyncFor)):
            return []
        if isinstance(st, (ast.With, ast.AsyncWith)):
            return [i.context_expr for i in st.items]
        if isinstance(st, (ast.FunctionDef, ast.AsyncFunctionDef)):
            return list(st.decorator_list) + [d for d in st.args.defaults] + [d for d in st.args.kw_defaults if d is not None]
        if isinstance(st, ast.ClassDef):
            return list(st.decorator_list) + list(st.bases)
        if getattr(n, "label", "") == "assert-fail":
            return [st.msg] if st.msg is not None else []
        return [st]
    return []


def _loads(expr):
    """(Name node) loads in expr that belong to the enclosing function's scope: names bound by comprehensions /
    lambdas inside expr are left out, bodies of nested defs are not entered."""
    bound = set()
    for x in ast.walk(expr):
        if isinstance(x, (ast.ListComp, ast.SetComp, ast.DictComp, ast.GeneratorExp)):
            for g in x.generators:
                for y in ast.walk(g.target):
                    if isinstance(y, ast.Name):
                        bound.add(y.id)
        elif isinstance(x, ast.Lambda):
            a = x.args
            bound |= {q.arg for q in a.posonlyargs + a.args + a.kwonlyargs}
            if a.vararg:
                bound.add(a.vararg.arg)
            if a.kwarg:
                bound.add(a.kwarg.arg)
    out = []
    stack = [expr]
    while stack:
        x = stack.pop()
        if isinstance(x, (ast.FunctionDef, ast.AsyncFunctionDef, ast.ClassDef)) and x is not expr:
            continue
        if isinstance(x, ast.Name) and isinstance(x.ctx, ast.Load) and x.id not in bound:
            out.append(x)
        if isinstance(x, ast.AugAssign) and isinstance(x.target, ast.Name):
            out.append(x.target)  # `t += 1` reads t first
        stack.extend(ast.iter_child_nodes(x))
    return out


def _can_raise(n):
    st = n.ast
    if n.kind == "stmt" and isinstance(st, (ast.Assign, ast.AnnAssign)) and st.value is not None:
        tg = st.targets if isinstance(st, ast.Assign) else [st.target]
        if all(isinstance(t, ast.Name) for t in tg) and isinstance(st.value, (ast.Constant, ast.Name)):
            return False
    if n.kind == "stmt" and isinstance(st, (ast.Pass, ast.Break, ast.Continue)):
        return False
    return True


def _falsy(v):
    return isinstance(v, ast.Constant) and not v.value


class DefiniteAssignment:
    def __init__(self, fnode, params):
        self.fnode = fnode
        self.cfg = cfg = CFG(fnode)
        self.rd = rd = ReachingDefs(cfg)
        declared = set()
        for n in walk_no_nested(fnode):
            if isinstance(n, (ast.Global, ast.Nonlocal)):
                declared |= set(n.names)
        a = fnode.args
        ps = set(params) | {x.arg for x in a.posonlyargs + a.args + a.kwonlyargs}
        if a.vararg:
            ps.add(a.vararg.arg)
        if a.kwarg:
            ps.add(a.kwarg.arg)
        locs = set()
        for g in rd.gen.values():
            locs |= set(g)
        self.locals = locs - ps - declared
        self.may_undef = self._solve() if self.locals else {}

    def _solve(self):
        cfg, rd = self.cfg, self.rd
        dom = cfg.dominators()
        # optimistic loop exits: the normal exit edge of a loop is entered from the back-edge sources
        preds = {n.id: list(n.pred) for n in cfg.nodes}
        for n in cfg.nodes:
            head = None
            if n.kind == "edge" and n.label == "done":
                head = n.pred[0] if n.pred else None
            elif n.kind == "edge" and n.label in ("F",) and isinstance(n.ast, ast.While) and n.pred:
                t = n.pred[0]
                head = t.pred[0] if t.pred and t.pred[0].kind == "join" else None
            if head is None:
                continue
            back = [q for q in head.pred if head.id in dom.get(q.id, ())]
            if back:
                preds[n.id] = back
        # a `finally` block is entered by normal completion, by an exception or by a pending return; only after
        # normal completion does control continue behind the try statement.  The CFG has one copy of the block, so
        # states arriving over exception / return edges would leak into the fall-through: they are left out (reads
        # inside the finally block are then only checked for the normal-completion states).
        for n in cfg.nodes:
            if n.kind == "finally" and hasattr(n, "normal_preds"):
                preds[n.id] = [q for q in preds[n.id] if q.id in n.normal_preds]
        IN = {n.id: set() for n in cfg.nodes}
        OUT = {n.id: set() for n in cfg.nodes}
        succs = {n.id: [] for n in cfg.nodes}
        for n in cfg.nodes:
            for q in preds[n.id]:
                succs[q.id].append(n)
        work = list(cfg.nodes)
        while work:
            n = work.pop()
            changed_in = False
            if n is cfg.entry:
                o = set(self.locals)
            else:
                i = set()
                for q in preds[n.id]:
                    i |= OUT[q.id]
                    if n.kind == "handler" and q.kind in ("stmt", "test", "loop") and _can_raise(q):
                        i |= IN[q.id]  # the exception may be raised before the statement's own assignment
                changed_in = i != IN[n.id]
                IN[n.id] = i
                o = i - set(rd.gen.get(n.id, ()))
            if o != OUT[n.id] or changed_in:
                OUT[n.id] = o
                work.extend(succs[n.id])
        return IN

    # -- idioms ---------------------------------------------------------------------------------------------
    def _assigned_names(self):
        out = {}
        byid = {x.id: x for x in self.cfg.nodes}
        for nid, g in self.rd.gen.items():
            for nm in g:
                out.setdefault(nm, []).append(byid[nid])
        return out

    def _correlated(self, name, use_node, defs):
        """every def of `name` is made under guard facts that also guard the use"""
        ufacts = {(norm(t), pol): t for t, pol in self.cfg.guards(use_node) if t is not None}
        if not ufacts:
            return None
        assigned = self._assigned_names()
        for d in defs:
            dfacts = [(norm(t), pol, t) for t, pol in self.cfg.guards(d) if t is not None]
            shared = [(txt, pol, t) for txt, pol, t in dfacts if (txt, pol) in ufacts]
            ok = False
            dom = self.cfg.dominators()
            for txt, pol, t in shared:
                # the guard separates "assigned" from "not assigned" only if its names keep their value between
                # the assignment and the read: they are never assigned, or only at nodes that dominate the assignment
                names = {x.id for x in ast.walk(t) if isinstance(x, ast.Name)}
                stable = all(all(w.id in dom.get(d.id, ()) and w is not d for w in assigned.get(nm, [])) for nm in names)
                if stable:
                    ok = True
            if not ok:
                return None
        return "every assignment is made under a condition that also guards the read"

    def _flag(self, name, use_node, defs):
        """the read is guarded by a flag that is only set true next to an assignment of the name"""
        assigned = self._assigned_names()
        dom = self.cfg.dominators()
        for t, pol in self.cfg.guards(use_node):
            if not (isinstance(t, ast.Name) and pol and t.id in assigned):
                continue
            sets = [d for d in assigned[t.id] if isinstance(d.ast, ast.Assign) and not _falsy(d.ast.value)]
            if sets and all(any(x.id in dom.get(s.id, ()) or s.id in dom.get(x.id, ()) for x in defs) and any(_same_block(s.ast, x.ast) for x in defs) for s in sets):
                return f"guarded by the flag `{t.id}`, which is only set next to an assignment"
        return None

    def reports(self):
        """[(name, Name node, cfg node, discharged reason or None)]"""
        out = []
        if not self.locals:
            return out
        assigned = self._assigned_names()
        for n in self.cfg.nodes:
            und = self.may_undef.get(n.id)
            if not und:
                continue
            for e in _own_exprs(n):
                for x in _loads(e):
                    if x.id in und:
                        # `x = f(x)`-style: the node's own store happens after the load, so IN is what counts
                        defs = assigned.get(x.id, [])
                        why = self._correlated(x.id, n, defs) or self._flag(x.id, n, defs)
                        out.append((x.id, x, n, why))
        return out


def _same_block(a, b):
    pa, pb = getattr(a, "_parent", None), getattr(b, "_parent", None)
    return pa is not None and pa is pb
