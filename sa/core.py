"""Fact extraction for the einx static checks: modules, symbols, import aliases, class
hierarchy, attribute tables, literal evaluation, name resolution.

stdlib only (ast / symtable / builtins).  Nothing from /repo is imported or executed.
"""

from __future__ import annotations

import ast
import builtins
import os
import symtable

from sa.canon import canonicalise, literal_tables, module_defs
import sys
from dataclasses import dataclass, field


class AnalysisError(Exception):
    """The analysis cannot give a verdict (vanished anchor, unrecognised idiom, floor not met).
    Reported as ANALYSIS-ERROR, exit code 2 - never as a pass and never as a VIOLATION."""


# --------------------------------------------------------------------------------------
# AST helpers
# --------------------------------------------------------------------------------------


def set_parents(tree):
    for node in ast.walk(tree):
        for child in ast.iter_child_nodes(node):
            child._parent = node
    tree._parent = None


def parents(node):
    p = getattr(node, "_parent", None)
    while p is not None:
        yield p
        p = getattr(p, "_parent", None)


def enclosing(node, types):
    for p in parents(node):
        if isinstance(p, types):
            return p
    return None


def enclosing_function(node):
    return enclosing(node, (ast.FunctionDef, ast.AsyncFunctionDef, ast.Lambda))


def attr_chain(node):
    """`a.b.c` -> ['a','b','c'];  `f(x).b` -> None.  Subscripts/calls break the chain."""
    parts = []
    while isinstance(node, ast.Attribute):
        parts.append(node.attr)
        node = node.value
    if isinstance(node, ast.Name):
        parts.append(node.id)
        return list(reversed(parts))
    return None


def chain_root(node):
    """Innermost Name of an attribute/subscript/call chain (`a.b[0].c(x)` -> Name a)."""
    while True:
        if isinstance(node, ast.Attribute):
            node = node.value
        elif isinstance(node, ast.Subscript):
            node = node.value
        elif isinstance(node, ast.Call):
            node = node.func
        elif isinstance(node, ast.Starred):
            node = node.value
        else:
            break
    return node if isinstance(node, ast.Name) else None


def src(node):
    try:
        return ast.unparse(node)
    except Exception:  # pragma: no cover
        return "<?>"


def norm(node):
    """Normalised source text of a node (used for construct keys; never for matching rules)."""
    s = src(node)
    return " ".join(s.split())


def walk_no_nested(node, include_self=False):
    """Walk the body of a function/class without descending into nested function/class/lambda
    scopes (comprehensions are descended into)."""
    stack = list(ast.iter_child_nodes(node)) if not include_self else [node]
    while stack:
        n = stack.pop()
        yield n
        if isinstance(n, (ast.FunctionDef, ast.AsyncFunctionDef, ast.ClassDef, ast.Lambda)):
            continue
        stack.extend(ast.iter_child_nodes(n))


def calls_in(node, nested=True):
    it = ast.walk(node) if nested else walk_no_nested(node)
    return [n for n in it if isinstance(n, ast.Call)]


def const_str(node):
    if isinstance(node, ast.Constant) and isinstance(node.value, str):
        return node.value
    return None


def kwarg(call, name):
    for k in call.keywords:
        if k.arg == name:
            return k.value
    return None


# --------------------------------------------------------------------------------------
# Project model
# --------------------------------------------------------------------------------------


@dataclass
class Module:
    name: str
    path: str  # absolute
    rel: str  # relative to repo root
    source: str
    tree: ast.Module
    is_package: bool
    bindings: dict = field(default_factory=dict)  # name -> Binding (module level)
    star_imports: list = field(default_factory=list)  # module names
    symtab: object = None

    def __repr__(self):
        return f"<Module {self.name}>"

    @property
    def package(self):
        return self.name if self.is_package else self.name.rpartition(".")[0]


@dataclass
class Binding:
    kind: str  # 'module' | 'import' | 'def' | 'class' | 'var'
    module: str = None  # for 'module': target module; for 'import': source module
    name: str = None  # for 'import': imported symbol name
    node: object = None  # defining ast node


@dataclass
class Func:
    qualname: str  # module::A.b.c
    module: Module
    node: object
    cls: object = None  # ClassInfo if method
    parent: object = None  # enclosing Func

    def __repr__(self):
        return f"<Func {self.qualname}>"

    def __hash__(self):
        return id(self)

    def __eq__(self, other):
        return self is other

    @property
    def name(self):
        return self.node.name if not isinstance(self.node, ast.Lambda) else "<lambda>"

    @property
    def loc(self):
        return f"{self.module.rel}:{self.node.lineno}"

    @property
    def params(self):
        a = self.node.args
        return [x.arg for x in a.posonlyargs + a.args] + ([a.vararg.arg] if a.vararg else []) + [x.arg for x in a.kwonlyargs] + ([a.kwarg.arg] if a.kwarg else [])


@dataclass
class ClassInfo:
    qualname: str
    module: Module
    node: ast.ClassDef
    bases: list = field(default_factory=list)  # resolved ClassInfo or ('external', dotted)
    methods: dict = field(default_factory=dict)  # name -> Func

    def __repr__(self):
        return f"<Class {self.qualname}>"

    def __hash__(self):
        return id(self)

    def __eq__(self, other):
        return self is other

    @property
    def name(self):
        return self.node.name

    @property
    def loc(self):
        return f"{self.module.rel}:{self.node.lineno}"


BUILTIN_NAMES = set(dir(builtins)) | {"__file__", "__name__", "__doc__", "__package__", "__spec__", "__builtins__", "__path__", "__loader__", "__class__"}


_CACHES = []


def register_cache(d):
    """module-level memo tables of the rules are keyed by names / node ids of ONE project: they are emptied whenever a
    new Project is loaded (tools analyse many scratch copies in one process)"""
    _CACHES.append(d)
    return d


class Project:
    def __init__(self, repo="/repo", package="einx"):
        for d in _CACHES:
            d.clear()
        self.repo = os.path.abspath(repo)
        self.package = package
        self.modules = {}  # name -> Module
        self.funcs = {}  # qualname -> Func
        self.classes = {}  # qualname -> ClassInfo
        self.func_of_node = {}  # id(ast node) -> Func
        self.class_of_node = {}
        self.parse_errors = []
        self.canon_counts = {}  # sa/canon.py rewrite -> applications
        self.moved_anchors = []  # (kind, name, module it was expected in, module it was found in)
        self._load()
        self._index()
        self._bind()
        self._hierarchy()

    # ---------------------------------------------------------------- loading
    def _load(self):
        root = os.path.join(self.repo, self.package)
        if not os.path.isdir(root):
            raise AnalysisError(f"package directory {root} not found")
        for dirpath, dirnames, filenames in os.walk(root):
            dirnames[:] = sorted(d for d in dirnames if d != "__pycache__")
            for fn in sorted(filenames):
                if not fn.endswith(".py"):
                    continue
                path = os.path.join(dirpath, fn)
                rel = os.path.relpath(path, self.repo)
                parts = rel[:-3].split(os.sep)
                is_pkg = parts[-1] == "__init__"
                if is_pkg:
                    parts = parts[:-1]
                name = ".".join(parts)
                with open(path, encoding="utf-8") as f:
                    source = f.read()
                try:
                    tree = ast.parse(source, filename=path)
                except SyntaxError as e:
                    raise AnalysisError(f"{rel} does not parse: {e}") from e
                m = Module(name=name, path=path, rel=rel, source=source, tree=tree, is_package=is_pkg)
                self.modules[name] = m
        # literal tables of all modules first (a loop may run over `pkg.mod.TABLE`), then the canonical form of each
        global_tables = {}
        for name, m in self.modules.items():
            t = literal_tables(m.tree)
            if t:
                global_tables[name] = t
        global_defs = {name: module_defs(m.tree) for name, m in self.modules.items()}
        for m in self.modules.values():
            for k, v in canonicalise(m.tree, global_tables, global_defs, m.name, m.is_package).items():
                self.canon_counts[k] = self.canon_counts.get(k, 0) + v
            set_parents(m.tree)
        # namespace packages (directories without __init__.py)
        self.namespace_packages = set()
        for name in list(self.modules):
            parts = name.split(".")
            for i in range(1, len(parts)):
                pk = ".".join(parts[:i])
                if pk not in self.modules:
                    self.namespace_packages.add(pk)

    def is_package_name(self, name):
        return name in self.namespace_packages or (name in self.modules and self.modules[name].is_package)

    # ---------------------------------------------------------------- symbols
    def _index(self):
        for m in self.modules.values():
            self._index_scope(m, m.tree, prefix="", cls=None, parent=None)

    def _index_scope(self, m, node, prefix, cls, parent):
        counts = {}
        for child in self._direct_defs(node):
            if isinstance(child, (ast.FunctionDef, ast.AsyncFunctionDef)):
                nm = child.name
                counts[nm] = counts.get(nm, 0) + 1
                q = f"{prefix}{nm}" + (f"#{counts[nm]}" if counts[nm] > 1 else "")
                f = Func(qualname=f"{m.name}::{q}", module=m, node=child, cls=cls if isinstance(node, ast.ClassDef) else None, parent=parent)
                self.funcs[f.qualname] = f
                self.func_of_node[id(child)] = f
                if isinstance(node, ast.ClassDef) and cls is not None:
                    cls.methods[nm] = f  # last definition wins, like Python
                self._index_scope(m, child, prefix=q + ".", cls=None, parent=f)
            elif isinstance(child, ast.ClassDef):
                q = f"{prefix}{child.name}"
                c = ClassInfo(qualname=f"{m.name}::{q}", module=m, node=child)
                self.classes[c.qualname] = c
                self.class_of_node[id(child)] = c
                self._index_scope(m, child, prefix=q + ".", cls=c, parent=parent)

    @staticmethod
    def _direct_defs(node):
        """Function/class definitions whose enclosing scope is `node` (descends through
        if/for/try/with blocks but not into other defs)."""
        stack = list(reversed(list(ast.iter_child_nodes(node))))
        while stack:
            n = stack.pop()
            if isinstance(n, (ast.FunctionDef, ast.AsyncFunctionDef, ast.ClassDef)):
                yield n
                continue
            if isinstance(n, ast.Lambda):
                continue
            stack.extend(reversed(list(ast.iter_child_nodes(n))))

    # ---------------------------------------------------------------- imports / bindings
    def _abs_module(self, m, level, modname):
        if level == 0:
            return modname
        base = m.package.split(".")
        if level > 1:
            base = base[: len(base) - (level - 1)]
        return ".".join(base + ([modname] if modname else []))

    def _bind(self):
        for m in self.modules.values():
            for node in walk_no_nested(m.tree):
                self._bind_stmt(m, node, m.bindings, m.star_imports)

    def _bind_stmt(self, m, node, bindings, star_imports):
        if isinstance(node, ast.Import):
            for a in node.names:
                if a.asname:
                    bindings[a.asname] = Binding("module", module=a.name, node=node)
                else:
                    top = a.name.split(".")[0]
                    bindings[top] = Binding("module", module=top, node=node)
        elif isinstance(node, ast.ImportFrom):
            mod = self._abs_module(m, node.level, node.module)
            for a in node.names:
                if a.name == "*":
                    star_imports.append(mod)
                    continue
                full = f"{mod}.{a.name}"
                if full in self.modules or full in self.namespace_packages:
                    bindings[a.asname or a.name] = Binding("module", module=full, node=node)
                else:
                    bindings[a.asname or a.name] = Binding("import", module=mod, name=a.name, node=node)
        elif isinstance(node, (ast.FunctionDef, ast.AsyncFunctionDef)):
            bindings[node.name] = Binding("def", node=node)
        elif isinstance(node, ast.ClassDef):
            bindings[node.name] = Binding("class", node=node)
        elif isinstance(node, (ast.Assign, ast.AnnAssign, ast.AugAssign)):
            targets = node.targets if isinstance(node, ast.Assign) else [node.target]
            for t in targets:
                for n in ast.walk(t):
                    if isinstance(n, ast.Name) and isinstance(n.ctx, ast.Store):
                        bindings[n.id] = Binding("var", node=node)
        elif isinstance(node, (ast.For, ast.AsyncFor)):
            for n in ast.walk(node.target):
                if isinstance(n, ast.Name):
                    bindings.setdefault(n.id, Binding("var", node=node))
        elif isinstance(node, (ast.With, ast.AsyncWith)):
            for it in node.items:
                if it.optional_vars is not None:
                    for n in ast.walk(it.optional_vars):
                        if isinstance(n, ast.Name):
                            bindings.setdefault(n.id, Binding("var", node=node))
        elif isinstance(node, ast.ExceptHandler) and node.name:
            bindings.setdefault(node.name, Binding("var", node=node))
        elif isinstance(node, ast.NamedExpr):
            bindings.setdefault(node.target.id, Binding("var", node=node))

    def module_namespace(self, modname, _seen=None):
        """All names visible at module level (own bindings, star imports, submodules)."""
        _seen = _seen if _seen is not None else set()
        if modname in _seen:
            return {}
        _seen.add(modname)
        ns = {}
        m = self.modules.get(modname)
        if m is not None:
            for s in m.star_imports:
                for k, v in self.module_namespace(s, _seen).items():
                    if not k.startswith("_"):
                        ns[k] = v
            for k, b in m.bindings.items():
                ns[k] = (modname, b)
        return ns

    # ---------------------------------------------------------------- resolution
    def resolve_module_attr(self, modname, attr, _depth=0):
        """Resolve `modname.attr` to ('module', name) | ('func', Func) | ('class', ClassInfo)
        | ('var', module, name, node) | ('external', dotted) | None."""
        if _depth > 12:
            return None
        if modname not in self.modules and modname not in self.namespace_packages:
            return ("external", f"{modname}.{attr}")
        ns = self.module_namespace(modname) if modname in self.modules else {}
        if attr in ns:
            owner, b = ns[attr]
            return self._resolve_binding(owner, attr, b, _depth)
        sub = f"{modname}.{attr}"
        if sub in self.modules or sub in self.namespace_packages:
            return ("module", sub)
        return None

    def _resolve_binding(self, owner, name, b, _depth=0):
        if b.kind == "module":
            return ("module", b.module) if (b.module in self.modules or b.module in self.namespace_packages) else ("external", b.module)
        if b.kind == "import":
            if b.module in self.modules or b.module in self.namespace_packages:
                return self.resolve_module_attr(b.module, b.name, _depth + 1)
            return ("external", f"{b.module}.{b.name}")
        if b.kind == "def":
            f = self.func_of_node.get(id(b.node))
            return ("func", f) if f else None
        if b.kind == "class":
            c = self.class_of_node.get(id(b.node))
            return ("class", c) if c else None
        return ("var", owner, name, b.node)

    def resolve_chain(self, module, chain, scope_node=None):
        """Resolve a dotted name used inside `module` (optionally inside function `scope_node`,
        to respect local shadowing): returns the same tuples as resolve_module_attr, or
        ('local', name) if the root is a local/parameter, ('builtin', name), or None.
        For chains that continue past a class / var, returns (..., rest) as a 2-tuple
        ('attr', base_resolution, [remaining attrs])."""
        root = chain[0]
        if scope_node is not None and self.is_local(scope_node, root):
            # a local that is bound exactly once, to a dotted name, is an alias (`python = tracer.signature.python`)
            target = self._local_alias(scope_node, root)
            if target is not None:
                owner, tchain = target
                if tchain[0] != root:
                    return self.resolve_chain(module, tchain + chain[1:], getattr(owner, "_parent", None))
            return ("local", root)
        ns = self.module_namespace(module.name)
        if root in ns:
            owner, b = ns[root]
            cur = self._resolve_binding(owner, root, b)
        elif root in BUILTIN_NAMES:
            cur = ("builtin", root)
        else:
            return None
        for i, attr in enumerate(chain[1:], start=1):
            if cur is None:
                return None
            if cur[0] == "module":
                cur = self.resolve_module_attr(cur[1], attr)
            elif cur[0] == "external":
                cur = ("external", f"{cur[1]}.{attr}")
            elif cur[0] == "class":
                meth = self.lookup_method(cur[1], attr)
                if meth is not None and i == len(chain) - 1:
                    return ("func", meth)
                return ("attr", cur, chain[i:])
            else:
                return ("attr", cur, chain[i:])
        return cur

    def resolve_expr(self, module, node, scope_node=None):
        module = getattr(node, "_home_module", None) or module  # statements inlined from another module keep its globals
        ch = attr_chain(node)
        if ch is None:
            return None
        return self.resolve_chain(module, ch, scope_node)

    # locals ------------------------------------------------------------------------
    def local_names(self, fnode):
        """Names bound in function scope `fnode` itself (params, assignments, imports, defs ...)."""
        cache = getattr(fnode, "_locals", None)
        if cache is not None:
            return cache
        names = set()
        if isinstance(fnode, ast.Lambda) or isinstance(fnode, (ast.FunctionDef, ast.AsyncFunctionDef)):
            a = fnode.args
            for x in a.posonlyargs + a.args + a.kwonlyargs:
                names.add(x.arg)
            if a.vararg:
                names.add(a.vararg.arg)
            if a.kwarg:
                names.add(a.kwarg.arg)
        declared_global = set()
        body = [fnode.body] if isinstance(fnode, ast.Lambda) else fnode.body
        for st in body:
            for n in walk_no_nested(st, include_self=True):
                if isinstance(n, ast.Global):
                    declared_global.update(n.names)
                elif isinstance(n, ast.Nonlocal):
                    declared_global.update(n.names)
                elif isinstance(n, ast.Name) and isinstance(n.ctx, (ast.Store, ast.Del)):
                    # comprehension targets are their own scope; skip them
                    if not _in_comprehension_target(n, fnode):
                        names.add(n.id)
                elif isinstance(n, (ast.FunctionDef, ast.AsyncFunctionDef, ast.ClassDef)):
                    names.add(n.name)
                elif isinstance(n, ast.Import):
                    for al in n.names:
                        names.add(al.asname or al.name.split(".")[0])
                elif isinstance(n, ast.ImportFrom):
                    for al in n.names:
                        names.add(al.asname or al.name)
                elif isinstance(n, ast.ExceptHandler) and n.name:
                    names.add(n.name)
        names -= declared_global
        fnode._locals = names
        return names

    def _local_alias(self, scope_node, name):
        """(function node, dotted chain) if the innermost function scope binding `name` binds it exactly once, by a plain
        assignment of a dotted name, and `name` is not a parameter"""
        n = scope_node
        while n is not None:
            if isinstance(n, (ast.FunctionDef, ast.AsyncFunctionDef)) and name in self.local_names(n):
                a = n.args
                if name in {x.arg for x in a.posonlyargs + a.args + a.kwonlyargs} or (a.vararg and a.vararg.arg == name) or (a.kwarg and a.kwarg.arg == name):
                    return None
                stores = [x for x in walk_no_nested(n) if isinstance(x, ast.Name) and x.id == name and not isinstance(x.ctx, ast.Load)]
                if len(stores) != 1:
                    return None
                st = getattr(stores[0], "_parent", None)
                if isinstance(st, ast.Assign) and len(st.targets) == 1 and st.targets[0] is stores[0]:
                    ch = attr_chain(st.value)
                    if ch:
                        return n, ch
                return None
            if isinstance(n, ast.Lambda) and name in self.local_names(n):
                return None
            n = getattr(n, "_parent", None)
        return None

    def is_local(self, scope_node, name):
        """Is `name` bound in scope_node or any enclosing function scope?"""
        n = scope_node
        while n is not None:
            if isinstance(n, (ast.FunctionDef, ast.AsyncFunctionDef, ast.Lambda)):
                if name in self.local_names(n):
                    return True
            n = getattr(n, "_parent", None)
        return False

    # classes -----------------------------------------------------------------------
    def _hierarchy(self):
        for c in self.classes.values():
            for b in c.node.bases:
                ch = attr_chain(b)
                r = self.resolve_chain(c.module, ch) if ch else None
                if r and r[0] == "class":
                    c.bases.append(r[1])
                else:
                    c.bases.append(("external", src(b)))

    def mro(self, c):
        out, seen = [], set()

        def visit(x):
            if isinstance(x, ClassInfo) and x.qualname not in seen:
                seen.add(x.qualname)
                out.append(x)
                for b in x.bases:
                    visit(b)

        visit(c)
        return out

    def lookup_method(self, c, name):
        for k in self.mro(c):
            if name in k.methods:
                return k.methods[name]
        return None

    def subclasses(self, c, strict=True):
        out = []
        for k in self.classes.values():
            if k is c and strict:
                continue
            if c in self.mro(k):
                out.append(k)
        return out

    def external_bases(self, c):
        out = []
        for k in self.mro(c):
            for b in k.bases:
                if not isinstance(b, ClassInfo):
                    out.append(b[1])
        return out

    def self_attr_table(self, c, method="__init__"):
        """`self.X = value` assignments inside `method` of class c: {X: [value nodes]}."""
        f = c.methods.get(method)
        table = {}
        if f is None:
            return table
        selfname = f.node.args.args[0].arg if f.node.args.args else "self"
        for n in walk_no_nested(f.node):
            if isinstance(n, ast.Assign):
                for t in n.targets:
                    if isinstance(t, ast.Attribute) and isinstance(t.value, ast.Name) and t.value.id == selfname:
                        table.setdefault(t.attr, []).append(n.value)
                    elif isinstance(t, ast.Tuple):
                        for e in t.elts:
                            if isinstance(e, ast.Attribute) and isinstance(e.value, ast.Name) and e.value.id == selfname:
                                table.setdefault(e.attr, []).append(n.value)
        return table

    # anchors -----------------------------------------------------------------------
    def func(self, suffix, module=None):
        """Find exactly one function whose qualname ends with `::suffix` or `.suffix`
        (optionally restricted to a module name suffix).  Fails closed."""
        hits = [
            f
            for q, f in self.funcs.items()
            if (q.split("::")[1] == suffix or q.split("::")[1].endswith("." + suffix)) and (module is None or f.module.name.endswith(module))
        ]
        exact = [f for f in hits if f.qualname.split("::")[1] == suffix]
        if len(exact) == 1:
            return exact[0]
        if len(hits) == 1:
            return hits[0]
        if not hits and module is not None:
            # the function moved to another module of the package: the old module re-exports it (`from ._x import f`),
            # or there is exactly one function of that name anywhere
            moved = self._moved_anchor("func", suffix, module)
            if moved is not None:
                return moved
        if not hits:
            raise AnalysisError(f"anchor vanished: function {suffix!r}" + (f" in module *{module}" if module else ""))
        raise AnalysisError(f"anchor ambiguous: function {suffix!r} matches {[f.qualname for f in hits]}")

    def _moved_anchor(self, kind, name, module):
        top = name.split(".")[0]
        for modname, m in self.modules.items():
            if modname.endswith(module):
                r = self.resolve_module_attr(modname, top)
                if r and r[0] == kind and "." not in name:
                    self.moved_anchors.append((kind, name, module, r[1].module.name))
                    return r[1]
                if r and r[0] in ("func", "class") and "." in name:
                    q = f"{r[1].module.name}::{name}"
                    hit = self.funcs.get(q) if kind == "func" else self.classes.get(q)
                    if hit is not None:
                        self.moved_anchors.append((kind, name, module, r[1].module.name))
                        return hit
        pool = self.funcs if kind == "func" else self.classes
        cands = [v for q, v in pool.items() if q.split("::")[1] == name]
        if len(cands) == 1:
            self.moved_anchors.append((kind, name, module, cands[0].module.name))
            return cands[0]
        return None

    def funcs_named(self, suffix, module=None):
        return [
            f
            for q, f in self.funcs.items()
            if (q.split("::")[1] == suffix or q.split("::")[1].endswith("." + suffix)) and (module is None or f.module.name.endswith(module))
        ]

    def cls(self, name, module=None):
        hits = [c for q, c in self.classes.items() if q.split("::")[1] == name and (module is None or c.module.name.endswith(module))]
        if len(hits) == 1:
            return hits[0]
        if not hits and module is not None:
            moved = self._moved_anchor("class", name, module)
            if moved is not None:
                return moved
        if not hits:
            raise AnalysisError(f"anchor vanished: class {name!r}" + (f" in module *{module}" if module else ""))
        raise AnalysisError(f"anchor ambiguous: class {name!r} matches {[c.qualname for c in hits]}")

    def module(self, suffix):
        hits = [m for n, m in self.modules.items() if n == suffix or n.endswith("." + suffix)]
        exact = [m for m in hits if m.name == suffix]
        if len(exact) == 1:
            return exact[0]
        if len(hits) == 1:
            return hits[0]
        if not hits:
            raise AnalysisError(f"anchor vanished: module {suffix!r}")
        raise AnalysisError(f"anchor ambiguous: module {suffix!r} matches {[m.name for m in hits]}")

    def module_var(self, module, name):
        """Value node(s) assigned to a module-level name."""
        vals = []
        for n in walk_no_nested(module.tree):
            if isinstance(n, ast.Assign):
                for t in n.targets:
                    if isinstance(t, ast.Name) and t.id == name:
                        vals.append(n.value)
            elif isinstance(n, ast.AnnAssign) and isinstance(n.target, ast.Name) and n.target.id == name and n.value is not None:
                vals.append(n.value)
        if not vals:
            raise AnalysisError(f"anchor vanished: module variable {module.name}.{name}")
        return vals

    def loc(self, module, node):
        return f"{module.rel}:{getattr(node, 'lineno', 0)}"

    def func_containing(self, node):
        f = enclosing(node, (ast.FunctionDef, ast.AsyncFunctionDef))
        return self.func_of_node.get(id(f)) if f is not None else None

    def module_of(self, node):
        for p in parents(node):
            if isinstance(p, ast.Module):
                for m in self.modules.values():
                    if m.tree is p:
                        return m
        return None


def _in_comprehension_target(name_node, stop):
    """Is this Store Name the loop target of a comprehension (own scope in Py3)?"""
    child = name_node
    for p in parents(name_node):
        if p is stop:
            return False
        if isinstance(p, ast.comprehension):
            # target side?
            return _contains(p.target, name_node)
        if isinstance(p, ast.NamedExpr):
            return False
        child = p
    return False


def _contains(tree, node):
    return any(n is node for n in ast.walk(tree))


# --------------------------------------------------------------------------------------
# Literal evaluation of module-level tables
# --------------------------------------------------------------------------------------


class NotLiteral(Exception):
    pass


class LiteralEvaluator:
    """Symbolic evaluation of module-level literal tables: constants, list/tuple/set/dict
    displays, `+` concatenation, `list(...)`, `set(...)`, `.keys()`, `.values()`, names of
    other module-level literals.  Sets evaluate to frozensets (order is not meaningful)."""

    def __init__(self, project, module):
        self.p = project
        self.m = module
        self._stack = set()

    def name(self, name):
        if name in self._stack:
            raise NotLiteral(f"cyclic {name}")
        self._stack.add(name)
        try:
            try:
                vals = self.p.module_var(self.m, name)
            except AnalysisError as e:
                # a literal table imported from another module of the package
                r = self.p.resolve_chain(self.m, [name])
                if r and r[0] == "var" and r[1] in self.p.modules and (r[1] != self.m.name or r[2] != name):
                    return LiteralEvaluator(self.p, self.p.modules[r[1]]).name(r[2])
                raise NotLiteral(f"{name} is not a module-level variable") from e
            if len(vals) != 1:
                raise NotLiteral(f"{name} assigned {len(vals)} times")
            return self.eval(vals[0])
        finally:
            self._stack.discard(name)

    def eval(self, n):
        if isinstance(n, ast.Constant):
            return n.value
        if isinstance(n, (ast.List, ast.Tuple)):
            out = []
            for e in n.elts:
                if isinstance(e, ast.Starred):
                    out.extend(self.eval(e.value))
                else:
                    out.append(self.eval(e))
            return out if isinstance(n, ast.List) else tuple(out)
        if isinstance(n, ast.Set):
            return frozenset(self.eval(e) for e in n.elts)
        if isinstance(n, ast.Dict):
            d = {}
            for k, v in zip(n.keys, n.values):
                if k is None:
                    d.update(self.eval(v))
                else:
                    d[self.eval(k)] = self._value(v)
            return d
        if isinstance(n, ast.DictComp) and len(n.generators) == 1 and not n.generators[0].ifs and isinstance(n.generators[0].target, ast.Name) and isinstance(n.key, ast.Name) and n.key.id == n.generators[0].target.id:
            # {name: <anything> for name in TABLE}: the keys are the members of TABLE
            return {k: Opaque(n.value) for k in self.eval(n.generators[0].iter)}
        if isinstance(n, (ast.ListComp, ast.SetComp, ast.GeneratorExp)) and len(n.generators) == 1 and not n.generators[0].ifs and isinstance(n.generators[0].target, ast.Name) and isinstance(n.elt, ast.Name) and n.elt.id == n.generators[0].target.id:
            v = self.eval(n.generators[0].iter)
            return frozenset(v) if isinstance(n, ast.SetComp) else list(v)
        if isinstance(n, ast.Name):
            return self.name(n.id)
        if isinstance(n, ast.Attribute):
            # pkg.module.TABLE
            r = self.p.resolve_expr(self.m, n)
            if r and r[0] == "var" and r[1] in self.p.modules:
                return LiteralEvaluator(self.p, self.p.modules[r[1]]).name(r[2])
            raise NotLiteral(src(n))

        if isinstance(n, ast.BinOp) and isinstance(n.op, ast.Add):
            a, b = self.eval(n.left), self.eval(n.right)
            if isinstance(a, list) and isinstance(b, list):
                if getattr(a, "unordered", False) or getattr(b, "unordered", False):
                    r = _SetOrdered(())
                    r.extend(list(a) + list(b))
                    return r
                return a + b
            if isinstance(a, (tuple, str)) and type(a) is type(b):
                return a + b
            raise NotLiteral(src(n))
        if isinstance(n, ast.BinOp) and isinstance(n.op, ast.BitOr):
            a, b = self.eval(n.left), self.eval(n.right)
            if isinstance(a, frozenset) and isinstance(b, frozenset):
                return a | b
            if isinstance(a, dict) and isinstance(b, dict):
                return {**a, **b}
            raise NotLiteral(src(n))
        if isinstance(n, ast.Call):
            fn = n.func
            if isinstance(fn, ast.Name) and fn.id in ("list", "tuple", "set", "frozenset", "sorted") and len(n.args) == 1 and not n.keywords:
                v = self.eval(n.args[0])
                if isinstance(v, dict):
                    v = list(v.keys())
                if fn.id == "list":
                    return list(v) if not isinstance(v, frozenset) else _SetOrdered(v)
                if fn.id == "tuple":
                    return tuple(v) if not isinstance(v, frozenset) else _SetOrdered(v)
                if fn.id == "sorted":
                    return sorted(v)
                return frozenset(v)
            if isinstance(fn, ast.Attribute) and fn.attr == "fromkeys" and isinstance(fn.value, ast.Name) and fn.value.id == "dict" and n.args:
                return {k: Opaque(n.args[1] if len(n.args) > 1 else None) for k in self.eval(n.args[0])}
            if isinstance(fn, ast.Name) and fn.id == "dict":
                d = {}
                for a in n.args:
                    v = self.eval(a)
                    if not isinstance(v, dict):
                        raise NotLiteral(src(n))
                    d.update(v)
                for k in n.keywords:
                    if k.arg is None:
                        v = self.eval(k.value)
                        if not isinstance(v, dict):
                            raise NotLiteral(src(n))
                        d.update(v)
                    else:
                        d[k.arg] = self._value(k.value)
                return d
            if isinstance(fn, ast.Attribute) and fn.attr in ("keys", "values") and not n.args:
                v = self.eval(fn.value)
                if isinstance(v, dict):
                    return list(v.keys()) if fn.attr == "keys" else list(v.values())
            raise NotLiteral(src(n))
        raise NotLiteral(src(n))


class Opaque:
    """a dict value that is not a literal (a function, a partial ...): only its key matters to the evaluation"""

    def __init__(self, node):
        self.node = node

    def __repr__(self):
        return "<opaque>"


def _literal_value(self, v):
    try:
        return self.eval(v)
    except NotLiteral:
        return Opaque(v)


LiteralEvaluator._value = _literal_value


class _SetOrdered(list):
    """list(<set>) (or a concatenation containing one): elements known, order (partly) unknown."""

    def __init__(self, s=()):
        super().__init__(sorted(s, key=repr))
        self.unordered = True


# --------------------------------------------------------------------------------------
# Undefined-name analysis (symtable based)
# --------------------------------------------------------------------------------------


def undefined_names(project, module):
    """Name loads that resolve to no binding: for every scope, symbols that symtable
    classifies as (implicit) global and referenced, but that are neither module-level
    bindings (incl. recursively resolved star imports) nor builtins.
    Returns list of (name, lineno, scope_qualname)."""
    try:
        top = symtable.symtable(module.source, module.path, "exec")
    except SyntaxError as e:  # pragma: no cover
        raise AnalysisError(f"symtable failed for {module.rel}: {e}") from e
    ns = set(project.module_namespace(module.name).keys())
    missing = {}  # (scope path, name)

    def visit(tab, path):
        for s in tab.get_symbols():
            if not s.is_referenced():
                continue
            nm = s.get_name()
            if tab.get_type() == "module":
                is_glob = not s.is_assigned() and not s.is_imported() and not s.is_namespace() and not s.is_parameter()
                if not is_glob:
                    continue
            else:
                if not s.is_global():
                    continue
            if nm in ns or nm in BUILTIN_NAMES:
                continue
            missing.setdefault(nm, []).append((path, tab.get_lineno()))
        for ch in tab.get_children():
            visit(ch, path + [ch.get_name()])

    visit(top, [])
    out = []
    if not missing:
        return out
    # locate the loads
    for node in ast.walk(module.tree):
        if isinstance(node, ast.Name) and isinstance(node.ctx, ast.Load) and node.id in missing:
            # confirm that in this node's scope chain the name is not bound
            if not _bound_in_enclosing(project, node):
                f = project.func_containing(node)
                out.append((node.id, node.lineno, f.qualname if f else module.name + "::<module>"))
    return out


def _bound_in_enclosing(project, name_node):
    nm = name_node.id
    child = name_node
    for p in parents(name_node):
        if isinstance(p, (ast.ListComp, ast.SetComp, ast.DictComp, ast.GeneratorExp)):
            # names bound by this comprehension's generators are visible in elt and in later generators / ifs
            for gi, g in enumerate(p.generators):
                bound = {n.id for n in ast.walk(g.target) if isinstance(n, ast.Name)}
                if nm in bound:
                    # visible unless the reference is inside the *first* iterable or an earlier generator's iter
                    if any(x is child for x in [g2.iter for g2 in p.generators[: gi + 1]]):
                        continue
                    return True
            for n in ast.walk(p):
                if isinstance(n, ast.NamedExpr) and n.target.id == nm:
                    return True
        elif isinstance(p, (ast.FunctionDef, ast.AsyncFunctionDef, ast.Lambda)):
            if child in getattr(p, "decorator_list", []) or (hasattr(p, "args") and _contains(p.args, name_node) and not isinstance(p, ast.Lambda) and child is p.args):
                # defaults / decorators are evaluated in the enclosing scope
                child = p
                continue
            if nm in project.local_names(p):
                return True
        elif isinstance(p, ast.ClassDef):
            # class-level names are visible only directly in the class body
            if child in p.body:
                for st in p.body:
                    for n in walk_no_nested(st, include_self=True):
                        if isinstance(n, ast.Name) and isinstance(n.ctx, ast.Store) and n.id == nm:
                            return True
                        if isinstance(n, (ast.FunctionDef, ast.ClassDef)) and n.name == nm:
                            return True
        child = p
    return False


# --------------------------------------------------------------------------------------
# Call resolution
# --------------------------------------------------------------------------------------


def resolve_callee(project, call_or_expr, module=None):
    """Resolve the callee of a Call (or a bare callee expression) to
    ('func', Func) | ('class', ClassInfo) | ('external', dotted) | ('builtin', name) |
    ('local', name) | ('attr', base, rest) | None.
    Nested function definitions in enclosing scopes are honoured (closures)."""
    expr = call_or_expr.func if isinstance(call_or_expr, ast.Call) else call_or_expr
    module = getattr(expr, "_home_module", None) or module or project.module_of(expr)
    if module is None:
        return None
    if isinstance(expr, ast.Name):
        # nested defs / locals in enclosing function scopes, innermost first
        for p in parents(expr):
            if isinstance(p, (ast.FunctionDef, ast.AsyncFunctionDef, ast.Lambda)):
                owner = project.func_of_node.get(id(p))
                if owner is not None:
                    nested = [f for f in project.funcs.values() if f.parent is owner and f.node.name == expr.id]
                    if nested:
                        # several definitions with one name (redefinition): pick the last one defined before the use
                        before = [f for f in nested if f.node.lineno <= expr.lineno]
                        return ("func", (before or nested)[-1])
                if expr.id in project.local_names(p):
                    return ("local", expr.id)
        return project.resolve_chain(module, [expr.id])
    ch = attr_chain(expr)
    if ch is None:
        return None
    scope = enclosing_function(expr)
    return project.resolve_chain(module, ch, scope)
