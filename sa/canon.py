"""Load-time canonicalisation of the syntax tree.

Rules look at the *shape* of the code; two spellings of the same computation must therefore reach them as one shape.
The loader applies these rewrites, each of which preserves behaviour exactly, before anything else sees a module:

 K1  single-use adjacent temporary       `t = E` immediately followed by `return t` / `if t:` / `if not t:` / `assert t`
                                          / `raise t`, where t is a plain local stored once and loaded once in the whole
                                          function (no nested scope mentions it, no global/nonlocal)  ->  the temporary is
                                          written out (`return E`, `if E:` ...).  E is evaluated at the same point, nothing is
                                          evaluated between the two statements.
 K2  operand order of comparisons        `CONST == x` -> `x == CONST`, `CONST < x` -> `x > CONST` (likewise <=, >, >=, !=) when
                                          the left operand is "more constant" than the right one (literal > ALL_CAPS name or
                                          attribute > anything else) and both operands are free of calls with effects (names,
                                          attributes, subscripts, literals, len()/arithmetic of those).
 K3  `not (a == b)` -> `a != b`, `not (a != b)` -> `a == b`, `not (a is b)` -> `a is not b`, `not (a in b)` -> `a not in b`
     (and the inverses `not (a is not b)`, `not (a not in b)`), for single-operator comparisons.

Every rewritten node keeps the position of the node it replaces, so reports still point at the right line.  The
rewrites are deliberately few: each one must be exact, because a canonicaliser that changes meaning would make every
rule lie.  `tools/neutral_mutate.py` applies the inverse transformations to the whole package and requires all checks
to stay silent."""

from __future__ import annotations

import ast

_SCOPES = (ast.FunctionDef, ast.AsyncFunctionDef, ast.Lambda, ast.ClassDef, ast.ListComp, ast.SetComp, ast.DictComp, ast.GeneratorExp)


def _rank(e):
    if isinstance(e, ast.Constant):
        return 3
    if isinstance(e, ast.UnaryOp) and isinstance(e.op, ast.USub) and isinstance(e.operand, ast.Constant):
        return 3
    if isinstance(e, (ast.Tuple, ast.List, ast.Set)) and all(_rank(x) == 3 for x in e.elts):
        return 3  # a literal of literals, including the empty ones `[]` and `()`
    if isinstance(e, ast.Attribute) and e.attr.isupper() and len(e.attr) > 1:
        return 2
    if isinstance(e, ast.Name) and e.id.isupper() and len(e.id) > 1:
        return 2
    return 0


_PURE_CALLS = {"len", "abs", "int", "str", "tuple", "type", "id"}


def _pure(e):
    for x in ast.walk(e):
        if isinstance(x, ast.Call):
            if not (isinstance(x.func, ast.Name) and x.func.id in _PURE_CALLS):
                return False
        elif isinstance(x, (ast.NamedExpr, ast.Await, ast.Yield, ast.YieldFrom, ast.Lambda, ast.ListComp, ast.SetComp, ast.DictComp, ast.GeneratorExp)):
            return False
    return True


_FLIP = {ast.Eq: ast.Eq, ast.NotEq: ast.NotEq, ast.Lt: ast.Gt, ast.Gt: ast.Lt, ast.LtE: ast.GtE, ast.GtE: ast.LtE}
_NEG = {ast.Eq: ast.NotEq, ast.NotEq: ast.Eq, ast.Is: ast.IsNot, ast.IsNot: ast.Is, ast.In: ast.NotIn, ast.NotIn: ast.In}


class _Exprs(ast.NodeTransformer):
    def __init__(self):
        self.count = {"K2": 0, "K3": 0}

    def visit_Compare(self, node):
        self.generic_visit(node)
        if len(node.ops) == 1 and type(node.ops[0]) in _FLIP:
            l, r = node.left, node.comparators[0]
            if _rank(l) > _rank(r) and _pure(l) and _pure(r):
                node.left, node.comparators = r, [l]
                node.ops = [_FLIP[type(node.ops[0])]()]
                self.count["K2"] += 1
        return node

    def visit_UnaryOp(self, node):
        self.generic_visit(node)
        if isinstance(node.op, ast.Not) and isinstance(node.operand, ast.Compare) and len(node.operand.ops) == 1 and type(node.operand.ops[0]) in _NEG:
            c = node.operand
            new = ast.Compare(left=c.left, ops=[_NEG[type(c.ops[0])]()], comparators=c.comparators)
            self.count["K3"] += 1
            return ast.copy_location(new, node)
        return node


def _name_uses(fn):
    """{name: (stores, loads, mentioned in a nested scope or declared global/nonlocal)} for one function body"""
    stores, loads, tainted = {}, {}, set()
    params = {a.arg for a in fn.args.posonlyargs + fn.args.args + fn.args.kwonlyargs}
    if fn.args.vararg:
        params.add(fn.args.vararg.arg)
    if fn.args.kwarg:
        params.add(fn.args.kwarg.arg)
    tainted |= params

    def visit(node, nested):
        for ch in ast.iter_child_nodes(node):
            if isinstance(ch, ast.Name):
                if nested:
                    tainted.add(ch.id)
                elif isinstance(ch.ctx, ast.Store):
                    stores[ch.id] = stores.get(ch.id, 0) + 1
                elif isinstance(ch.ctx, ast.Load):
                    loads[ch.id] = loads.get(ch.id, 0) + 1
                else:
                    tainted.add(ch.id)
            elif isinstance(ch, (ast.Global, ast.Nonlocal)):
                tainted.update(ch.names)
            elif isinstance(ch, ast.ExceptHandler) and ch.name:
                tainted.add(ch.name)
            elif isinstance(ch, ast.arg):
                tainted.add(ch.arg)
            elif isinstance(ch, (ast.FunctionDef, ast.AsyncFunctionDef, ast.ClassDef)):
                tainted.add(ch.name)
            elif isinstance(ch, (ast.Import, ast.ImportFrom)):
                for a in ch.names:
                    tainted.add((a.asname or a.name).split(".")[0])
            elif isinstance(ch, (ast.MatchAs, ast.MatchStar)) and ch.name:
                tainted.add(ch.name)
            elif isinstance(ch, ast.MatchMapping) and ch.rest:
                tainted.add(ch.rest)
            visit(ch, nested or isinstance(ch, _SCOPES))

    for st in fn.body:
        holder = ast.Module(body=[st], type_ignores=[])
        visit(holder, isinstance(st, _SCOPES))
        if isinstance(st, (ast.FunctionDef, ast.AsyncFunctionDef, ast.ClassDef)):
            tainted.add(st.name)
    return stores, loads, tainted


def _use_slot(st, name):
    """(owner node, field) when statement `st` starts by evaluating exactly the local `name`"""
    if isinstance(st, (ast.Return, ast.Expr)) and isinstance(st.value, ast.Name) and st.value.id == name and isinstance(st, ast.Return):
        return st, "value"
    if isinstance(st, (ast.If, ast.Assert)):
        t = st.test
        if isinstance(t, ast.Name) and t.id == name:
            return st, "test"
        if isinstance(t, ast.UnaryOp) and isinstance(t.op, ast.Not) and isinstance(t.operand, ast.Name) and t.operand.id == name:
            return t, "operand"
    if isinstance(st, ast.Raise) and st.cause is None and isinstance(st.exc, ast.Name) and st.exc.id == name:
        return st, "exc"
    return None


def _inline_temps(fn, count):
    stores, loads, tainted = _name_uses(fn)
    ok = {n for n in stores if stores[n] == 1 and loads.get(n, 0) == 1 and n not in tainted}
    if not ok:
        return

    def block(stmts):
        i = 0
        while i + 1 < len(stmts):
            a, b = stmts[i], stmts[i + 1]
            if isinstance(a, ast.Assign) and len(a.targets) == 1 and isinstance(a.targets[0], ast.Name) and a.targets[0].id in ok:
                slot = _use_slot(b, a.targets[0].id)
                if slot is not None:
                    owner, fld = slot
                    setattr(owner, fld, a.value)
                    del stmts[i]
                    count["K1"] = count.get("K1", 0) + 1
                    if i > 0:
                        i -= 1  # `a = E; b = not a ...` chains are not handled, but an enclosing pair may now be adjacent
                    continue
            i += 1

    def walk(node):
        for fld in ("body", "orelse", "finalbody"):
            blk = getattr(node, fld, None)
            if isinstance(blk, list) and blk and isinstance(blk[0], ast.stmt):
                for st in blk:
                    if not isinstance(st, (ast.FunctionDef, ast.AsyncFunctionDef, ast.ClassDef)):
                        walk(st)
                block(blk)
        for h in getattr(node, "handlers", []) or []:
            walk(h)
        for c in getattr(node, "cases", []) or []:
            walk(c)

    walk(fn)


def canonicalise(tree):
    """rewrite `tree` in place; returns {rewrite: number of applications}"""
    ex = _Exprs()
    ex.visit(tree)
    count = dict(ex.count)
    count["K1"] = 0
    # innermost functions first, so that an inlined expression is complete when its enclosing function is looked at
    fns = [n for n in ast.walk(tree) if isinstance(n, (ast.FunctionDef, ast.AsyncFunctionDef))]
    for fn in reversed(fns):
        _inline_temps(fn, count)
    ast.fix_missing_locations(tree)
    return count
