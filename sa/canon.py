"""Load-time canonicalisation of the syntax tree.

Rules look at the *shape* of the code; two spellings of the same computation must therefore reach them as one shape.
The loader applies these rewrites, each of which preserves behaviour exactly, before anything else sees a module:

 K1  single-use adjacent temporary       `t = E` immediately followed by `return t` / `if t:` / `if not t:` / `assert t`
                                          / `raise t`, where t is a plain local stored once and loaded once in the whole
                                          function (no nested scope mentions it, no global/nonlocal)  ->  the temporary is
                                          written out (`return E`, `if E:` ...).  E is evaluated at the same point, nothing is
                                          evaluated between the two statements.
 K2  operand order of comparisons        `CONST == x` -> `x == CONST`, `CONST < x` -> `x > CONST` (likewise <=, >, >=, !=) when
                                          the left operand is "more constant" than the right one (literal > ALL_CAPS name or
                                          attribute > anything else) and both operands are free of calls with effects (names,
                                          attributes, subscripts, literals, len()/arithmetic of those).
 K4  `isinstance(x, A) or isinstance(x, B)` -> `isinstance(x, (A, B))` for adjacent disjuncts on the same effect-free
     subject, and `isinstance(x, A | B)` -> `isinstance(x, (A, B))`; a one-element tuple is written as the class itself.
 K5  `if not c: A else: B` -> `if c: B else: A` (both arms present; `elif` chains keep their order because the else arm
     that is a single `if` is left alone).
 K6  a module-level constant `_NAME = <str/int literal>` bound exactly once in its module (never stored elsewhere, no
     `global`) is written out where the same module loads it.
 K7  `ys = []` immediately followed by `for v in xs: [if c:] ys.append(e)` whose loop variables are used nowhere else in
     the function -> `ys = [e for v in xs if c]`.
 K8  a loop over a literal table (`for name in ("add", "mul"):`, `for a, b in TABLE:` / `TABLE.items()` with TABLE a
     module constant or a local bound once to a literal, never mutated) whose body is straight-line code without
     closures over the loop variable is unrolled, the loop variable replaced by each literal in turn.
 K9  `setattr(o, "name", v)` as a statement -> `o.name = v`;  K10 `getattr(o, "name")` -> `o.name`  (identifier literals,
     no default, no name-mangled `__x`).  Together with K8 a table filled by `for n in NAMES: setattr(self, n, f(getattr(ns, n)))`
     reads as the plain assignments it performs.
 K11 a call of a small local factory (a nested `def` bound once in the same function, plain parameters) with literal /
     reference arguments is replaced by what it returns: parameters substituted, `if <constant>` folded, once-used
     locals written out - provided the body then is straight-line and ends in one `return E`.
     (`def reduce_row(op): return ns.reduce(op, axis="dim")` ... `self.sum = reduce_row(torch.sum)`)
 K12 `a, b = x, y` (plain names on the left, as many values on the right, no value mentions a target) -> `a = x; b = y`.
 K13 `f(x, **opts)` with `opts` a local bound once to a dict display of identifier keys and literal / reference values
     (possibly spreading another such dict), never mutated -> `f(x, k1=v1, k2=v2)`.
 K14 `(lambda x: E)(a)` (a lambda applied on the spot to plain positional arguments, as left behind by K8 when a table row
     holds a lambda) -> E with x replaced by a.
 K3  `not (a == b)` -> `a != b`, `not (a != b)` -> `a == b`, `not (a is b)` -> `a is not b`, `not (a in b)` -> `a not in b`
     (and the inverses `not (a is not b)`, `not (a not in b)`), for single-operator comparisons.

Every rewritten node keeps the position of the node it replaces, so reports still point at the right line.  The
rewrites are deliberately few: each one must be exact, because a canonicaliser that changes meaning would make every
rule lie.  `tools/neutral_mutate.py` applies the inverse transformations to the whole package and requires all checks
to stay silent."""

from __future__ import annotations

import ast

_SCOPES = (ast.FunctionDef, ast.AsyncFunctionDef, ast.Lambda, ast.ClassDef, ast.ListComp, ast.SetComp, ast.DictComp, ast.GeneratorExp)


def _rank(e):
    if isinstance(e, ast.Constant):
        return 3
    if isinstance(e, ast.UnaryOp) and isinstance(e.op, ast.USub) and isinstance(e.operand, ast.Constant):
        return 3
    if isinstance(e, (ast.Tuple, ast.List, ast.Set)) and all(_rank(x) == 3 for x in e.elts):
        return 3  # a literal of literals, including the empty ones `[]` and `()`
    if isinstance(e, ast.Attribute) and e.attr.isupper() and len(e.attr) > 1:
        return 2
    if isinstance(e, ast.Name) and e.id.isupper() and len(e.id) > 1:
        return 2
    return 0


_PURE_CALLS = {"len", "abs", "int", "str", "tuple", "type", "id"}


def _pure(e):
    for x in ast.walk(e):
        if isinstance(x, ast.Call):
            if not (isinstance(x.func, ast.Name) and x.func.id in _PURE_CALLS):
                return False
        elif isinstance(x, (ast.NamedExpr, ast.Await, ast.Yield, ast.YieldFrom, ast.Lambda, ast.ListComp, ast.SetComp, ast.DictComp, ast.GeneratorExp)):
            return False
    return True


_FLIP = {ast.Eq: ast.Eq, ast.NotEq: ast.NotEq, ast.Lt: ast.Gt, ast.Gt: ast.Lt, ast.LtE: ast.GtE, ast.GtE: ast.LtE}
_NEG = {ast.Eq: ast.NotEq, ast.NotEq: ast.Eq, ast.Is: ast.IsNot, ast.IsNot: ast.Is, ast.In: ast.NotIn, ast.NotIn: ast.In}


class _Exprs(ast.NodeTransformer):
    def __init__(self):
        self.count = {"K2": 0, "K3": 0}

    def visit_Compare(self, node):
        self.generic_visit(node)
        if len(node.ops) == 1 and type(node.ops[0]) in _FLIP:
            l, r = node.left, node.comparators[0]
            if _rank(l) > _rank(r) and _pure(l) and _pure(r):
                node.left, node.comparators = r, [l]
                node.ops = [_FLIP[type(node.ops[0])]()]
                self.count["K2"] += 1
        return node

    @staticmethod
    def _isinstance(e):
        return isinstance(e, ast.Call) and isinstance(e.func, ast.Name) and e.func.id == "isinstance" and len(e.args) == 2 and not e.keywords

    @staticmethod
    def _classes(e):
        out, st = [], [e]
        while st:
            x = st.pop()
            if isinstance(x, ast.BinOp) and isinstance(x.op, ast.BitOr):
                st += [x.right, x.left]
            elif isinstance(x, ast.Tuple):
                st += list(reversed(x.elts))
            else:
                out.append(x)
        return out

    def visit_Call(self, node):
        self.generic_visit(node)
        if self._isinstance(node) and isinstance(node.args[1], (ast.BinOp, ast.Tuple)):
            cl = self._classes(node.args[1])
            if all(isinstance(c, (ast.Name, ast.Attribute)) for c in cl) and cl:
                new = cl[0] if len(cl) == 1 else ast.Tuple(elts=cl, ctx=ast.Load())
                if ast.dump(new) != ast.dump(node.args[1]):
                    node.args[1] = ast.copy_location(new, node.args[1])
                    self.count["K4"] = self.count.get("K4", 0) + 1
        return node

    def visit_BoolOp(self, node):
        self.generic_visit(node)
        if isinstance(node.op, ast.Or):
            out = []
            for v in node.values:
                prev = out[-1] if out else None
                if prev is not None and self._isinstance(v) and self._isinstance(prev) and _pure(v.args[0]) and ast.dump(v.args[0]) == ast.dump(prev.args[0]) and all(isinstance(c, (ast.Name, ast.Attribute)) for c in self._classes(prev.args[1]) + self._classes(v.args[1])):
                    cl = self._classes(prev.args[1]) + self._classes(v.args[1])
                    prev.args[1] = ast.copy_location(ast.Tuple(elts=cl, ctx=ast.Load()), prev.args[1])
                    self.count["K4"] = self.count.get("K4", 0) + 1
                else:
                    out.append(v)
            if len(out) == 1:
                return out[0]
            node.values = out
        return node

    def visit_If(self, node):
        self.generic_visit(node)
        if node.orelse and isinstance(node.test, ast.UnaryOp) and isinstance(node.test.op, ast.Not) and not (len(node.orelse) == 1 and isinstance(node.orelse[0], ast.If)):
            node.test = node.test.operand
            node.body, node.orelse = node.orelse, node.body
            self.count["K5"] = self.count.get("K5", 0) + 1
        return node

    def visit_UnaryOp(self, node):
        self.generic_visit(node)
        if isinstance(node.op, ast.Not) and isinstance(node.operand, ast.Compare) and len(node.operand.ops) == 1 and type(node.operand.ops[0]) in _NEG:
            c = node.operand
            new = ast.Compare(left=c.left, ops=[_NEG[type(c.ops[0])]()], comparators=c.comparators)
            self.count["K3"] += 1
            return ast.copy_location(new, node)
        return node


def _comp_targets(node):
    if isinstance(node, (ast.ListComp, ast.SetComp, ast.DictComp, ast.GeneratorExp)):
        return frozenset(t.id for g in node.generators for t in ast.walk(g.target) if isinstance(t, ast.Name))
    return frozenset()


def _name_uses(fn):
    """{name: (stores, loads, mentioned in a nested scope or declared global/nonlocal)} for one function body"""
    stores, loads, tainted = {}, {}, set()
    params = {a.arg for a in fn.args.posonlyargs + fn.args.args + fn.args.kwonlyargs}
    if fn.args.vararg:
        params.add(fn.args.vararg.arg)
    if fn.args.kwarg:
        params.add(fn.args.kwarg.arg)
    tainted |= params

    def visit(node, nested):
        for ch in ast.iter_child_nodes(node):
            if isinstance(ch, ast.Name):
                if nested:
                    tainted.add(ch.id)
                elif isinstance(ch.ctx, ast.Store):
                    stores[ch.id] = stores.get(ch.id, 0) + 1
                elif isinstance(ch.ctx, ast.Load):
                    loads[ch.id] = loads.get(ch.id, 0) + 1
                else:
                    tainted.add(ch.id)
            elif isinstance(ch, (ast.Global, ast.Nonlocal)):
                tainted.update(ch.names)
            elif isinstance(ch, ast.ExceptHandler) and ch.name:
                tainted.add(ch.name)
            elif isinstance(ch, ast.arg):
                tainted.add(ch.arg)
            elif isinstance(ch, (ast.FunctionDef, ast.AsyncFunctionDef, ast.ClassDef)):
                tainted.add(ch.name)
            elif isinstance(ch, (ast.Import, ast.ImportFrom)):
                for a in ch.names:
                    tainted.add((a.asname or a.name).split(".")[0])
            elif isinstance(ch, (ast.MatchAs, ast.MatchStar)) and ch.name:
                tainted.add(ch.name)
            elif isinstance(ch, ast.MatchMapping) and ch.rest:
                tainted.add(ch.rest)
            visit(ch, nested or isinstance(ch, _SCOPES))

    for st in fn.body:
        holder = ast.Module(body=[st], type_ignores=[])
        visit(holder, isinstance(st, _SCOPES))
        if isinstance(st, (ast.FunctionDef, ast.AsyncFunctionDef, ast.ClassDef)):
            tainted.add(st.name)
    return stores, loads, tainted


def _use_slot(st, name):
    """(owner node, field) when statement `st` starts by evaluating exactly the local `name`"""
    if isinstance(st, (ast.Return, ast.Expr)) and isinstance(st.value, ast.Name) and st.value.id == name and isinstance(st, ast.Return):
        return st, "value"
    if isinstance(st, (ast.If, ast.Assert)):
        t = st.test
        if isinstance(t, ast.Name) and t.id == name:
            return st, "test"
        if isinstance(t, ast.UnaryOp) and isinstance(t.op, ast.Not) and isinstance(t.operand, ast.Name) and t.operand.id == name:
            return t, "operand"
    if isinstance(st, ast.Raise) and st.cause is None and isinstance(st.exc, ast.Name) and st.exc.id == name:
        return st, "exc"
    return None


def _inline_temps(fn, count):
    stores, loads, tainted = _name_uses(fn)
    ok = {n for n in stores if stores[n] == 1 and loads.get(n, 0) == 1 and n not in tainted}
    if not ok:
        return

    def block(stmts):
        i = 0
        while i + 1 < len(stmts):
            a, b = stmts[i], stmts[i + 1]
            if isinstance(a, ast.Assign) and len(a.targets) == 1 and isinstance(a.targets[0], ast.Name) and a.targets[0].id in ok:
                slot = _use_slot(b, a.targets[0].id)
                if slot is not None:
                    owner, fld = slot
                    setattr(owner, fld, a.value)
                    del stmts[i]
                    count["K1"] = count.get("K1", 0) + 1
                    if i > 0:
                        i -= 1  # `a = E; b = not a ...` chains are not handled, but an enclosing pair may now be adjacent
                    continue
            i += 1

    def walk(node):
        for fld in ("body", "orelse", "finalbody"):
            blk = getattr(node, fld, None)
            if isinstance(blk, list) and blk and isinstance(blk[0], ast.stmt):
                for st in blk:
                    if not isinstance(st, (ast.FunctionDef, ast.AsyncFunctionDef, ast.ClassDef)):
                        walk(st)
                block(blk)
        for h in getattr(node, "handlers", []) or []:
            walk(h)
        for c in getattr(node, "cases", []) or []:
            walk(c)

    walk(fn)


def _inline_module_constants(tree, count):
    cands = {}
    for st in tree.body:
        if isinstance(st, ast.Assign) and len(st.targets) == 1 and isinstance(st.targets[0], ast.Name) and isinstance(st.value, ast.Constant) and isinstance(st.value.value, (str, int)) and not isinstance(st.value.value, bool):
            nm = st.targets[0].id
            if nm.upper() == nm and len(nm) > 2 and any(ch.isalpha() for ch in nm):
                cands[nm] = st
    if not cands:
        return
    stores = {}
    for x in ast.walk(tree):
        if isinstance(x, ast.Name) and not isinstance(x.ctx, ast.Load):
            stores[x.id] = stores.get(x.id, 0) + 1
        elif isinstance(x, (ast.Global, ast.Nonlocal)):
            for n in x.names:
                stores[n] = stores.get(n, 0) + 2
        elif isinstance(x, ast.arg):
            stores[x.arg] = stores.get(x.arg, 0) + 2
        elif isinstance(x, (ast.FunctionDef, ast.AsyncFunctionDef, ast.ClassDef)):
            stores[x.name] = stores.get(x.name, 0) + 2
        elif isinstance(x, (ast.Import, ast.ImportFrom)):
            for a in x.names:
                k = (a.asname or a.name).split(".")[0]
                stores[k] = stores.get(k, 0) + 2
        elif isinstance(x, ast.ExceptHandler) and x.name:
            stores[x.name] = stores.get(x.name, 0) + 2
    cands = {n: st for n, st in cands.items() if stores.get(n, 0) == 1}
    if not cands:
        return

    class R(ast.NodeTransformer):
        def visit_Name(self, n):
            if isinstance(n.ctx, ast.Load) and n.id in cands:
                count["K6"] = count.get("K6", 0) + 1
                return ast.copy_location(ast.Constant(value=cands[n.id].value.value), n)
            return n

    R().visit(tree)


def _store_counts(tree):
    stores = {}
    for x in ast.walk(tree):
        if isinstance(x, ast.Name) and not isinstance(x.ctx, ast.Load):
            stores[x.id] = stores.get(x.id, 0) + 1
        elif isinstance(x, (ast.Global, ast.Nonlocal)):
            for n in x.names:
                stores[n] = stores.get(n, 0) + 2
        elif isinstance(x, ast.arg):
            stores[x.arg] = stores.get(x.arg, 0) + 2
        elif isinstance(x, (ast.FunctionDef, ast.AsyncFunctionDef, ast.ClassDef)):
            stores[x.name] = stores.get(x.name, 0) + 2
        elif isinstance(x, (ast.Import, ast.ImportFrom)):
            for a in x.names:
                k = (a.asname or a.name).split(".")[0]
                stores[k] = stores.get(k, 0) + 2
        elif isinstance(x, ast.ExceptHandler) and x.name:
            stores[x.name] = stores.get(x.name, 0) + 2
        elif isinstance(x, ast.comprehension):
            pass
    return stores


def _is_partial(tree, f):
    """does the callee expression denote functools.partial in this module?"""
    if isinstance(f, ast.Attribute) and f.attr == "partial" and isinstance(f.value, ast.Name) and f.value.id == "functools":
        return any(isinstance(st, ast.Import) and any(a.name == "functools" and a.asname is None for a in st.names) for st in tree.body)
    if isinstance(f, ast.Name) and f.id == "partial":
        return any(isinstance(st, ast.ImportFrom) and st.module == "functools" and any(a.name == "partial" and a.asname is None for a in st.names) for st in tree.body)
    return False


def _inline_module_aliases(tree, count):
    """K15: a private module-level name bound once to a module-level def / class (`_nary = _associative_binary_to_nary`)
    is replaced by that name.  K16: a private module-level name bound once to `partial(f, <literal / reference arguments>)`
    is written out where it is called: `_binary(x)` -> `f(x, n=2)` (keyword arguments of the partial only, or positional
    ones in front - exactly what partial does)."""
    defs = {st.name for st in tree.body if isinstance(st, (ast.FunctionDef, ast.ClassDef))}
    # names imported once are as good: replacing one once-bound name by another is exact whatever they denote
    defs |= {a.asname or a.name for st in tree.body if isinstance(st, ast.ImportFrom) for a in st.names if a.name != "*"}
    stores = _store_counts(tree)
    aliases, partials = {}, {}
    seen_defs = set()  # bound above the alias (`_map = map` in front of `def map` means the builtin)
    for st in tree.body:
        if isinstance(st, (ast.FunctionDef, ast.ClassDef)):
            seen_defs.add(st.name)
        elif isinstance(st, ast.ImportFrom):
            seen_defs |= {a.asname or a.name for a in st.names}
        defs = seen_defs
        if isinstance(st, ast.Assign) and len(st.targets) == 1 and isinstance(st.targets[0], ast.Name):
            nm = st.targets[0].id
            if not nm.startswith("_") or nm.startswith("__") or stores.get(nm, 0) != 1:
                continue
            v = st.value
            if isinstance(v, ast.Name) and v.id in defs and stores.get(v.id, 0) == 2:
                aliases[nm] = v
            elif isinstance(v, ast.Call) and _is_partial(tree, v.func) and v.args and isinstance(v.args[0], ast.Name) and v.args[0].id in defs and stores.get(v.args[0].id, 0) == 2 and not any(isinstance(a, ast.Starred) for a in v.args) and all(k.arg is not None for k in v.keywords) and all(_is_literal(a) or _is_ref(a) for a in v.args[1:]) and all(_is_literal(k.value) or _is_ref(k.value) for k in v.keywords):
                partials[nm] = v
    if not aliases and not partials:
        return

    class R(ast.NodeTransformer):
        def visit_Call(self, c):
            self.generic_visit(c)
            if isinstance(c.func, ast.Name) and isinstance(c.func.ctx, ast.Load) and c.func.id in partials:
                pv = partials[c.func.id]
                if not any(k.arg is None for k in c.keywords) and not ({k.arg for k in c.keywords} & {k.arg for k in pv.keywords}):
                    count["K16"] = count.get("K16", 0) + 1
                    return ast.copy_location(ast.Call(func=_copy(pv.args[0]), args=[_copy(a) for a in pv.args[1:]] + c.args, keywords=[_copy(k) for k in pv.keywords] + c.keywords), c)
            return c

        def visit_Name(self, n):
            if isinstance(n.ctx, ast.Load) and n.id in aliases:
                count["K15"] = count.get("K15", 0) + 1
                return ast.copy_location(_copy(aliases[n.id]), n)
            return n

    # the bindings themselves stay (other modules may import the names)
    keep = {id(st) for st in tree.body if isinstance(st, ast.Assign) and len(st.targets) == 1 and isinstance(st.targets[0], ast.Name) and (st.targets[0].id in aliases or st.targets[0].id in partials)}
    for i, st in enumerate(tree.body):
        if id(st) not in keep:
            tree.body[i] = R().visit(st)


def _record_classes(tree):
    """typing.NamedTuple classes of the module: {name: [(field, default node or None), ...]}"""
    out = {}
    for st in tree.body:
        if isinstance(st, ast.ClassDef) and len(st.bases) == 1 and ((isinstance(st.bases[0], ast.Name) and st.bases[0].id == "NamedTuple") or (isinstance(st.bases[0], ast.Attribute) and st.bases[0].attr == "NamedTuple")) and not st.keywords and not st.decorator_list:
            fields = []
            ok = True
            for b in st.body:
                if isinstance(b, ast.AnnAssign) and isinstance(b.target, ast.Name):
                    fields.append((b.target.id, b.value))
                elif isinstance(b, ast.Expr) and isinstance(b.value, ast.Constant):
                    continue
                elif isinstance(b, (ast.FunctionDef, ast.Pass)):
                    continue
                else:
                    ok = False
            if ok and fields:
                out[st.name] = fields
    return out


def _record_fields(e):
    """field -> value of a record constructor call `Rec(a, b, c=d)` with plain arguments, else None"""
    if not (isinstance(e, ast.Call) and isinstance(e.func, ast.Name) and e.func.id in _CTX.get("records", {})):
        return None
    fields = _CTX["records"][e.func.id]
    if any(isinstance(a, ast.Starred) for a in e.args) or any(k.arg is None for k in e.keywords) or len(e.args) > len(fields):
        return None
    vals = {}
    for (fname, _), a in zip(fields, e.args):
        vals[fname] = a
    for k in e.keywords:
        if k.arg in vals or k.arg not in [f for f, _ in fields]:
            return None
        vals[k.arg] = k.value
    for fname, dflt in fields:
        if fname not in vals:
            if dflt is None:
                return None
            vals[fname] = dflt
    if not all(_is_literal(v) or _is_ref(v) for v in vals.values()):
        return None
    return vals


class _FoldRecords(ast.NodeTransformer):
    """`Rec(a, b).field` -> the argument stored in that field"""

    def __init__(self):
        self.n = 0

    def visit_Attribute(self, node):
        self.generic_visit(node)
        if isinstance(node.ctx, ast.Load):
            vals = _record_fields(node.value)
            if vals is not None and node.attr in vals:
                self.n += 1
                return ast.copy_location(_copy(vals[node.attr]), node)
        return node


def _loops_to_comprehensions(fn, count):
    loads, other, stores = {}, set(), {}

    def visit(node, nested, own=frozenset()):
        for ch in ast.iter_child_nodes(node):
            if isinstance(ch, ast.Name):
                if nested:
                    if ch.id not in own:
                        other.add(ch.id)
                elif isinstance(ch.ctx, ast.Load):
                    loads.setdefault(ch.id, []).append(ch)
                else:
                    stores[ch.id] = stores.get(ch.id, 0) + 1
            elif isinstance(ch, (ast.Global, ast.Nonlocal)):
                other.update(ch.names)
            # the variables of a comprehension are its own: `[id(i) for i in xs]` says nothing about a local `i`
            visit(ch, nested or isinstance(ch, _SCOPES), own | _comp_targets(ch))

    for st in fn.body:
        visit(ast.Module(body=[st], type_ignores=[]), isinstance(st, _SCOPES))
    params = {a.arg for a in ast.walk(fn.args) if isinstance(a, ast.arg)}

    def block(stmts):
        i = 0
        while i + 1 < len(stmts):
            a, b = stmts[i], stmts[i + 1]
            if (
                isinstance(a, ast.Assign)
                and len(a.targets) == 1
                and isinstance(a.targets[0], ast.Name)
                and isinstance(a.value, ast.List)
                and not a.value.elts
                and isinstance(b, ast.For)
                and not b.orelse
                and len(b.body) == 1
            ):
                y = a.targets[0].id
                inner, conds = b.body[0], []
                while isinstance(inner, ast.If) and not inner.orelse and len(inner.body) == 1:
                    conds.append(inner.test)
                    inner = inner.body[0]
                call = inner.value if isinstance(inner, ast.Expr) else None
                tn = [t.id for t in ast.walk(b.target) if isinstance(t, ast.Name)]
                inside = {id(x) for x in ast.walk(b)}
                if (
                    isinstance(call, ast.Call)
                    and isinstance(call.func, ast.Attribute)
                    and call.func.attr == "append"
                    and isinstance(call.func.value, ast.Name)
                    and call.func.value.id == y
                    and len(call.args) == 1
                    and not call.keywords
                    and not isinstance(call.args[0], ast.Starred)
                    and all(isinstance(t, (ast.Name, ast.Tuple, ast.List)) for t in ast.walk(b.target) if not isinstance(t, ast.expr_context))
                    and all(stores.get(t, 0) == 1 and t not in other and t not in params and all(id(l) in inside for l in loads.get(t, [])) for t in tn)
                    and not any(isinstance(x, ast.Name) and x.id == y for part in [b.iter, call.args[0]] + conds for x in ast.walk(part))
                    and not any(isinstance(x, (ast.Yield, ast.YieldFrom, ast.Await, ast.NamedExpr)) for x in ast.walk(b))
                ):
                    comp = ast.ListComp(elt=call.args[0], generators=[ast.comprehension(target=b.target, iter=b.iter, ifs=conds, is_async=0)])
                    a.value = ast.copy_location(comp, b)
                    del stmts[i + 1]
                    count["K7"] = count.get("K7", 0) + 1
                    continue
            i += 1

    def walk(node):
        for fld in ("body", "orelse", "finalbody"):
            blk = getattr(node, fld, None)
            if isinstance(blk, list) and blk and isinstance(blk[0], ast.stmt):
                for st in blk:
                    if not isinstance(st, (ast.FunctionDef, ast.AsyncFunctionDef, ast.ClassDef)):
                        walk(st)
                block(blk)
        for h in getattr(node, "handlers", []) or []:
            walk(h)

    walk(fn)


_CTX = {"module": {}, "global": {}}  # literal tables of the module being canonicalised / of all modules of the package


def _resolve_table(e, local_tables=None):
    """(rows, is_dict) of a name / dotted name that denotes a literal table: a local bound once, a constant of this
    module, or `pkg.mod.NAME` for a constant of another module of the package (matched by the dotted suffix, which
    must be unique)"""
    if isinstance(e, ast.Name):
        for tab in (local_tables or {}, _CTX["module"]):
            if e.id in tab:
                return tab[e.id]
        return None
    if isinstance(e, ast.Attribute):
        chain = []
        x = e
        while isinstance(x, ast.Attribute):
            chain.insert(0, x.attr)
            x = x.value
        if not isinstance(x, ast.Name):
            return None
        chain.insert(0, x.id)
        var, mods = chain[-1], chain[:-1]
        hits = []
        for modname, tabs in _CTX["global"].items():
            parts = modname.split(".")
            if var in tabs and len(mods) >= 1 and parts[-1] == mods[-1] and (len(mods) < 2 or parts[-2:] == mods[-2:] or parts[-len(mods) + 1 :] == mods[1:]):
                hits.append(tabs[var])
        if len(hits) == 1:
            return hits[0]
    return None


def _is_literal(e):
    if isinstance(e, ast.Constant):
        return True
    if isinstance(e, (ast.Tuple, ast.List)):
        return all(_is_literal(x) for x in e.elts)
    if isinstance(e, ast.UnaryOp) and isinstance(e.op, ast.USub) and isinstance(e.operand, ast.Constant):
        return True
    return False


def _is_ref(e):
    """a reference that can be read at any time with the same result: a dotted name, getattr(<dotted name>, "lit")"""
    if isinstance(e, ast.Name):
        return True
    if isinstance(e, ast.Attribute):
        return _is_ref(e.value)
    if isinstance(e, ast.Call) and isinstance(e.func, ast.Name) and e.func.id == "getattr" and len(e.args) == 2 and not e.keywords and _is_ref(e.args[0]) and _is_literal(e.args[1]):
        return True
    return False


def _literal_table(e):
    """rows of a literal table expression: [(ast literal per loop target component ...)] or None"""
    if isinstance(e, ast.Dict) and e.keys and all(k is not None and _is_literal(k) for k in e.keys) and all(_is_literal(v) or _is_ref(v) or _record_fields(v) is not None for v in e.values):
        return [ast.Tuple(elts=[k, v], ctx=ast.Load()) for k, v in zip(e.keys, e.values)]
    if isinstance(e, ast.Call) and isinstance(e.func, ast.Attribute) and e.func.attr == "split" and not e.args and not e.keywords and isinstance(e.func.value, ast.Constant) and isinstance(e.func.value.value, str) and e.func.value.value.split():
        return [ast.copy_location(ast.Constant(value=w), e) for w in e.func.value.value.split()]  # "a b c".split()
    if isinstance(e, ast.DictComp) and len(e.generators) == 1 and not e.generators[0].ifs and isinstance(e.generators[0].target, ast.Name) and isinstance(e.key, ast.Name) and e.key.id == e.generators[0].target.id:
        # {name: getattr(ns, name) for name in ("a", "b")}
        keys = _literal_table(e.generators[0].iter) if isinstance(e.generators[0].iter, (ast.Tuple, ast.List)) else None
        if keys is not None and all(isinstance(k, ast.Constant) for k in keys):
            rows = []
            for k in keys:
                v = _Subst({e.key.id: k}).visit(_copy(e.value))
                if not (_is_literal(v) or _is_ref(v)):
                    return None
                rows.append(ast.Tuple(elts=[k, v], ctx=ast.Load()))
            return rows
    if isinstance(e, (ast.Tuple, ast.List)) and e.elts and all(_is_row(x) for x in e.elts) and not all(_is_ref(x) and not _is_literal(x) for x in e.elts):
        return list(e.elts)
    return None


def _is_row(e):
    """a table row: a literal, or a tuple of literals and references (`("add", tf.add)`)"""
    if _is_literal(e):
        return True
    if isinstance(e, (ast.Tuple, ast.List)) and e.elts:
        return all(_is_literal(x) or _is_ref(x) or _is_row(x) or isinstance(x, ast.Lambda) or _is_text(x) or _record_fields(x) is not None for x in e.elts)
    return _record_fields(e) is not None


def _is_text(e):
    """an f-string over references (a message)"""
    return isinstance(e, ast.JoinedStr) and all(isinstance(v, ast.Constant) or (isinstance(v, ast.FormattedValue) and _is_ref(v.value) and v.format_spec is None) for v in e.values)


def _once_bound_literals(scope_body, whole):
    """{name: rows} for names bound exactly once in `whole` (by a plain assignment in `scope_body`) to a literal table that
    is never mutated (no method call on it, no subscript store, no augmented assignment)"""
    cands = {}
    allowed = set()  # nodes of the building statements that directly follow the first binding
    for i, st in enumerate(scope_body):
        if isinstance(st, ast.Assign) and len(st.targets) == 1 and isinstance(st.targets[0], ast.Name):
            rows = _literal_table(st.value)
            if rows is not None:
                nm = st.targets[0].id
                isdict = isinstance(st.value, (ast.Dict, ast.DictComp))
                rows = list(rows)
                # `xs = [...]` directly followed by `xs += [...]` / `xs.extend([...])` / `xs.append(lit)`: one literal table
                j = i + 1
                while j < len(scope_body) and not isdict and isinstance(st.value, (ast.List, ast.Call)):
                    nx = scope_body[j]
                    more = None
                    if isinstance(nx, ast.AugAssign) and isinstance(nx.op, ast.Add) and isinstance(nx.target, ast.Name) and nx.target.id == nm and isinstance(nx.value, (ast.List, ast.Tuple)):
                        more = _literal_table(nx.value) if nx.value.elts else []
                    elif isinstance(nx, ast.Expr) and isinstance(nx.value, ast.Call) and isinstance(nx.value.func, ast.Attribute) and isinstance(nx.value.func.value, ast.Name) and nx.value.func.value.id == nm and len(nx.value.args) == 1 and not nx.value.keywords:
                        if nx.value.func.attr == "extend" and isinstance(nx.value.args[0], (ast.List, ast.Tuple)):
                            more = _literal_table(nx.value.args[0]) if nx.value.args[0].elts else []
                        elif nx.value.func.attr == "append" and _is_row(nx.value.args[0]):
                            more = [nx.value.args[0]]
                    if more is None:
                        break
                    rows += more
                    allowed.update(id(y) for y in ast.walk(nx))
                    j += 1
                cands[nm] = (st, rows, isdict)
    if not cands:
        return {}
    bad = set()
    stores = {}
    for x in ast.walk(whole):
        if id(x) in allowed:
            continue
        if isinstance(x, ast.Name) and x.id in cands:
            if not isinstance(x.ctx, ast.Load):
                stores[x.id] = stores.get(x.id, 0) + 1
        elif isinstance(x, (ast.Global, ast.Nonlocal)):
            bad.update(n for n in x.names if n in cands)
        elif isinstance(x, ast.arg) and x.arg in cands:
            bad.add(x.arg)
        if isinstance(x, ast.Attribute) and isinstance(x.value, ast.Name) and x.value.id in cands and x.attr not in ("items", "keys", "values", "index", "count"):
            bad.add(x.value.id)
        if isinstance(x, ast.Subscript) and isinstance(x.value, ast.Name) and x.value.id in cands and not isinstance(x.ctx, ast.Load):
            bad.add(x.value.id)
        if isinstance(x, ast.AugAssign) and isinstance(x.target, ast.Name) and x.target.id in cands:
            bad.add(x.target.id)
    return {n: (rows, isdict) for n, (st, rows, isdict) in cands.items() if n not in bad and stores.get(n, 0) == 1}


class _Subst(ast.NodeTransformer):
    def __init__(self, mapping):
        self.mapping = mapping

    def visit_Name(self, n):
        if isinstance(n.ctx, ast.Load) and n.id in self.mapping:
            return ast.copy_location(_copy(self.mapping[n.id]), n)
        return n


def _copy(node):
    if isinstance(node, list):
        return [_copy(x) for x in node]
    if not isinstance(node, ast.AST):
        return node
    new = type(node)()
    for f in node._fields:
        if hasattr(node, f):
            setattr(new, f, _copy(getattr(node, f)))
    for a in ("lineno", "col_offset", "end_lineno", "end_col_offset"):
        if hasattr(node, a):
            setattr(new, a, getattr(node, a))
    return new


class _Beta(ast.NodeTransformer):
    def __init__(self, count):
        self.count = count

    def visit_Call(self, node):
        self.generic_visit(node)
        f = node.func
        if isinstance(f, ast.Lambda) and not node.keywords and not any(isinstance(a, ast.Starred) for a in node.args):
            a = f.args
            if not (a.vararg or a.kwarg or a.kwonlyargs or a.defaults or a.posonlyargs) and len(a.args) == len(node.args) and all(_is_ref(x) or _is_literal(x) for x in node.args):
                params = [q.arg for q in a.args]
                inner_binds = {y.arg for y in ast.walk(f.body) if isinstance(y, ast.arg)} | {t.id for c in ast.walk(f.body) if isinstance(c, ast.comprehension) for t in ast.walk(c.target) if isinstance(t, ast.Name)}
                arg_names = {y.id for x in node.args for y in ast.walk(x) if isinstance(y, ast.Name)}
                if not (inner_binds & (set(params) | arg_names)):
                    self.count["K14"] = self.count.get("K14", 0) + 1
                    return ast.copy_location(_Subst(dict(zip(params, node.args))).visit(_copy(f.body)), node)
        return node


def _simplify_iteration(stmts, temps):
    """one unrolled iteration: fold `if <constant>` and write out the per-iteration temporaries
    (`op = np.add; op = wrap(op); self.add = f(op)` -> `self.add = f(wrap(np.add))`); returns the statements unchanged
    when that is not possible exactly"""
    flat = []
    if _CTX.get("records"):
        fr = _FoldRecords()
        stmts = [fr.visit(st) for st in stmts]

    def fold(ss):
        for st in ss:
            if isinstance(st, ast.If):
                v = _const_truth(st.test)
                if v is None:
                    return False
                if not fold(st.body if v else st.orelse):
                    return False
            elif isinstance(st, ast.Pass):
                continue
            else:
                flat.append(st)
        return True

    if not fold(stmts):
        return stmts
    env, out = {}, []
    for i, st in enumerate(flat):
        if env:
            st = _Subst(env).visit(st)
        if isinstance(st, ast.Assign) and len(st.targets) == 1 and isinstance(st.targets[0], ast.Name) and st.targets[0].id in temps:
            nm = st.targets[0].id
            # uses until the next assignment of the same temporary
            uses = 0
            for later in flat[i + 1 :]:
                uses += sum(1 for y in ast.walk(later.value if isinstance(later, ast.Assign) and len(later.targets) == 1 and isinstance(later.targets[0], ast.Name) and later.targets[0].id == nm else later) if isinstance(y, ast.Name) and y.id == nm and isinstance(y.ctx, ast.Load))
                if isinstance(later, ast.Assign) and any(isinstance(t, ast.Name) and t.id == nm for t in later.targets):
                    break
            if _is_ref(st.value) or _is_literal(st.value) or (uses == 1 and not any(isinstance(y, (ast.Lambda, ast.Yield, ast.Await, ast.NamedExpr)) for y in ast.walk(st.value))):
                env[nm] = st.value
                continue
            env.pop(nm, None)
        elif any(isinstance(y, ast.Name) and not isinstance(y.ctx, ast.Load) and y.id in env for y in ast.walk(st)):
            return stmts
        out.append(st)
    return out


def _unroll_table_loops(scope, module_tables, count):
    """scope: a FunctionDef or the Module"""
    local_tables = _once_bound_literals(scope.body, scope) if not isinstance(scope, ast.Module) else {}

    def rows_of(it):
        if isinstance(it, (ast.Name, ast.Attribute)):
            t = _resolve_table(it, local_tables)
            if t is None:
                return None
            rows, isdict = t
            return [r.elts[0] for r in rows] if isdict else rows
        if isinstance(it, (ast.Tuple, ast.List)) and any(isinstance(x, ast.Starred) for x in it.elts):
            # (*TABLE, "extra"): the members of the table followed by the other elements
            out_ = []
            for x in it.elts:
                if isinstance(x, ast.Starred):
                    sub = rows_of(x.value)
                    if sub is None:
                        return None
                    out_ += sub
                elif _is_row(x):
                    out_.append(x)
                else:
                    return None
            return out_
        if isinstance(it, ast.Call) and isinstance(it.func, ast.Attribute) and it.func.attr in ("items", "keys", "values") and not it.args and isinstance(it.func.value, ast.Name):
            t = local_tables.get(it.func.value.id) or module_tables.get(it.func.value.id)
            if t is None or not t[1]:
                return None
            rows = t[0]
            return rows if it.func.attr == "items" else [r.elts[0 if it.func.attr == "keys" else 1] for r in rows]
        if isinstance(it, ast.Call) and isinstance(it.func, ast.Attribute) and it.func.attr == "items" and not it.args and isinstance(it.func.value, ast.Dict):
            return _literal_table(it.func.value)
        return _literal_table(it)

    def target_names(t):
        if isinstance(t, ast.Name):
            return [t.id]
        if isinstance(t, (ast.Tuple, ast.List)) and all(isinstance(e, ast.Name) for e in t.elts):
            return [e.id for e in t.elts]
        return None

    def simple(st):
        return isinstance(st, (ast.Assign, ast.Expr, ast.AugAssign, ast.AnnAssign, ast.Pass)) or (isinstance(st, ast.If) and all(simple(x) for x in st.body + st.orelse))

    parents = {}
    for par in ast.walk(scope):
        for ch in ast.iter_child_nodes(par):
            parents[id(ch)] = par

    # loads of every name outside its loop make unrolling inexact (the loop variable's last value would be read)
    def block(stmts):
        out = []
        for st in stmts:
            if isinstance(st, (ast.FunctionDef, ast.AsyncFunctionDef, ast.ClassDef)):
                out.append(st)
                continue
            for fld in ("body", "orelse", "finalbody"):
                blk = getattr(st, fld, None)
                if isinstance(blk, list) and blk and isinstance(blk[0], ast.stmt):
                    setattr(st, fld, block(blk))
            for h in getattr(st, "handlers", []) or []:
                h.body = block(h.body)
            if isinstance(st, ast.For) and not st.orelse:
                names = target_names(st.target)
                rows = rows_of(st.iter) if names else None
                if rows is not None and 0 < len(rows) <= 80 and all(simple(x) for x in st.body):
                    inner_scopes = [x for b in st.body for x in ast.walk(b) if isinstance(x, (ast.Lambda, ast.FunctionDef, ast.GeneratorExp))]
                    captured = any(isinstance(y, ast.Name) and y.id in names for x in inner_scopes for y in ast.walk(x))
                    rebinds = any(isinstance(y, ast.Name) and y.id in names and not isinstance(y.ctx, ast.Load) for b in st.body for y in ast.walk(b))
                    inside = {id(y) for y in ast.walk(st)}
                    used_outside = any(isinstance(y, ast.Name) and y.id in names and id(y) not in inside and not _rebound_by_own_loop(y, scope, parents) for y in ast.walk(scope))
                    shapes_ok = all((len(names) == 1) or (isinstance(r, (ast.Tuple, ast.List)) and len(r.elts) == len(names)) for r in rows)
                    if not captured and not rebinds and not used_outside and shapes_ok:
                        # names assigned in the body and read nowhere outside the loop are per-iteration temporaries
                        assigned = {y.id for b in st.body for y in ast.walk(b) if isinstance(y, ast.Name) and not isinstance(y.ctx, ast.Load)}
                        temps = {t for t in assigned if not any(isinstance(y, ast.Name) and y.id == t and id(y) not in inside for y in ast.walk(scope))}
                        for r in rows:
                            mapping = {names[0]: r} if len(names) == 1 else dict(zip(names, r.elts))
                            it_stmts = []
                            for b in st.body:
                                nb = _Subst(mapping).visit(_copy(b))
                                ast.copy_location(nb, st)
                                it_stmts.append(nb)
                            out.extend(_simplify_iteration(it_stmts, temps))
                        count["K8"] = count.get("K8", 0) + 1
                        continue
            out.append(st)
        return out

    scope.body = block(scope.body)


def _rebound_by_own_loop(name_node, scope, parents):
    """is this use of a name inside the body of another loop / comprehension that binds the same name itself?"""
    cur = name_node
    while id(cur) in parents:
        par = parents[id(cur)]
        if isinstance(par, ast.For) and cur in par.body and any(isinstance(t, ast.Name) and t.id == name_node.id for t in ast.walk(par.target)):
            return True
        if isinstance(par, (ast.ListComp, ast.SetComp, ast.DictComp, ast.GeneratorExp)) and any(isinstance(t, ast.Name) and t.id == name_node.id for g in par.generators for t in ast.walk(g.target)):
            return True
        if isinstance(par, ast.For) and any(x is cur for x in ast.walk(par.target)):
            return True  # the binding occurrence itself
        if isinstance(par, (ast.FunctionDef, ast.AsyncFunctionDef, ast.Lambda)) and par is not scope and any(a.arg == name_node.id for a in ast.walk(par.args) if isinstance(a, ast.arg)):
            return True  # a nested function's own parameter of the same name
        cur = par
    return False


def _const_truth(e):
    """truth value of a test that is decided by literals alone, else None"""
    if isinstance(e, ast.Constant):
        return bool(e.value)
    if isinstance(e, ast.Compare) and len(e.ops) == 1 and isinstance(e.ops[0], (ast.In, ast.NotIn)) and isinstance(e.left, ast.Constant):
        t = _resolve_table(e.comparators[0]) if isinstance(e.comparators[0], (ast.Name, ast.Attribute)) else ((list(e.comparators[0].elts), False) if isinstance(e.comparators[0], (ast.Tuple, ast.List, ast.Set)) and all(isinstance(x, ast.Constant) for x in e.comparators[0].elts) else None)
        if t is not None:
            rows, isdict = t
            keys = [r.elts[0] if isdict else r for r in rows]
            if all(isinstance(k, ast.Constant) for k in keys):
                member = e.left.value in [k.value for k in keys]
                return member if isinstance(e.ops[0], ast.In) else not member
        return None
    if isinstance(e, ast.UnaryOp) and isinstance(e.op, ast.Not):
        v = _const_truth(e.operand)
        return None if v is None else not v
    if isinstance(e, ast.Compare) and len(e.ops) == 1 and isinstance(e.ops[0], (ast.Is, ast.IsNot)) and isinstance(e.comparators[0], ast.Constant) and e.comparators[0].value is None and isinstance(e.left, ast.Name) and e.left.id in _CTX.get("nonnull", ()):
        return isinstance(e.ops[0], ast.IsNot)  # a def / class / partial of this module is not None
    if isinstance(e, ast.Compare) and len(e.ops) == 1 and isinstance(e.left, ast.Constant) and isinstance(e.comparators[0], ast.Constant):
        a, b, op = e.left.value, e.comparators[0].value, e.ops[0]
        if isinstance(op, (ast.Is, ast.IsNot)) and (a is None or b is None or isinstance(a, bool) or isinstance(b, bool)):
            return (a is b) if isinstance(op, ast.Is) else (a is not b)
        if isinstance(op, (ast.Eq, ast.NotEq)) and type(a) is type(b):
            return (a == b) if isinstance(op, ast.Eq) else (a != b)
        return None
    if isinstance(e, ast.BoolOp):
        vals = [_const_truth(v) for v in e.values]
        if any(v is None for v in vals):
            return None
        return all(vals) if isinstance(e.op, ast.And) else any(vals)
    return None


def _split_tuple_assignments(tree, count):
    def block(stmts):
        out = []
        for st in stmts:
            if not isinstance(st, (ast.FunctionDef, ast.AsyncFunctionDef, ast.ClassDef)) or True:
                for fld in ("body", "orelse", "finalbody"):
                    blk = getattr(st, fld, None)
                    if isinstance(blk, list) and blk and isinstance(blk[0], ast.stmt):
                        setattr(st, fld, block(blk))
                for h in getattr(st, "handlers", []) or []:
                    h.body = block(h.body)
            if (
                isinstance(st, ast.Assign)
                and len(st.targets) == 1
                and isinstance(st.targets[0], (ast.Tuple, ast.List))
                and isinstance(st.value, (ast.Tuple, ast.List))
                and len(st.targets[0].elts) == len(st.value.elts)
                and all(isinstance(t, ast.Name) for t in st.targets[0].elts)
                and not any(isinstance(v, ast.Starred) for v in st.value.elts)
            ):
                tn = {t.id for t in st.targets[0].elts}
                if len(tn) == len(st.targets[0].elts) and not any(isinstance(y, ast.Name) and y.id in tn for v in st.value.elts for y in ast.walk(v)) and not any(isinstance(y, (ast.Lambda, ast.NamedExpr, ast.Yield, ast.Await)) for v in st.value.elts for y in ast.walk(v)):
                    for t, v in zip(st.targets[0].elts, st.value.elts):
                        out.append(ast.copy_location(ast.Assign(targets=[t], value=v), st))
                    count["K12"] = count.get("K12", 0) + 1
                    continue
            out.append(st)
        return out

    tree.body = block(tree.body)


def _inline_context_managers(tree, count):
    """K17: `with self.m(..) as x: BODY` where m is a `@contextmanager` method of the same class whose body has exactly one
    `yield E` (as a statement of its own, not inside a loop or a try that catches) becomes m's statements with the yield
    replaced by `x = E; BODY`.  A `return V` at the end of BODY leaves the with-block normally, so the statements behind
    the yield still run before the function returns: `__ret = V; <rest of m>; return __ret`.  Returns elsewhere in BODY,
    parameters of m that are re-bound, or names of m that the caller also uses make the rewrite inexact - then nothing is
    done."""
    for cls in [c for c in ast.walk(tree) if isinstance(c, ast.ClassDef)]:
        cms = {}
        for st in cls.body:
            if isinstance(st, ast.FunctionDef) and any((isinstance(d, ast.Name) and d.id == "contextmanager") or (isinstance(d, ast.Attribute) and d.attr == "contextmanager") for d in st.decorator_list) and len(st.decorator_list) == 1:
                ys = [y for y in ast.walk(st) if isinstance(y, (ast.Yield, ast.YieldFrom))]
                if len(ys) == 1 and isinstance(ys[0], ast.Yield) and not st.args.vararg and not st.args.kwarg and not st.args.kwonlyargs and not st.args.defaults and not any(isinstance(y, ast.Return) for y in ast.walk(st)):
                    cms[st.name] = (st, ys[0])
        if not cms:
            continue
        for fn in [f for f in cls.body if isinstance(f, ast.FunctionDef) and f.name not in cms and f.args.args]:
            selfname = fn.args.args[0].arg

            def yield_path(stmts, y):
                """the statement list that holds `yield` as an expression statement, reached only through with-blocks and
                try/finally (no handlers, no loops, no conditionals)"""
                for i, st in enumerate(stmts):
                    if isinstance(st, ast.Expr) and st.value is y:
                        return stmts, i
                    if isinstance(st, ast.With) or (isinstance(st, ast.Try) and not st.handlers and not st.orelse):
                        r = yield_path(st.body, y)
                        if r is not None:
                            return r
                return None

            def block(stmts):
                out = []
                for st in stmts:
                    for fld in ("body", "orelse", "finalbody"):
                        blk = getattr(st, fld, None)
                        if isinstance(blk, list) and blk and isinstance(blk[0], ast.stmt) and not isinstance(st, (ast.FunctionDef, ast.ClassDef)):
                            setattr(st, fld, block(blk))
                    if isinstance(st, ast.With) and len(st.items) == 1 and isinstance(st.items[0].context_expr, ast.Call):
                        c = st.items[0].context_expr
                        tgt = st.items[0].optional_vars
                        if isinstance(c.func, ast.Attribute) and isinstance(c.func.value, ast.Name) and c.func.value.id == selfname and c.func.attr in cms and not c.keywords and not any(isinstance(a, ast.Starred) for a in c.args) and (tgt is None or isinstance(tgt, ast.Name)):
                            m, y = cms[c.func.attr]
                            params = [a.arg for a in m.args.args]
                            if len(c.args) == len(params) - 1 and all(_is_ref(a) or _is_literal(a) for a in c.args):
                                m_stores = {x.id for x in ast.walk(m) if isinstance(x, ast.Name) and not isinstance(x.ctx, ast.Load)}
                                fn_names = {x.id for x in ast.walk(fn) if isinstance(x, ast.Name)} | {a.arg for a in ast.walk(fn.args) if isinstance(a, ast.arg)}
                                body = st.body
                                rets = [r for b in body for r in ast.walk(b) if isinstance(r, ast.Return)]
                                tail_ret = body[-1] if isinstance(body[-1], ast.Return) else None
                                inner_defs = any(isinstance(x, (ast.FunctionDef, ast.Lambda)) for b in body for x in ast.walk(b))
                                if not (m_stores & set(params)) and not (m_stores & fn_names) and len(rets) == (1 if tail_ret is not None else 0) and not inner_defs and "__ret" not in fn_names:
                                    mapping = {params[0]: ast.Name(id=selfname, ctx=ast.Load())}
                                    mapping.update(dict(zip(params[1:], c.args)))
                                    mbody = [_Subst(mapping).visit(_copy(b)) for b in m.body if not (isinstance(b, ast.Expr) and isinstance(b.value, ast.Constant))]
                                    ycopy = [yy for b in mbody for yy in ast.walk(b) if isinstance(yy, ast.Yield)]
                                    loc = yield_path(mbody, ycopy[0]) if len(ycopy) == 1 else None
                                    if loc is not None:
                                        lst, i = loc
                                        new = []
                                        if tgt is not None:
                                            new.append(ast.copy_location(ast.Assign(targets=[ast.Name(id=tgt.id, ctx=ast.Store())], value=ycopy[0].value if ycopy[0].value is not None else ast.Constant(value=None)), st))
                                        if tail_ret is not None:
                                            new += body[:-1]
                                            new.append(ast.copy_location(ast.Assign(targets=[ast.Name(id="__ret", ctx=ast.Store())], value=tail_ret.value if tail_ret.value is not None else ast.Constant(value=None)), tail_ret))
                                        else:
                                            new += body
                                        lst[i : i + 1] = new
                                        if tail_ret is not None:
                                            mbody.append(ast.copy_location(ast.Return(value=ast.Name(id="__ret", ctx=ast.Load())), tail_ret))
                                        for nb in mbody:
                                            ast.copy_location(nb, st)
                                        count["K17"] = count.get("K17", 0) + 1
                                        out.extend(mbody)
                                        continue
                    out.append(st)
                return out

            fn.body = block(fn.body)


def _spread_keyword_dicts(fn, count):
    import keyword as _kw

    cands = {}
    for st in fn.body:
        if isinstance(st, ast.Assign) and len(st.targets) == 1 and isinstance(st.targets[0], ast.Name) and isinstance(st.value, ast.Dict):
            cands[st.targets[0].id] = st.value
    if not cands:
        return
    bad = set()
    stores = {}
    for x in ast.walk(fn):
        if isinstance(x, ast.Name) and x.id in cands and not isinstance(x.ctx, ast.Load):
            stores[x.id] = stores.get(x.id, 0) + 1
        if isinstance(x, ast.Attribute) and isinstance(x.value, ast.Name) and x.value.id in cands and x.attr not in ("items", "keys", "values", "get", "copy"):
            bad.add(x.value.id)
        if isinstance(x, ast.Subscript) and isinstance(x.value, ast.Name) and x.value.id in cands and not isinstance(x.ctx, ast.Load):
            bad.add(x.value.id)
        if isinstance(x, (ast.AugAssign,)) and isinstance(x.target, ast.Name) and x.target.id in cands:
            bad.add(x.target.id)
        if isinstance(x, (ast.Global, ast.Nonlocal)):
            bad.update(n for n in x.names if n in cands)
        if isinstance(x, ast.arg) and x.arg in cands:
            bad.add(x.arg)
    resolved = {}

    def entries(name, depth=0):
        if name in resolved:
            return resolved[name]
        if name not in cands or name in bad or stores.get(name, 0) != 1 or depth > 3:
            return None
        out = []
        d = cands[name]
        for k, v in zip(d.keys, d.values):
            if k is None:
                if not isinstance(v, ast.Name):
                    return None
                sub = entries(v.id, depth + 1)
                if sub is None:
                    return None
                out = [e for e in out if e[0] not in {s_[0] for s_ in sub}] + sub
            elif isinstance(k, ast.Constant) and isinstance(k.value, str) and k.value.isidentifier() and not _kw.iskeyword(k.value) and (_is_literal(v) or _is_ref(v)):
                out = [e for e in out if e[0] != k.value] + [(k.value, v)]
            else:
                return None
        resolved[name] = out
        return out

    class R(ast.NodeTransformer):
        def visit_Call(self, node):
            self.generic_visit(node)
            new, changed = [], False
            for k in node.keywords:
                if k.arg is None and isinstance(k.value, ast.Name):
                    es = entries(k.value.id)
                    if es is not None:
                        explicit = {q.arg for q in node.keywords if q.arg}
                        if not (explicit & {e[0] for e in es}):
                            new += [ast.copy_location(ast.keyword(arg=a, value=_copy(v)), k) for a, v in es]
                            changed = True
                            continue
                new.append(k)
            if changed:
                node.keywords = new
                count["K13"] = count.get("K13", 0) + 1
            return node

    R().visit(fn)


class _FoldTables(ast.NodeTransformer):
    """TABLE["key"] with TABLE a literal dict table and a literal key -> the value"""

    def visit_Subscript(self, node):
        self.generic_visit(node)
        if isinstance(node.ctx, ast.Load) and isinstance(node.slice, ast.Constant) and isinstance(node.value, (ast.Name, ast.Attribute)):
            t = _resolve_table(node.value)
            if t is not None and t[1]:
                for r in t[0]:
                    if isinstance(r.elts[0], ast.Constant) and r.elts[0].value == node.slice.value:
                        return ast.copy_location(_copy(r.elts[1]), node)
        return node


def _inline_local_factories(fn, count):
    helpers = {}
    stores = {}
    for x in ast.walk(fn):
        if isinstance(x, ast.Name) and not isinstance(x.ctx, ast.Load):
            stores[x.id] = stores.get(x.id, 0) + 1
    for st in fn.body:
        if isinstance(st, ast.FunctionDef) and not st.decorator_list:
            a = st.args
            if a.vararg or a.kwarg or a.posonlyargs:
                continue
            if any(isinstance(y, (ast.Yield, ast.YieldFrom, ast.Global, ast.Nonlocal, ast.Await)) for y in ast.walk(st)):
                continue
            if len(st.body) > 12:
                continue
            helpers[st.name] = None if st.name in helpers else st
    helpers = {k: v for k, v in helpers.items() if v is not None and stores.get(k, 0) == 0 and sum(1 for y in ast.walk(fn) if isinstance(y, (ast.FunctionDef, ast.ClassDef)) and y.name == k) == 1}
    if not helpers:
        return

    # names bound by the comprehensions / lambdas that enclose each call
    shadowed_at = {}

    def note(node, bound):
        for ch in ast.iter_child_nodes(node):
            b = bound
            if isinstance(ch, (ast.ListComp, ast.SetComp, ast.DictComp, ast.GeneratorExp)):
                b = bound | {t.id for g in ch.generators for t in ast.walk(g.target) if isinstance(t, ast.Name)}
            elif isinstance(ch, ast.Lambda):
                b = bound | {a_.arg for a_ in ast.walk(ch.args) if isinstance(a_, ast.arg)}
            if isinstance(ch, ast.Call) and b:
                shadowed_at[id(ch)] = b
            note(ch, b)

    note(fn, set())

    def expand(call):
        h = helpers.get(call.func.id) if isinstance(call.func, ast.Name) else None
        if h is None or any(isinstance(x, ast.Starred) for x in call.args) or any(k.arg is None for k in call.keywords):
            return None
        a = h.args
        params = [x.arg for x in a.args]
        mapping = {}
        if len(call.args) > len(params):
            return None
        for i, x in enumerate(call.args):
            mapping[params[i]] = x
        for k in call.keywords:
            if k.arg in mapping or k.arg not in params + [x.arg for x in a.kwonlyargs]:
                return None
            mapping[k.arg] = k.value
        defaults = dict(zip(params[len(params) - len(a.defaults) :], a.defaults))
        for k_, d in zip(a.kwonlyargs, a.kw_defaults):
            if d is not None:
                defaults[k_.arg] = d
        for q in params + [x.arg for x in a.kwonlyargs]:
            if q not in mapping:
                if q not in defaults:
                    return None
                mapping[q] = defaults[q]
        if not all(_is_literal(v) or _is_ref(v) for v in mapping.values()):
            return None
        # no variable capture: names used by the arguments must not be bound inside the factory
        arg_names = {y.id for v in mapping.values() for y in ast.walk(v) if isinstance(y, ast.Name)}
        bound_inside = {y.id for y in ast.walk(h) if isinstance(y, ast.Name) and not isinstance(y.ctx, ast.Load)} | {y.arg for y in ast.walk(h) if isinstance(y, ast.arg) and y.arg not in mapping}
        if arg_names & bound_inside:
            return None
        # ... and the free names of the factory must mean the same at the call site (no comprehension / lambda around
        # the call binds one of them)
        free = {y.id for y in ast.walk(h) if isinstance(y, ast.Name) and isinstance(y.ctx, ast.Load)} - set(mapping) - bound_inside
        if free & shadowed_at.get(id(call), set()):
            return None
        # parameters must not be rebound, and nested scopes must not shadow them
        for y in ast.walk(h):
            if isinstance(y, ast.Name) and y.id in mapping and not isinstance(y.ctx, ast.Load):
                return None
            if isinstance(y, ast.arg) and y.arg in mapping and y not in a.args and y not in a.kwonlyargs:
                return None
            if isinstance(y, ast.comprehension) and any(isinstance(t, ast.Name) and t.id in mapping for t in ast.walk(y.target)):
                return None
        body = [_Subst(mapping).visit(_copy(st)) for st in h.body]
        # fold constant branches
        flat = []

        def fold(stmts):
            for st in stmts:
                if isinstance(st, ast.If):
                    v = _const_truth(st.test)
                    if v is None:
                        return False
                    if not fold(st.body if v else st.orelse):
                        return False
                elif isinstance(st, ast.Expr) and isinstance(st.value, ast.Constant):
                    continue
                elif isinstance(st, ast.Pass):
                    continue
                else:
                    flat.append(st)
                if flat and isinstance(flat[-1], ast.Return):
                    return True
            return True

        if not fold(body) or not flat or not isinstance(flat[-1], ast.Return) or flat[-1].value is None:
            return None
        env = {}
        rebound = False
        for st in flat[:-1]:
            if not (isinstance(st, ast.Assign) and len(st.targets) == 1 and isinstance(st.targets[0], ast.Name)):
                return None
            nm = st.targets[0].id
            if nm in mapping:
                return None
            rebound = rebound or nm in env
            # straight-line code: a later binding of the same name sees the earlier one (`f = np.add; f = wrap(f)`)
            env[nm] = _FoldTables().visit(_Subst(env).visit(st.value) if env else st.value)
        result = _FoldTables().visit(flat[-1].value)
        if env:
            uses = {}
            for y in ast.walk(result):
                if isinstance(y, ast.Name) and isinstance(y.ctx, ast.Load) and y.id in env:
                    uses[y.id] = uses.get(y.id, 0) + 1
            if any(n_ > 1 and not (_is_ref(env[k_]) or _is_literal(env[k_])) for k_, n_ in uses.items()):
                return None
            # a local that is computed but not used would lose its evaluation: only references / lambdas may be dropped
            if any(k_ not in uses and not (_is_ref(v) or _is_literal(v) or isinstance(v, ast.Lambda)) for k_, v in env.items()):
                return None
            result = _Subst(env).visit(result)
        return result

    class R(ast.NodeTransformer):
        def __init__(self):
            self.depth = 0

        def visit_FunctionDef(self, node):
            if node is fn:
                self.generic_visit(node)
            return node  # nested scopes keep their calls (evaluated at another time)

        visit_AsyncFunctionDef = visit_FunctionDef

        def visit_Lambda(self, node):
            return node

        def visit_Call(self, node):
            self.generic_visit(node)
            for _ in range(3):
                if not (isinstance(node, ast.Call) and isinstance(node.func, ast.Name) and node.func.id in helpers):
                    break
                new = expand(node)
                if new is None:
                    break
                count["K11"] = count.get("K11", 0) + 1
                node = ast.copy_location(new, node)
                for y in ast.walk(node):
                    if not hasattr(y, "lineno") and isinstance(y, (ast.expr, ast.stmt)):
                        ast.copy_location(y, new)
            return node

    R().visit(fn)


_IDENT = __import__("re").compile(r"^[A-Za-z_][A-Za-z0-9_]*$")


def _plain_attr_name(e):
    return isinstance(e, ast.Constant) and isinstance(e.value, str) and _IDENT.match(e.value) and not (e.value.startswith("__") and not e.value.endswith("__")) and not __import__("keyword").iskeyword(e.value)


class _AttrCalls(ast.NodeTransformer):
    def __init__(self, count):
        self.count = count

    def visit_Expr(self, node):
        self.generic_visit(node)
        c = node.value
        if isinstance(c, ast.Call) and isinstance(c.func, ast.Name) and c.func.id == "setattr" and len(c.args) == 3 and not c.keywords and _plain_attr_name(c.args[1]) and not any(isinstance(a, ast.Starred) for a in c.args):
            self.count["K9"] = self.count.get("K9", 0) + 1
            tgt = ast.Attribute(value=c.args[0], attr=c.args[1].value, ctx=ast.Store())
            ast.copy_location(tgt, c)
            return ast.copy_location(ast.Assign(targets=[tgt], value=c.args[2]), node)
        return node

    def visit_Call(self, node):
        self.generic_visit(node)
        if isinstance(node.func, ast.Name) and node.func.id == "getattr" and len(node.args) == 2 and not node.keywords and _plain_attr_name(node.args[1]) and not any(isinstance(a, ast.Starred) for a in node.args):
            self.count["K10"] = self.count.get("K10", 0) + 1
            return ast.copy_location(ast.Attribute(value=node.args[0], attr=node.args[1].value, ctx=ast.Load()), node)
        return node


def _shadows_builtin(tree, name):
    return any((isinstance(x, ast.Name) and x.id == name and not isinstance(x.ctx, ast.Load)) or (isinstance(x, (ast.FunctionDef, ast.ClassDef)) and x.name == name) or (isinstance(x, ast.arg) and x.arg == name) or (isinstance(x, ast.alias) and (x.asname or x.name) == name) for x in ast.walk(tree))


def literal_tables(tree):
    """module-level literal tables of a parsed module (for the cross-module table of the loader)"""
    _CTX["records"] = _record_classes(tree)
    return _once_bound_literals(tree.body, tree)


def module_defs(tree):
    """names a module binds exactly once, to a def or a class (for `X is not None` on an imported function)"""
    st_ = _store_counts(tree)
    return {x.name for x in tree.body if isinstance(x, (ast.FunctionDef, ast.AsyncFunctionDef, ast.ClassDef)) and st_.get(x.name, 0) == 2}


def canonicalise(tree, global_tables=None, global_defs=None, module_name=None, is_package=False):
    """rewrite `tree` in place; returns {rewrite: number of applications}"""
    _CTX["name"] = (module_name, is_package)
    _CTX["global"] = global_tables or {}
    _CTX["global_defs"] = global_defs or {}
    _CTX["module"] = {}
    ex = _Exprs()
    ex.visit(tree)
    count = dict(ex.count)
    count["K1"] = 0
    _split_tuple_assignments(tree, count)
    _inline_module_constants(tree, count)
    _inline_module_aliases(tree, count)
    _CTX["records"] = _record_classes(tree)
    st_ = _store_counts(tree)
    _CTX["nonnull"] = {x.name for x in tree.body if isinstance(x, (ast.FunctionDef, ast.ClassDef)) and st_.get(x.name, 0) == 2}
    # imported from a module of the package in which the name is a def / class
    for x in tree.body:
        if isinstance(x, ast.ImportFrom) and x.module:
            last = x.module.split(".")[-1]
            srcs = [d for mn, d in _CTX["global_defs"].items() if mn.split(".")[-1] == last]
            mname, ispkg = _CTX.get("name", (None, False))
            if mname is not None:
                # the imported module by its full name (relative imports resolved against this module's package)
                if x.level:
                    base = mname.split(".")
                    base = base[: len(base) - (x.level - (1 if ispkg else 0))] if (x.level - (1 if ispkg else 0)) > 0 else base
                    full = ".".join(base + [x.module])
                else:
                    full = x.module
                srcs = [_CTX["global_defs"][full]] if full in _CTX["global_defs"] else []
            for a in x.names:
                if srcs and all(a.name in d for d in srcs) and st_.get(a.asname or a.name, 0) == 2:
                    _CTX["nonnull"].add(a.asname or a.name)
    _CTX["nonnull"] |= {x.targets[0].id for x in tree.body if isinstance(x, ast.Assign) and len(x.targets) == 1 and isinstance(x.targets[0], ast.Name) and st_.get(x.targets[0].id, 0) == 1 and isinstance(x.value, ast.Call) and _is_partial(tree, x.value.func)}
    # K8: table loops (module constants are visible in every function of the module)
    module_tables = _once_bound_literals(tree.body, tree)
    _CTX["module"] = module_tables
    for fn in [n for n in ast.walk(tree) if isinstance(n, (ast.FunctionDef, ast.AsyncFunctionDef))]:
        _unroll_table_loops(fn, module_tables, count)
    if count.get("K8"):
        _Beta(count).visit(tree)
        _inline_module_aliases(tree, count)  # calls through partial aliases that the unrolling exposed
    # K13: keyword dictionaries written out
    for fn in [n for n in ast.walk(tree) if isinstance(n, (ast.FunctionDef, ast.AsyncFunctionDef))]:
        _spread_keyword_dicts(fn, count)
    # K11: calls of small local factories
    for fn in [n for n in ast.walk(tree) if isinstance(n, (ast.FunctionDef, ast.AsyncFunctionDef))]:
        _inline_local_factories(fn, count)
    _inline_context_managers(tree, count)
    # K9 / K10 (only where setattr / getattr are the builtins)
    if not _shadows_builtin(tree, "setattr") and not _shadows_builtin(tree, "getattr"):
        _AttrCalls(count).visit(tree)
    # innermost functions first, so that an inlined expression is complete when its enclosing function is looked at
    fns = [n for n in ast.walk(tree) if isinstance(n, (ast.FunctionDef, ast.AsyncFunctionDef))]
    for fn in reversed(fns):
        _loops_to_comprehensions(fn, count)
        _inline_temps(fn, count)
    ast.fix_missing_locations(tree)
    return count
