"""Inference of set-typed expressions (hash-iteration-order sources) and enumeration of the
places where such a value is consumed in an order-sensitive way.

Flow-insensitive per function (a name is "may be a set" if any assignment to it is set-typed),
with project-wide summaries for functions / properties that return sets.
"""

from __future__ import annotations

import ast

from .core import attr_chain, enclosing, enclosing_function, norm, parents, resolve_callee, src, walk_no_nested

SET_METHODS_RETURNING_SET = {"union", "intersection", "difference", "symmetric_difference", "copy"}
SET_CTORS = {"set", "frozenset"}
ORDER_FREE_CALLS = {"len", "any", "all", "min", "max", "sum", "set", "frozenset", "bool", "isinstance", "type", "id", "hash", "print", "repr"}
ORDERED_CTORS = {"list", "tuple", "enumerate", "zip", "iter", "reversed", "map", "filter", "dict"}


class SetTypes:
    def __init__(self, project):
        self.p = project
        self.returns_set = {}  # Func -> bool (summary)
        self.dict_of_sets = {}  # id(func node) -> names that are defaultdict(set)
        self._names_cache = {}
        self._summaries()

    # ------------------------------------------------------------------ summaries
    def _summaries(self):
        changed = True
        it = 0
        while changed and it < 5:
            changed = False
            it += 1
            self._names_cache.clear()
            for f in self.p.funcs.values():
                rets = [r.value for r in walk_no_nested(f.node) if isinstance(r, ast.Return) and r.value is not None]
                val = bool(rets) and any(self.is_set(r, f) for r in rets)
                if self.returns_set.get(f) != val:
                    self.returns_set[f] = val
                    changed = True

    # ------------------------------------------------------------------ names
    def set_names(self, f):
        """Names in function f (and enclosing functions) that may hold a set."""
        key = id(f.node)
        if key in self._names_cache:
            return self._names_cache[key]
        names = set()
        dsets = set()
        self._names_cache[key] = names  # break recursion
        self.dict_of_sets[key] = dsets
        outer = f.parent
        if outer is not None:
            names |= self.set_names(outer)
            dsets |= self.dict_of_sets.get(id(outer.node), set())
        for _ in range(3):
            before = len(names) + len(dsets)
            for n in walk_no_nested(f.node):
                if isinstance(n, ast.Assign):
                    if self._is_dict_of_sets(n.value):
                        for t in n.targets:
                            if isinstance(t, ast.Name):
                                dsets.add(t.id)
                    if self.is_set(n.value, f):
                        for t in n.targets:
                            if isinstance(t, ast.Name):
                                names.add(t.id)
                elif isinstance(n, ast.AugAssign) and isinstance(n.target, ast.Name) and isinstance(n.op, (ast.BitOr, ast.BitAnd, ast.Sub, ast.BitXor)) and self.is_set(n.value, f):
                    names.add(n.target.id)
                elif isinstance(n, ast.AnnAssign) and n.value is not None and isinstance(n.target, ast.Name) and self.is_set(n.value, f):
                    names.add(n.target.id)
                elif isinstance(n, (ast.For, ast.comprehension)):
                    # iterating the values of a dict of sets: `for k, s in d.items()` / `for s in d.values()`
                    it = n.iter
                    if isinstance(it, ast.Call) and isinstance(it.func, ast.Attribute) and isinstance(it.func.value, ast.Name) and it.func.value.id in dsets:
                        tgt = n.target
                        if it.func.attr == "values" and isinstance(tgt, ast.Name):
                            names.add(tgt.id)
                        elif it.func.attr == "items" and isinstance(tgt, ast.Tuple) and len(tgt.elts) == 2 and isinstance(tgt.elts[1], ast.Name):
                            names.add(tgt.elts[1].id)
            if len(names) + len(dsets) == before:
                break
        return names

    @staticmethod
    def _is_dict_of_sets(v):
        return isinstance(v, ast.Call) and isinstance(v.func, ast.Name) and v.func.id == "defaultdict" and v.args and isinstance(v.args[0], ast.Name) and v.args[0].id in ("set", "frozenset")

    # ------------------------------------------------------------------ expressions
    def is_set(self, e, f):
        if isinstance(e, (ast.Set, ast.SetComp)):
            return True
        if isinstance(e, ast.Name):
            return e.id in self.set_names(f) and isinstance(e.ctx, ast.Load) if f is not None else False
        if isinstance(e, ast.Call):
            fn = e.func
            if isinstance(fn, ast.Name) and fn.id in SET_CTORS and not self.p.is_local(f.node, fn.id):
                return True
            if isinstance(fn, ast.Attribute) and fn.attr in SET_METHODS_RETURNING_SET and self.is_set(fn.value, f):
                return True
            r = resolve_callee(self.p, e, f.module) if f is not None else None
            if r and r[0] == "func" and self.returns_set.get(r[1]):
                return True
            return False
        if isinstance(e, ast.BinOp) and isinstance(e.op, (ast.BitOr, ast.BitAnd, ast.Sub, ast.BitXor)):
            return self.is_set(e.left, f) or self.is_set(e.right, f)
        if isinstance(e, ast.IfExp):
            return self.is_set(e.body, f) or self.is_set(e.orelse, f)
        if isinstance(e, ast.Subscript) and isinstance(e.value, ast.Name) and f is not None:
            self.set_names(f)
            return e.value.id in self.dict_of_sets.get(id(f.node), set())
        if isinstance(e, ast.Attribute) and f is not None:
            # property returning a set
            for g, val in self.returns_set.items():
                if val and g.cls is not None and g.name == e.attr and any(isinstance(d, ast.Name) and d.id == "property" for d in g.node.decorator_list):
                    return True
        return False

    # ------------------------------------------------------------------ consumption sites
    def consumptions(self, f):
        """Order-sensitive consumptions of set-typed values inside f:
        yields (kind, set_expr, consumer_node)."""
        out = []
        for n in walk_no_nested(f.node):
            if isinstance(n, (ast.For, ast.AsyncFor)) and self.is_set(n.iter, f):
                out.append(("for", n.iter, n))
            elif isinstance(n, (ast.ListComp, ast.GeneratorExp, ast.DictComp, ast.SetComp)):
                for g in n.generators:
                    if self.is_set(g.iter, f):
                        kind = "setcomp" if isinstance(n, ast.SetComp) else ("dictcomp" if isinstance(n, ast.DictComp) else ("listcomp" if isinstance(n, ast.ListComp) else "genexp"))
                        out.append((kind, g.iter, n))
            elif isinstance(n, ast.Call):
                fn = n.func
                if isinstance(fn, ast.Name) and fn.id in ORDERED_CTORS | {"sorted", "next"} and not self.p.is_local(f.node, fn.id):
                    for a in n.args:
                        if self.is_set(a, f):
                            out.append((fn.id, a, n))
                elif isinstance(fn, ast.Name) and fn.id in ("max", "min") and any(k.arg == "key" for k in n.keywords) and n.args and self.is_set(n.args[0], f) and not self.p.is_local(f.node, fn.id):
                    # with a key function several elements can be equally good: the first one in iteration order wins
                    out.append((fn.id + "(key=)", n.args[0], n))
                elif isinstance(fn, ast.Attribute) and fn.attr == "pop" and not n.args and self.is_set(fn.value, f):
                    out.append(("pop", fn.value, n))
                elif isinstance(fn, ast.Attribute) and fn.attr == "join" and n.args and self.is_set(n.args[0], f):
                    out.append(("join", n.args[0], n))
                elif isinstance(fn, ast.Attribute) and fn.attr in ("extend",) and n.args and self.is_set(n.args[0], f):
                    out.append(("extend", n.args[0], n))
                else:
                    # a set handed to numpy-like array constructors is ordered consumption too
                    if isinstance(fn, ast.Attribute) and fn.attr in ("asarray", "array", "stack", "concatenate"):
                        for a in n.args:
                            if self.is_set(a, f):
                                out.append((fn.attr, a, n))
            elif isinstance(n, ast.Starred) and self.is_set(n.value, f):
                out.append(("star", n.value, n))
            elif isinstance(n, ast.Assign) and isinstance(n.targets[0], (ast.Tuple, ast.List)) and self.is_set(n.value, f):
                out.append(("unpack", n.value, n))
        return out
