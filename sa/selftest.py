"""Thorough-tier self-test: re-run a property's rules on scratch copies of /repo's current tree with
 (a) each committed seeded change that this property is recorded to catch  -> must fire,
 (b) each committed neutral refactoring                                     -> must stay silent,
 (c) each whole-package behaviour-preserving transformation of sa/mutate.py -> must stay silent.
The result is recorded in the evidence (it does not gate the exit code: on a tree that already violates the
property every variant fires).  Scratch copies live under a fresh mkdtemp outside /repo and /verif and are removed."""

from __future__ import annotations

import glob
import importlib
import json
import os
import shutil
import subprocess
import tempfile

from .core import AnalysisError, Project
from .report import VERIF, Report


def _apply(repo, patch, dest):
    shutil.copytree(os.path.join(repo, "einx"), os.path.join(dest, "einx"), ignore=shutil.ignore_patterns("__pycache__"))
    r = subprocess.run(["patch", "-p1", "-s", "--no-backup-if-mismatch", "-d", dest, "-i", patch], capture_output=True, text=True)
    return r.returncode == 0


def _run(pid, repo):
    mod = importlib.import_module(f"rules.{pid.lower()}")
    p = Project(repo)
    rep = Report(pid, "quick", repo)
    try:
        mod.run(p, rep, "quick")
        viol, known = rep.evaluate()
        return ("violation" if viol else "silent"), [f"{o.rule}:{o.key}" for o in viol][:3]
    except AnalysisError as e:
        # like check.py: a definite violation found before a later rule could not run stands
        try:
            viol, known = rep.evaluate(floors_enforced=False)
        except Exception:
            viol = []
        if viol:
            return "violation", [f"{o.rule}:{o.key}" for o in viol][:3]
        return "analysis-error", [str(e)[:120]]


def _one(args):
    pid, repo, kind, name, patch = args
    base = tempfile.mkdtemp(prefix="vself.")
    try:
        if not _apply(repo, patch, base):
            return kind, name, "n/a", ["patch does not apply to the current tree"]
        res, detail = _run(pid, base)
        return kind, name, res, detail
    finally:
        shutil.rmtree(base, ignore_errors=True)


def _mutated(args):
    pid, repo, kind = args
    from .mutate import transform

    base = tempfile.mkdtemp(prefix="vself.")
    try:
        shutil.copytree(os.path.join(repo, "einx"), os.path.join(base, "einx"), ignore=shutil.ignore_patterns("__pycache__"))
        for root, _, files in os.walk(os.path.join(base, "einx")):
            for fn in files:
                if fn.endswith(".py"):
                    path = os.path.join(root, fn)
                    src = open(path, encoding="utf-8").read()
                    try:
                        new = transform(kind, src, path)
                    except Exception:
                        continue  # the file stays as it is
                    if new != src:
                        open(path, "w", encoding="utf-8").write(new)
        res, detail = _run(pid, base)
        return "mutation", kind, res, detail
    finally:
        shutil.rmtree(base, ignore_errors=True)


def selftest(pid, repo):
    from concurrent.futures import ProcessPoolExecutor

    from .mutate import KINDS

    out = {"breaking": [], "neutral": [], "mutations": [], "fired": 0, "missed": 0, "silent_ok": 0, "false_alarms": 0, "not_applicable": 0, "mutations_silent": 0, "mutations_noisy": 0}
    jobs = []
    for meta_path in sorted(glob.glob(os.path.join(VERIF, "seeded", "*", "meta.json"))):
        meta = json.load(open(meta_path))
        if pid in meta.get("caught_by", []):
            d = os.path.dirname(meta_path)
            jobs.append((pid, repo, "breaking", os.path.basename(d), os.path.join(d, "patch.diff")))
    for patch in sorted(glob.glob(os.path.join(VERIF, "selftest", "neutral", "*.diff"))):
        jobs.append((pid, repo, "neutral", os.path.basename(patch)[:-5], patch))
    with ProcessPoolExecutor(max_workers=min(12, os.cpu_count() or 4)) as ex:
        for _, kind, res, detail in ex.map(_mutated, [(pid, repo, k) for k in KINDS]):
            out["mutations_silent" if res == "silent" else "mutations_noisy"] += 1
            if res != "silent":
                out["mutations"].append({"transformation": kind, "result": res, "detail": detail})
        for kind, name, res, detail in ex.map(_one, jobs):
            if res == "n/a":
                out["not_applicable"] += 1
                continue
            if kind == "breaking":
                out["breaking"].append({"seed": name, "result": res, "detail": detail})
                out["fired" if res == "violation" else "missed"] += 1
            else:
                if res != "silent":
                    out["neutral"].append({"variant": name, "result": res, "detail": detail})
                out["silent_ok" if res == "silent" else "false_alarms"] += 1
    return out
