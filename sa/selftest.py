"""Thorough-tier self-test: re-run a property's rules on scratch copies of /repo's current tree with
 (a) each committed seeded change that this property is recorded to catch  -> must fire,
 (b) each committed neutral refactoring                                     -> must stay silent.
The result is recorded in the evidence (it does not gate the exit code: on a tree that already violates the
property every variant fires).  Scratch copies live under a fresh mkdtemp outside /repo and /verif and are removed."""

from __future__ import annotations

import glob
import importlib
import json
import os
import shutil
import subprocess
import tempfile

from .core import AnalysisError, Project
from .report import VERIF, Report


def _apply(repo, patch, dest):
    shutil.copytree(os.path.join(repo, "einx"), os.path.join(dest, "einx"), ignore=shutil.ignore_patterns("__pycache__"))
    r = subprocess.run(["patch", "-p1", "-s", "--no-backup-if-mismatch", "-d", dest, "-i", patch], capture_output=True, text=True)
    return r.returncode == 0


def _run(pid, repo):
    mod = importlib.import_module(f"rules.{pid.lower()}")
    p = Project(repo)
    rep = Report(pid, "quick", repo)
    try:
        mod.run(p, rep, "quick")
        viol, known = rep.evaluate()
        return ("violation" if viol else "silent"), [f"{o.rule}:{o.key}" for o in viol][:3]
    except AnalysisError as e:
        return "analysis-error", [str(e)[:120]]


def selftest(pid, repo):
    out = {"breaking": [], "neutral": [], "fired": 0, "missed": 0, "silent_ok": 0, "false_alarms": 0, "not_applicable": 0}
    base = tempfile.mkdtemp(prefix="vself.")
    try:
        for meta_path in sorted(glob.glob(os.path.join(VERIF, "seeded", "*", "meta.json"))):
            meta = json.load(open(meta_path))
            if pid not in meta.get("caught_by", []):
                continue
            d = os.path.dirname(meta_path)
            dest = os.path.join(base, os.path.basename(d))
            os.makedirs(dest)
            if not _apply(repo, os.path.join(d, "patch.diff"), dest):
                out["not_applicable"] += 1
                out["breaking"].append({"seed": os.path.basename(d), "result": "patch does not apply to the current tree"})
                shutil.rmtree(dest, ignore_errors=True)
                continue
            res, detail = _run(pid, dest)
            out["breaking"].append({"seed": os.path.basename(d), "result": res, "detail": detail})
            out["fired" if res == "violation" else "missed"] += 1
            shutil.rmtree(dest, ignore_errors=True)
        for patch in sorted(glob.glob(os.path.join(VERIF, "selftest", "neutral", "*.diff"))):
            name = os.path.basename(patch)[:-5]
            dest = os.path.join(base, "n_" + name)
            os.makedirs(dest)
            if not _apply(repo, patch, dest):
                out["not_applicable"] += 1
                shutil.rmtree(dest, ignore_errors=True)
                continue
            res, detail = _run(pid, dest)
            out["neutral"].append({"variant": name, "result": res, "detail": detail})
            out["silent_ok" if res == "silent" else "false_alarms"] += 1
            shutil.rmtree(dest, ignore_errors=True)
    finally:
        shutil.rmtree(base, ignore_errors=True)
    return out
