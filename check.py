#!/venv/bin/python
"""Driver: ./check <property id> [quick|thorough] [--repo PATH] [--replay FILE] [--evidence-dir DIR]

exit 0 = every structural obligation of the property discharged (KNOWN-FINDING lines possible)
exit 1 = at least one unlisted violation (VIOLATION property=<id> replay=<path>)
exit 2 = analysis error: no verdict (anchor vanished, idiom not recognised, floor not met, crash)
"""
import importlib
import json
import os
import sys
import traceback

HERE = os.path.dirname(os.path.abspath(__file__))
sys.path.insert(0, HERE)
sys.dont_write_bytecode = True


def main(argv):
    args = [a for a in argv if not a.startswith("--")]
    opts = {}
    it = iter(argv)
    for a in it:
        if a.startswith("--"):
            if "=" in a:
                k, v = a[2:].split("=", 1)
            else:
                k, v = a[2:], next(it, None)
            opts[k] = v
    if not args:
        print(__doc__)
        return 2
    pid = args[0]
    tier = args[1] if len(args) > 1 else os.environ.get("VERIF_TIER", "quick")
    if tier not in ("quick", "thorough"):
        tier = "quick"
    repo = opts.get("repo") or os.environ.get("VERIF_REPO") or "/repo"
    evidence_dir = opts.get("evidence-dir") or os.path.join(HERE, "evidence")
    from sa.core import AnalysisError, Project
    from sa.report import Report

    try:
        mod = importlib.import_module(f"rules.{pid.lower()}")
    except ModuleNotFoundError:
        print(f"ANALYSIS-ERROR property={pid}: no rules module rules/{pid.lower()}.py")
        return 2
    report = None
    only = None
    try:
        project = Project(repo)
        report = Report(pid, tier, repo)
        report.analysed = {"files": len(project.modules), "functions": len(project.funcs), "classes": len(project.classes)}
        only = None
        if opts.get("replay"):
            with open(opts["replay"]) as f:
                only = json.load(f)
        mod.run(project, report, tier)
        if tier == "thorough" and only is None:
            from sa.bytecheck import crosscheck
            from sa.selftest import selftest

            report.info["engine_crosscheck"] = crosscheck(project)
            report.info["selftest"] = selftest(pid, repo)
        if only is not None:
            hits = [o for o in report.obligations if o.rule == only["rule"] and o.key == only["key"]]
            if not hits:
                print(f"replay: obligation {only['rule']} {only['key']} no longer exists on this tree")
                return 0
            for o in hits:
                print(f"replay: {o.rule} {o.key} at {o.site}: {o.status} {o.detail}")
            bad = [o for o in hits if o.status == "violation"]
            if bad:
                print(f"VIOLATION property={pid} replay={opts['replay']}")
                return 1
            return 0
        return report.finish(evidence_dir)
    except AnalysisError as e:
        # a rule that ran before already found a definite violation: that verdict stands (the part of the analysis
        # that could not run is reported next to it); otherwise there is no verdict
        try:
            viol, _known = report.evaluate(floors_enforced=False) if only is None else ([], [])
        except Exception:
            viol = []
        if viol:
            print(f"ANALYSIS-ERROR property={pid}: {e} (reported after {len(viol)} violation(s) found by rules that ran before)")
            report.info["analysis_error_after_violation"] = str(e)
            return report.finish(evidence_dir, floors_enforced=False)
        print(f"ANALYSIS-ERROR property={pid}: {e}")
        return 2
    except Exception:
        print(f"ANALYSIS-ERROR property={pid}: internal error in the checker")
        traceback.print_exc()
        return 2


if __name__ == "__main__":
    sys.exit(main(sys.argv[1:]))
