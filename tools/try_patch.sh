#!/bin/sh
# tools/try_patch.sh <patch.diff> <property id>...   : run checks against a scratch copy of /repo with the patch applied
# (the scratch copy lives under a fresh mktemp dir outside /repo and /verif and is removed afterwards)
P="$1"; shift
D=$(mktemp -d /tmp/vtry.XXXXXX)
mkdir -p "$D/repo" && cp -r /repo/einx "$D/repo/einx" && find "$D/repo" -name __pycache__ -prune -exec rm -rf {} +
( cd "$D/repo" && patch -p1 -s < "$P" ) || { echo "PATCH FAILED"; rm -rf "$D"; exit 3; }
rc=0
for id in "$@"; do
  /verif/check "$id" quick --repo "$D/repo" --evidence-dir "$D/ev" | grep -v "^KNOWN-FINDING" | sed "s#$D/##g"
done
rm -rf "$D"
