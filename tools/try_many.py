#!/venv/bin/python
"""tools/try_many.py <glob of patch files> : apply each patch to a scratch copy of /repo/einx and run all 17
rule modules in-process; print every non-silent result.  Scratch copies are under a fresh mkdtemp and removed."""
import glob, importlib, os, shutil, subprocess, sys, tempfile
from concurrent.futures import ProcessPoolExecutor

HERE = os.path.dirname(os.path.dirname(os.path.abspath(__file__)))
sys.path.insert(0, HERE)
PIDS = os.environ["VERIF_PIDS"].split(",") if os.environ.get("VERIF_PIDS") else [f"C{i:02d}" for i in range(1, 18)]


def prepare(patch, base):
    """scratch checkout of /repo HEAD with the patch applied (3-way, so patches made on a slightly older HEAD merge)"""
    dest = os.path.join(base, str(abs(hash(patch))))
    r = subprocess.run(["git", "-C", "/repo", "worktree", "add", "-q", "--detach", dest, os.environ.get("VERIF_BASE", "HEAD")], capture_output=True, text=True)
    if r.returncode != 0:
        return None, "worktree: " + r.stderr[:200]
    r = subprocess.run(["git", "-C", dest, "apply", "--3way", patch], capture_output=True, text=True)
    if r.returncode != 0:
        r2 = subprocess.run(["patch", "-p1", "-s", "--no-backup-if-mismatch", "-F", "3", "-d", dest, "-i", patch], capture_output=True, text=True)
        if r2.returncode != 0:
            return dest, "does not apply: " + (r.stderr + r2.stdout)[:300].replace("\n", " | ")
    return dest, None


def work(args):
    patch, dest = args
    from sa.core import AnalysisError, Project
    from sa.report import Report

    res = {}
    try:
        p = Project(dest)
    except AnalysisError as e:
        return patch, {"LOAD": [str(e)]}
    for pid in PIDS:
        mod = importlib.import_module(f"rules.{pid.lower()}")
        rep = Report(pid, "quick", dest)
        try:
            mod.run(p, rep, "quick")
            viol, known = rep.evaluate()
            if viol:
                res[pid] = ["VIOLATION " + f"{o.rule} {o.key.split('::')[-1]} | {o.detail[:140]}" for o in viol[:12]]
        except AnalysisError as e:
            # like check.py: a violation found before the analysis error stands
            try:
                viol, known = rep.evaluate(floors_enforced=False)
            except Exception:
                viol = []
            if viol:
                res[pid] = ["VIOLATION " + f"{o.rule} {o.key.split('::')[-1]} | {o.detail[:140]}" for o in viol[:12]]
            else:
                res[pid] = ["ANALYSIS-ERROR " + str(e)[:200]]
        except Exception:
            import traceback
            res[pid] = ["CRASH " + traceback.format_exc()[-400:]]
    return patch, res


if __name__ == "__main__":
    patches = sorted(p for a in sys.argv[1:] for p in glob.glob(a))
    base = tempfile.mkdtemp(prefix="vmany.")
    jobs, dests = [], []
    try:
        for patch in patches:
            dest, err = prepare(patch, base)
            if dest:
                dests.append(dest)
            if err:
                print(f"SKIP     {patch}: {err}")
            else:
                jobs.append((patch, dest))
        with ProcessPoolExecutor(max_workers=8) as ex:
            for patch, res in ex.map(work, jobs):
                if not res:
                    print(f"silent   {patch}")
                else:
                    print(f"NOISY    {patch}")
                    for pid, lines in res.items():
                        for l in lines:
                            print(f"    {pid}: {l}")
    finally:
        for d in dests:
            subprocess.run(["git", "-C", "/repo", "worktree", "remove", "--force", d], capture_output=True)
        subprocess.run(["git", "-C", "/repo", "worktree", "prune"], capture_output=True)
        shutil.rmtree(base, ignore_errors=True)
