CLAIMS = {
 "C03": {
  "decided": "R1 every dispatch chain with an internal fall-through (isinstance chains over the expression-tree / IR class families, literal chains over the parser's operator tables, inspect.Parameter kinds) has an arm for every member of its domain; R2 every name load in every module resolves to a binding (no NameError), with star imports resolved; R3 every call that can raise the solver's internal exceptions lies in a try whose handlers convert both kinds into RankError/AxisSizeError; R4 the call of the compiled function is wrapped into CallOperationError and signature binding into TypeError; R5 every raise in the validation layer raises einx.errors.*, ValueError or TypeError; R6 every SyntaxError built by the parser is given the caller's own text.",
  "undecided": "that no input reaches one of the input-dependent assert statements or a value-level internal failure (e.g. argmax('a')); message contents and marker positions.",
  "technique": "AST dispatch-chain exhaustiveness, symtable scope analysis, try/except coverage over resolved call sites",
 },
 "C12": {
  "decided": "R1 the parser's dispatch chains cover the operator table, the delimiter table and the stage-1 node family; R2 every punctuation string emitted by the stage-1 __str__ methods and by the el_op templates (the only texts that are parsed again) segments into lexer literals; R3 every path through the lexer's scan loop advances the position by a provably positive amount; R4 (=C03.R6) every SyntaxError built by the parser receives the caller's own, never rebound, text; R5 the literal table is prefix-free, so first-match lexing does not depend on the (partly hash-ordered) table order; R6 optional integer fields (axis value, positions) are never tested by truthiness; R7 exclusive end positions are never used as marker positions.",
  "undecided": "structural round-trip equality for all strings, independence of redundant spaces as a whole, and termination of the recursive descent.",
  "technique": "AST table agreement (printer vs lexer alphabet), CFG must-pass-through for loop progress, dispatch exhaustiveness, position/optional-int lints",
 },
}
