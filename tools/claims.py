CLAIMS = {
 "C03": {
  "decided": "R1 every dispatch chain with an internal fall-through (isinstance chains over the expression-tree / IR class families, literal chains over the parser's operator tables, inspect.Parameter kinds) has an arm for every member of its domain; R2 every name load in every module resolves to a binding (no NameError), with star imports resolved; R3 every call that can raise the solver's internal exceptions lies in a try whose handlers convert both kinds into RankError/AxisSizeError; R4 the call of the compiled function is wrapped into CallOperationError and signature binding into TypeError; R5 every raise in the validation layer raises einx.errors.*, ValueError or TypeError; R6 every SyntaxError built by the parser is given the caller's own text.",
  "undecided": "that no input reaches one of the input-dependent assert statements or a value-level internal failure (e.g. argmax('a')); message contents and marker positions.",
  "technique": "AST dispatch-chain exhaustiveness, symtable scope analysis, try/except coverage over resolved call sites",
 },
}
