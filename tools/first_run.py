#!/venv/bin/python
"""tools/first_run.py <out.json> <seed dir> [...]: run all 17 checks (as they are now) on each seed's patch applied to a
scratch worktree of /repo HEAD and record which checks / rules fire.  Used to measure recall on changes that were
written without knowledge of the checks, *before* anything is strengthened."""
import json, os, shutil, subprocess, sys, tempfile
from concurrent.futures import ProcessPoolExecutor

sys.path.insert(0, os.path.dirname(os.path.abspath(__file__)))
import try_many as tm

if __name__ == "__main__":
    outp, dirs = sys.argv[1], sys.argv[2:]
    base = tempfile.mkdtemp(prefix="vfirst.")
    jobs, dests, names = [], [], {}
    try:
        for d in dirs:
            patch = os.path.join(d, "patch.diff")
            dest, err = tm.prepare(patch, base)
            if dest:
                dests.append(dest)
            if err:
                print("SKIP", d, err[:100])
                continue
            jobs.append((patch, dest))
            names[patch] = d
        out = json.load(open(outp)) if os.path.exists(outp) else {}
        with ProcessPoolExecutor(max_workers=10) as ex:
            for patch, res in ex.map(tm.work, jobs):
                viol = {pid: sorted({l.split()[1] for l in ls if l.startswith("VIOLATION")}) for pid, ls in res.items() if any(l.startswith("VIOLATION") for l in ls)}
                errs = {pid: [l[:160] for l in ls if not l.startswith("VIOLATION")] for pid, ls in res.items() if any(not l.startswith("VIOLATION") for l in ls)}
                out[names[patch]] = {"caught_by": sorted(viol), "fired_rules": viol, "analysis_errors": errs}
                print(names[patch], sorted(viol) or "MISSED", ("errors: " + str(sorted(errs))) if errs else "")
        json.dump(out, open(outp, "w"), indent=1)
    finally:
        for d in dests:
            subprocess.run(["git", "-C", "/repo", "worktree", "remove", "--force", d], capture_output=True)
        subprocess.run(["git", "-C", "/repo", "worktree", "prune"], capture_output=True)
        shutil.rmtree(base, ignore_errors=True)
