#!/venv/bin/python
"""tools/neutral_mutate.py [T1 T2 ...]: apply one semantics-preserving source transformation to EVERY function of a scratch
copy of /repo/einx (ast -> ast.unparse) and run all 17 checks on the result; every check must stay silent.
This complements the hand-written neutral corpus: it is dumb but touches all code, so it finds rules that depend on the
spelling of a construct anywhere in the package.

 T1  rename every plain local (not a parameter, not captured by / from another scope) to <name>_r
 T2  bind every `if` / `while`-free `if` test that is a comparison or boolean operation to a fresh local first
 T3  swap the operands of == and != when both are side-effect-free
 T5  isinstance(x, A | B)  ->  isinstance(x, (A, B))
 T6  `return <expr>`  ->  `_ret = <expr>; return _ret`   (outside try/finally-sensitive places: plain function bodies)
 T7  `x = a if c else b`  ->  if c: x = a / else: x = b
"""
import ast, os, shutil, subprocess, symtable, sys, tempfile, importlib
from concurrent.futures import ProcessPoolExecutor

HERE = os.path.dirname(os.path.dirname(os.path.abspath(__file__)))
sys.path.insert(0, HERE)
PIDS = [f"C{i:02d}" for i in range(1, 18)]


def pure(e):
    return all(isinstance(x, (ast.Name, ast.Attribute, ast.Constant, ast.Subscript, ast.Load, ast.Tuple, ast.List, ast.UnaryOp, ast.USub, ast.Not, ast.BinOp, ast.operator, ast.expr_context, ast.Call, ast.keyword, ast.Slice)) for x in ast.walk(e)) and not any(isinstance(x, (ast.NamedExpr, ast.Await, ast.Yield, ast.YieldFrom)) for x in ast.walk(e))


class T1(ast.NodeTransformer):
    """rename plain locals per function using symtable (skips functions with nested scopes that capture them)"""

    def __init__(self, src, filename):
        self.table = symtable.symtable(src, filename, "exec")

    def run(self, tree):
        self._walk(tree, self.table)
        return tree

    def _walk(self, node, table):
        children = {}
        for ch in table.get_children():
            children.setdefault((ch.get_name(), ch.get_lineno()), ch)
        for n in ast.iter_child_nodes(node):
            if isinstance(n, (ast.FunctionDef, ast.AsyncFunctionDef)):
                st = children.get((n.name, n.lineno))
                if st is not None:
                    self._rename_in(n, st)
                    self._walk(n, st)
            elif isinstance(n, ast.ClassDef):
                st = children.get((n.name, n.lineno))
                if st is not None:
                    self._walk(n, st)
            else:
                self._walk(n, table)

    def _rename_in(self, fn, st):
        if st.get_type() != "function":
            return
        # names that are local here and not visible to nested scopes
        captured = set()
        for ch in st.get_children():
            for s in ch.get_symbols():
                if s.is_free() or s.is_global():
                    captured.add(s.get_name())
        # comprehension / lambda / nested def scopes reference enclosing names as free variables
        names = set()
        for s in st.get_symbols():
            nm = s.get_name()
            if s.is_local() and not s.is_parameter() and not s.is_free() and not s.is_global() and not s.is_imported() and nm not in captured and not nm.startswith("__") and not s.is_namespace():
                names.add(nm)
        if not names:
            return
        # do not touch names used in nested scopes at all (symtable free detection covers it), nor `del`/global decls
        nested_names = set()
        for sub in ast.walk(fn):
            if sub is not fn and isinstance(sub, (ast.FunctionDef, ast.AsyncFunctionDef, ast.Lambda, ast.ClassDef, ast.ListComp, ast.SetComp, ast.DictComp, ast.GeneratorExp)):
                for x in ast.walk(sub):
                    if isinstance(x, ast.Name):
                        nested_names.add(x.id)
                    if isinstance(x, ast.arg):
                        nested_names.add(x.arg)
        names -= nested_names
        names -= {"self", "cls"}

        def visit(node, top=True):
            for child in ast.iter_child_nodes(node):
                if isinstance(child, (ast.FunctionDef, ast.AsyncFunctionDef, ast.Lambda, ast.ClassDef, ast.ListComp, ast.SetComp, ast.DictComp, ast.GeneratorExp)):
                    continue
                if isinstance(child, ast.Name) and child.id in names:
                    child.id = child.id + "_r"
                elif isinstance(child, ast.ExceptHandler) and child.name in names:
                    child.name = child.name + "_r"
                    visit(child, False)
                    continue
                visit(child, False)

        for st_ in fn.body:  # decorators and defaults belong to the enclosing scope
            holder = ast.Module(body=[st_], type_ignores=[])
            visit(holder)


class T2(ast.NodeTransformer):
    def __init__(self):
        self.k = 0

    def _block(self, stmts):
        out = []
        for st in stmts:
            st = self.generic_visit(st) if not isinstance(st, (ast.FunctionDef, ast.AsyncFunctionDef, ast.ClassDef)) else self.visit(st)
            if isinstance(st, ast.If) and isinstance(st.test, (ast.Compare, ast.BoolOp)) and not any(isinstance(x, ast.NamedExpr) for x in ast.walk(st.test)) and not getattr(st, "_is_elif", False):
                self.k += 1
                nm = f"_cond{self.k}"
                out.append(ast.Assign(targets=[ast.Name(id=nm, ctx=ast.Store())], value=st.test))
                st.test = ast.Name(id=nm, ctx=ast.Load())
            out.append(st)
        return out

    def visit_FunctionDef(self, node):
        self._mark_elifs(node)
        self._rewrite(node)
        return node

    visit_AsyncFunctionDef = visit_FunctionDef

    def _mark_elifs(self, node):
        for x in ast.walk(node):
            if isinstance(x, ast.If) and len(x.orelse) == 1 and isinstance(x.orelse[0], ast.If):
                x.orelse[0]._is_elif = True

    def _rewrite(self, node):
        for fld in ("body", "orelse", "finalbody"):
            blk = getattr(node, fld, None)
            if isinstance(blk, list) and blk and isinstance(blk[0], ast.stmt):
                new = []
                for st in blk:
                    if isinstance(st, (ast.FunctionDef, ast.AsyncFunctionDef)):
                        self.visit_FunctionDef(st)
                        new.append(st)
                        continue
                    if isinstance(st, ast.ClassDef):
                        for s2 in st.body:
                            if isinstance(s2, (ast.FunctionDef, ast.AsyncFunctionDef)):
                                self.visit_FunctionDef(s2)
                        new.append(st)
                        continue
                    self._rewrite(st)
                    for h in getattr(st, "handlers", []) or []:
                        self._rewrite(h)
                    if isinstance(st, ast.If) and isinstance(st.test, (ast.Compare, ast.BoolOp)) and not any(isinstance(x, (ast.NamedExpr, ast.Await)) for x in ast.walk(st.test)) and not getattr(st, "_is_elif", False):
                        self.k += 1
                        nm = f"_cond{self.k}"
                        new.append(ast.Assign(targets=[ast.Name(id=nm, ctx=ast.Store())], value=st.test))
                        st.test = ast.Name(id=nm, ctx=ast.Load())
                    new.append(st)
                setattr(node, fld, new)

    def visit_Module(self, node):
        for st in node.body:
            if isinstance(st, (ast.FunctionDef, ast.AsyncFunctionDef)):
                self.visit_FunctionDef(st)
            elif isinstance(st, ast.ClassDef):
                for s2 in st.body:
                    if isinstance(s2, (ast.FunctionDef, ast.AsyncFunctionDef)):
                        self.visit_FunctionDef(s2)
        return node


class T3(ast.NodeTransformer):
    def visit_Compare(self, node):
        self.generic_visit(node)
        if len(node.ops) == 1 and isinstance(node.ops[0], (ast.Eq, ast.NotEq)) and pure(node.left) and pure(node.comparators[0]) and not any(isinstance(x, ast.Call) for x in ast.walk(node)):
            node.left, node.comparators = node.comparators[0], [node.left]
        return node


class T5(ast.NodeTransformer):
    def visit_Call(self, node):
        self.generic_visit(node)
        if isinstance(node.func, ast.Name) and node.func.id == "isinstance" and len(node.args) == 2 and isinstance(node.args[1], ast.BinOp) and isinstance(node.args[1].op, ast.BitOr):
            parts, st = [], [node.args[1]]
            while st:
                x = st.pop()
                if isinstance(x, ast.BinOp) and isinstance(x.op, ast.BitOr):
                    st += [x.right, x.left]
                else:
                    parts.append(x)
            node.args[1] = ast.Tuple(elts=parts, ctx=ast.Load())
        return node


class T6(ast.NodeTransformer):
    def __init__(self):
        self.k = 0

    def _blk(self, blk):
        out = []
        for st in blk:
            if isinstance(st, ast.Return) and st.value is not None and not isinstance(st.value, (ast.Name, ast.Constant)):
                self.k += 1
                nm = f"_ret{self.k}"
                out.append(ast.Assign(targets=[ast.Name(id=nm, ctx=ast.Store())], value=st.value))
                out.append(ast.Return(value=ast.Name(id=nm, ctx=ast.Load())))
            else:
                out.append(st)
        return out

    def generic_visit(self, node):
        super().generic_visit(node)
        for fld in ("body", "orelse", "finalbody"):
            blk = getattr(node, fld, None)
            if isinstance(blk, list) and blk and isinstance(blk[0], ast.stmt) and not isinstance(node, (ast.Module, ast.ClassDef)):
                setattr(node, fld, self._blk(blk))
        return node


class T7(ast.NodeTransformer):
    def _blk(self, blk):
        out = []
        for st in blk:
            if isinstance(st, ast.Assign) and len(st.targets) == 1 and isinstance(st.targets[0], ast.Name) and isinstance(st.value, ast.IfExp):
                v = st.value
                out.append(ast.If(test=v.test, body=[ast.Assign(targets=[ast.Name(id=st.targets[0].id, ctx=ast.Store())], value=v.body)], orelse=[ast.Assign(targets=[ast.Name(id=st.targets[0].id, ctx=ast.Store())], value=v.orelse)]))
            else:
                out.append(st)
        return out

    def generic_visit(self, node):
        super().generic_visit(node)
        for fld in ("body", "orelse", "finalbody"):
            blk = getattr(node, fld, None)
            if isinstance(blk, list) and blk and isinstance(blk[0], ast.stmt) and not isinstance(node, (ast.Module, ast.ClassDef)):
                setattr(node, fld, self._blk(blk))
        return node


def transform(kind, src, filename):
    tree = ast.parse(src)
    if kind == "T1":
        tree = T1(src, filename).run(tree)
    else:
        tree = {"T2": T2, "T3": T3, "T5": T5, "T6": T6, "T7": T7}[kind]().visit(tree)
    ast.fix_missing_locations(tree)
    out = ast.unparse(tree)
    compile(out, filename, "exec")
    return out


def run_checks(dest):
    from sa.core import AnalysisError, Project
    from sa.report import Report

    res = {}
    p = Project(dest)
    for pid in PIDS:
        mod = importlib.import_module(f"rules.{pid.lower()}")
        rep = Report(pid, "quick", dest)
        try:
            mod.run(p, rep, "quick")
            viol, known = rep.evaluate()
            if viol:
                res[pid] = [f"VIOLATION {o.rule} {o.key.split('::')[-1]} | {o.detail[:120]}" for o in viol[:6]]
        except AnalysisError as e:
            res[pid] = ["ANALYSIS-ERROR " + str(e)[:200]]
        except Exception:
            import traceback

            res[pid] = ["CRASH " + traceback.format_exc()[-300:]]
    return res


def one(kind):
    base = tempfile.mkdtemp(prefix=f"vmut{kind}.")
    try:
        dest = os.path.join(base, "repo")
        shutil.copytree("/repo/einx", os.path.join(dest, "einx"), ignore=shutil.ignore_patterns("__pycache__"))
        n = 0
        for root, _, files in os.walk(os.path.join(dest, "einx")):
            for fn in files:
                if fn.endswith(".py"):
                    path = os.path.join(root, fn)
                    src = open(path).read()
                    try:
                        new = transform(kind, src, path)
                    except Exception as e:  # leave the file as it is
                        print(f"  {kind}: skipped {os.path.relpath(path, dest)}: {type(e).__name__} {str(e)[:80]}")
                        continue
                    if new != src:
                        n += 1
                        open(path, "w").write(new)
        # the transformed package must at least import-compile and keep the baseline suite green when asked
        if os.environ.get("VERIF_MUT_TESTS"):
            shutil.copytree("/repo/test", os.path.join(dest, "test"), ignore=shutil.ignore_patterns("__pycache__"))
            t = subprocess.run(["/venv/bin/python", "-m", "pytest", "-q", "-p", "no:cacheprovider", "--timeout=900"], cwd=dest, capture_output=True, text=True)
            print(f"  {kind}: suite on the transformed copy: {t.stdout.strip().splitlines()[-1] if t.stdout.strip() else t.stderr[-200:]}")
        return kind, n, run_checks(dest)
    finally:
        shutil.rmtree(base, ignore_errors=True)


if __name__ == "__main__":
    kinds = sys.argv[1:] or ["T1", "T2", "T3", "T5", "T6", "T7"]
    bad = 0
    with ProcessPoolExecutor(max_workers=6) as ex:
        for kind, n, res in ex.map(one, kinds):
            if res:
                bad += 1
                print(f"NOISY {kind} ({n} files rewritten)")
                for pid, ls in res.items():
                    for l in ls:
                        print(f"    {pid}: {l[:260]}")
            else:
                print(f"ok    {kind} ({n} files rewritten): all 17 checks silent")
    sys.exit(1 if bad else 0)
