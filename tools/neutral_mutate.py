#!/venv/bin/python
"""tools/neutral_mutate.py [T1 T2 ...]: apply one semantics-preserving source transformation to EVERY function of a scratch
copy of /repo/einx (ast -> ast.unparse) and run all 17 checks on the result; every check must stay silent.
This complements the hand-written neutral corpus: it is dumb but touches all code, so it finds rules that depend on the
spelling of a construct anywhere in the package.

 T1  rename every plain local (not a parameter, not captured by / from another scope) to <name>_r
 T2  bind every `if` / `while`-free `if` test that is a comparison or boolean operation to a fresh local first
 T3  swap the operands of == and != when both are side-effect-free
 T5  isinstance(x, A | B)  ->  isinstance(x, (A, B))
 T6  `return <expr>`  ->  `_ret = <expr>; return _ret`   (outside try/finally-sensitive places: plain function bodies)
 T7  `x = a if c else b`  ->  if c: x = a / else: x = b
"""
import ast, os, shutil, subprocess, symtable, sys, tempfile, importlib
from concurrent.futures import ProcessPoolExecutor

HERE = os.path.dirname(os.path.dirname(os.path.abspath(__file__)))
sys.path.insert(0, HERE)
PIDS = [f"C{i:02d}" for i in range(1, 18)]


from sa.mutate import KINDS, transform  # noqa: E402


def run_checks(dest):
    from sa.core import AnalysisError, Project
    from sa.report import Report

    res = {}
    p = Project(dest)
    for pid in PIDS:
        mod = importlib.import_module(f"rules.{pid.lower()}")
        rep = Report(pid, "quick", dest)
        try:
            mod.run(p, rep, "quick")
            viol, known = rep.evaluate()
            if viol:
                res[pid] = [f"VIOLATION {o.rule} {o.key.split('::')[-1]} | {o.detail[:120]}" for o in viol[:6]]
        except AnalysisError as e:
            res[pid] = ["ANALYSIS-ERROR " + str(e)[:200]]
        except Exception:
            import traceback

            res[pid] = ["CRASH " + traceback.format_exc()[-300:]]
    return res


def one(kind):
    base = tempfile.mkdtemp(prefix=f"vmut{kind}.")
    try:
        dest = os.path.join(base, "repo")
        shutil.copytree("/repo/einx", os.path.join(dest, "einx"), ignore=shutil.ignore_patterns("__pycache__"))
        n = 0
        for root, _, files in os.walk(os.path.join(dest, "einx")):
            for fn in files:
                if fn.endswith(".py"):
                    path = os.path.join(root, fn)
                    src = open(path).read()
                    try:
                        new = transform(kind, src, path)
                    except Exception as e:  # leave the file as it is
                        print(f"  {kind}: skipped {os.path.relpath(path, dest)}: {type(e).__name__} {str(e)[:80]}")
                        continue
                    if new != src:
                        n += 1
                        open(path, "w").write(new)
        # the transformed package must at least import-compile and keep the baseline suite green when asked
        if os.environ.get("VERIF_MUT_TESTS"):
            shutil.copytree("/repo/test", os.path.join(dest, "test"), ignore=shutil.ignore_patterns("__pycache__"))
            t = subprocess.run(["/venv/bin/python", "-m", "pytest", "-q", "-p", "no:cacheprovider", "--timeout=900"], cwd=dest, capture_output=True, text=True)
            print(f"  {kind}: suite on the transformed copy: {t.stdout.strip().splitlines()[-1] if t.stdout.strip() else t.stderr[-200:]}")
        return kind, n, run_checks(dest)
    finally:
        shutil.rmtree(base, ignore_errors=True)


if __name__ == "__main__":
    kinds = sys.argv[1:] or KINDS
    bad = 0
    with ProcessPoolExecutor(max_workers=8) as ex:
        for kind, n, res in ex.map(one, kinds):
            if res:
                bad += 1
                print(f"NOISY {kind} ({n} files rewritten)")
                for pid, ls in res.items():
                    for l in ls:
                        print(f"    {pid}: {l[:260]}")
            else:
                print(f"ok    {kind} ({n} files rewritten): all 17 checks silent")
    sys.exit(1 if bad else 0)
