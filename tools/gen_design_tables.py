#!/venv/bin/python
"""Regenerates Appendix B of DESIGN.md (between the GENERATED markers) from /verif/evidence/*.json (rules as
they ran last), /verif/seeded/*/meta.json (breaking changes and which checks / rules fire on them),
/verif/selftest/neutral/INDEX.json and /verif/known_findings.json.  Run after the checks and tools/regress.py."""
import ast
import glob, json, os

V = os.path.dirname(os.path.dirname(os.path.abspath(__file__)))
BEGIN, END = "<!-- BEGIN GENERATED APPENDIX B -->", "<!-- END GENERATED APPENDIX B -->"


def esc(t):
    return " ".join(str(t).replace("|", "\\|").split())


def short(t, n):
    t = esc(t)
    return t if len(t) <= n else t[: n - 1].rsplit(" ", 1)[0] + " ..."


def main():
    out = [BEGIN, "", "## Appendix B — generated tables", ""]
    out += ["### B.1 Rules as they ran on the current tree (from `/verif/evidence/*.json`)", ""]
    out += ["`n` = obligations found, `floor` = minimum the rule must find (else exit 2), `ex` = obligations exempted by a table entry with a written reason; a rule id that belongs to another property is a shared clause (8.2).", ""]
    out += ["| property | rule | template | n | floor | ex | clause |", "|---|---|---|---|---|---|---|"]
    for f in sorted(glob.glob(os.path.join(V, "evidence", "C*.json"))):
        e = json.load(open(f))
        for r, v in e["coverage"]["rules"].items():
            out.append(f"| {e['property_id']} | {r} | {esc(v['template'])} | {v['instances']} | {v['floor']} | {v['exempt_by_table']} | {esc(v['title'])} |")
    out += ["", "### B.2 Known findings and fixed records (`/verif/known_findings.json`)", ""]
    out += ["| property | rule | construct key | status | commit |", "|---|---|---|---|---|"]
    for k in json.load(open(os.path.join(V, "known_findings.json")))["findings"]:
        out.append(f"| {k['property']} | {k['rule']} | `{esc(k['key'])}` | {k['status']} | {k.get('commit', '')} |")
    out += ["", "### B.3 Seeded breaking changes and the checks that catch them (`/verif/seeded/`)", ""]
    out += ["Each change keeps the 85 baseline tests green and has an executable demonstration (`demo.py`) that exits 0 on the unchanged tree and non-zero with the change. *written for* = the property whose text the author was given. *caught by* = checks that exit 1 with the change applied, with the rules that fire. *first run* (round 2 only) = whether the checks as they were before the author's change was seen already caught it.", ""]
    out += ["| seed | written for | files | what breaks | needs to manifest | caught by (rules) | first run |", "|---|---|---|---|---|---|---|"]
    own = total = 0
    first_caught = first_total = 0
    for m in sorted(glob.glob(os.path.join(V, "seeded", "*", "meta.json"))):
        d = json.load(open(m))
        name = os.path.basename(os.path.dirname(m))
        fired = d.get("fired_rules", {})
        cb = "; ".join(f"{pid} ({', '.join(rs)})" for pid, rs in fired.items()) or ", ".join(d.get("caught_by", [])) or "**none**"
        total += 1
        own += d["property"] in d.get("caught_by", [])
        fr = d.get("first_run")
        if fr is not None:
            first_total += 1
            first_caught += bool(fr.get("caught_by"))
            frs = ("caught by " + ", ".join(fr["caught_by"])) if fr.get("caught_by") else "**missed**"
            if fr.get("then"):
                frs += " — " + esc(fr["then"])
        else:
            frs = "(round 1)"
        files = ", ".join(os.path.basename(x) if x.count("/") < 3 else "/".join(x.split("/")[-2:]) for x in d.get("files_changed", []))
        out.append(f"| {name} | {d['property']} | {esc(files)} | {short(d.get('what_breaks', ''), 260)} | {short(d.get('needs_to_manifest', ''), 160)} | {cb} | {frs} |")
    out += ["", f"{total} seeded changes; {own} are caught by the check of the property they were written for." + (f" Rounds 2, 3 and 5 together: {first_caught} of {first_total} produced a VIOLATION on the checks as they stood before the change was seen (for round 5 a first-run alarm was often about the refactoring rather than the slip, see 8.5)." if first_total else ""), ""]
    unc = [os.path.basename(os.path.dirname(m)) for m in sorted(glob.glob(os.path.join(V, "seeded", "*", "meta.json"))) if not json.load(open(m)).get("caught_by")]
    if unc:
        out += ["Not caught by any check (kept in the corpus, reason in their `meta.json` `note`): " + ", ".join(unc), ""]
    idx = json.load(open(os.path.join(V, "selftest", "neutral", "INDEX.json")))
    out += ["### B.4 Neutral refactorings (`/verif/selftest/neutral/`): all 17 checks must stay silent", ""]
    out += ["| variant | written for | files | what was refactored |", "|---|---|---|---|"]
    for name, d in sorted(idx["variants"].items()):
        fc = d.get("files_changed") or []
        if isinstance(fc, str):
            # the index of the corrected twins stores the repr of the list
            try:
                fc = ast.literal_eval(fc)
            except (ValueError, SyntaxError):
                fc = [fc]
        files = ", ".join("/".join(x.split("/")[-2:]) for x in fc)
        out.append(f"| {name} | {d.get('written_for')} | {esc(files)} | {short(d.get('what_was_refactored') or '', 240)} |")
    out += ["", END, ""]
    p = os.path.join(V, "DESIGN.md")
    s = open(p).read()
    block = "\n".join(out)
    if BEGIN in s:
        s = s[: s.index(BEGIN)] + block + s[s.index(END) + len(END) :].lstrip("\n")
    else:
        s = s.rstrip("\n") + "\n\n---------------------------------------------------------------------------------------\n\n" + block
    open(p, "w").write(s)
    print(f"Appendix B regenerated: {total} seeds, {len(idx['variants'])} neutral variants")


if __name__ == "__main__":
    main()
