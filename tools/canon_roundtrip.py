#!/venv/bin/python
"""tools/canon_roundtrip.py: is the load-time canonicaliser (sa/canon.py) behaviour-preserving?  Writes the canonical form
of every module of /repo/einx back as source into a scratch copy (outside /repo and /verif) and runs the baseline suite on
it.  Not part of any check - a validation of the engine: each K-rewrite claims to be exact, and a rewrite that changed
behaviour would make every rule look at a different program."""
import ast, os, shutil, subprocess, sys, tempfile

HERE = os.path.dirname(os.path.dirname(os.path.abspath(__file__)))
sys.path.insert(0, HERE)
from sa.canon import canonicalise, literal_tables, module_defs  # noqa: E402

base = tempfile.mkdtemp(prefix="vcanon.")
try:
    dest = os.path.join(base, "repo")
    shutil.copytree("/repo/einx", os.path.join(dest, "einx"), ignore=shutil.ignore_patterns("__pycache__"))
    shutil.copytree("/repo/test", os.path.join(dest, "test"), ignore=shutil.ignore_patterns("__pycache__"))
    if len(sys.argv) > 1:  # optionally on top of a patch (a neutral refactoring whose idioms exercise K8-K14)
        r = subprocess.run(["patch", "-p1", "-s", "--no-backup-if-mismatch", "-d", dest, "-i", os.path.abspath(sys.argv[1])], capture_output=True, text=True)
        if r.returncode != 0:
            print("patch does not apply:", (r.stdout + r.stderr)[:200])
            sys.exit(2)
    trees = {}
    for root, _, files in os.walk(os.path.join(dest, "einx")):
        for fn in files:
            if fn.endswith(".py"):
                path = os.path.join(root, fn)
                rel = os.path.relpath(path, dest)[:-3].split(os.sep)
                if rel[-1] == "__init__":
                    rel = rel[:-1]
                trees[".".join(rel)] = (path, ast.parse(open(path).read()))
    tables = {name: t for name, (_, tree) in trees.items() if (t := literal_tables(tree))}
    defs = {name: module_defs(tree) for name, (_, tree) in trees.items()}
    total = {}
    for name, (path, tree) in trees.items():
        for k, v in canonicalise(tree, tables, defs, name, path.endswith('__init__.py')).items():
            total[k] = total.get(k, 0) + v
        open(path, "w").write(ast.unparse(tree) + "\n")
    print("rewrites applied:", {k: v for k, v in sorted(total.items()) if v})
    t = subprocess.run(["/venv/bin/python", "-m", "pytest", "-q", "-p", "no:cacheprovider", "--timeout=900"], cwd=dest, capture_output=True, text=True)
    last = t.stdout.strip().splitlines()[-1] if t.stdout.strip() else t.stderr[-300:]
    print("suite on the canonical form:", last)
    sys.exit(0 if " passed" in last and "failed" not in last and "error" not in last.lower() else 1)
finally:
    shutil.rmtree(base, ignore_errors=True)
