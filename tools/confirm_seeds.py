#!/usr/bin/env python3
"""Confirm seeded changes against the current /repo HEAD in scratch copies (outside /repo and /verif):
 (i) demo exits 0 on the pristine copy, (ii) patch applies, demo exits non-zero, (iii) baseline suite still passes.
Writes /tmp/seed_confirm.json.  Usage: confirm_seeds.py [C01/a ...]"""
import json, os, shutil, subprocess, sys, tempfile, glob, re

seeds = sys.argv[1:] or sorted(os.path.relpath(d, "/tmp").replace("seed_", "") for d in glob.glob("/tmp/seed_C*/[ab]"))
out = {}
base = tempfile.mkdtemp(prefix="vconf.")
pristine = os.path.join(base, "pristine")
subprocess.check_call(["git", "-C", "/repo", "worktree", "add", "-q", "--detach", pristine, "HEAD"])
try:
    for s in seeds:
        d = f"/tmp/seed_{s}"
        patch = os.path.join(d, "patch_rebased.diff") if os.path.exists(os.path.join(d, "patch_rebased.diff")) else os.path.join(d, "patch.diff")
        demo = os.path.join(d, "demo.py")
        env = dict(os.environ, PYTHONPATH=pristine, PYTHONDONTWRITEBYTECODE="1")
        r = {}
        p0 = subprocess.run(["/venv/bin/python", demo], cwd=pristine, env=env, capture_output=True, text=True, timeout=900)
        r["demo_pristine_exit"] = p0.returncode
        ap = subprocess.run(["git", "-C", pristine, "apply", patch], capture_output=True, text=True)
        if ap.returncode != 0:
            ap = subprocess.run(["patch", "-p1", "-s", "-d", pristine, "-i", patch], capture_output=True, text=True)
        r["patch_applies"] = ap.returncode == 0
        if r["patch_applies"]:
            p1 = subprocess.run(["/venv/bin/python", demo], cwd=pristine, env=env, capture_output=True, text=True, timeout=900)
            r["demo_variant_exit"] = p1.returncode
            r["demo_variant_tail"] = (p1.stdout + p1.stderr)[-300:]
            t = subprocess.run(["/venv/bin/python", "-m", "pytest", "-q", "-p", "no:cacheprovider", "--timeout=900", "-n", "8"], cwd=pristine, env=env, capture_output=True, text=True, timeout=1800)
            m = re.search(r"(\d+) passed", t.stdout)
            r["suite"] = t.stdout.strip().splitlines()[-1] if t.stdout.strip() else t.stderr[-200:]
            r["suite_passed"] = int(m.group(1)) if m else 0
            r["suite_failed"] = "failed" in r["suite"]
        subprocess.run(["git", "-C", pristine, "checkout", "--", "."], capture_output=True)
        subprocess.run(["git", "-C", pristine, "clean", "-fdq"], capture_output=True)
        r["confirmed"] = bool(r.get("demo_pristine_exit") == 0 and r.get("patch_applies") and r.get("demo_variant_exit", 0) != 0 and r.get("suite_passed") == 85 and not r.get("suite_failed"))
        out[s] = r
        print(s, r.get("confirmed"), {k: v for k, v in r.items() if k != "demo_variant_tail"}, flush=True)
        json.dump(out, open("/tmp/seed_confirm.json", "w"), indent=1)
finally:
    subprocess.run(["git", "-C", "/repo", "worktree", "remove", "--force", pristine])
    shutil.rmtree(base, ignore_errors=True)
