#!/usr/bin/env python3
"""Confirm seeded changes against the current /repo HEAD in scratch worktrees (outside /repo and /verif):
 (i) demo exits 0 on the pristine copy, (ii) patch applies and the demo exits non-zero, (iii) the baseline suite
 still passes with the patch.  Usage: confirm_seeds.py <out.json> <seed dir> [...]   (seed dir holds patch.diff, demo.py)
Several seeds are confirmed in parallel (VERIF_CONFIRM_JOBS, default 4), each in its own worktree, removed afterwards."""
import json, os, re, shutil, subprocess, sys, tempfile
from concurrent.futures import ThreadPoolExecutor


def confirm(d):
    base = tempfile.mkdtemp(prefix="vconf.")
    wt = os.path.join(base, "wt")
    r = {}
    try:
        subprocess.check_call(["git", "-C", "/repo", "worktree", "add", "-q", "--detach", wt, "HEAD"])
        patch = os.path.join(d, "patch_rebased.diff") if os.path.exists(os.path.join(d, "patch_rebased.diff")) else os.path.join(d, "patch.diff")
        clean_mode = bool(os.environ.get("VERIF_CONFIRM_CLEAN"))  # confirm the corrected twin: demo must exit 0 with it
        if clean_mode:
            patch = os.path.join(d, "clean.diff")
        demo = os.path.join(d, "demo.py")
        env = dict(os.environ, PYTHONPATH=wt, PYTHONDONTWRITEBYTECODE="1")
        p0 = subprocess.run(["/venv/bin/python", demo], cwd=wt, env=env, capture_output=True, text=True, timeout=1800)
        r["demo_pristine_exit"] = p0.returncode
        ap = subprocess.run(["git", "-C", wt, "apply", patch], capture_output=True, text=True)
        r["patch_applies"] = ap.returncode == 0
        if r["patch_applies"]:
            p1 = subprocess.run(["/venv/bin/python", demo], cwd=wt, env=env, capture_output=True, text=True, timeout=1800)
            r["demo_variant_exit"] = p1.returncode
            r["demo_variant_tail"] = (p1.stdout + p1.stderr)[-300:]
            t = subprocess.run(["/venv/bin/python", "-m", "pytest", "-q", "-p", "no:cacheprovider", "--timeout=900", "-n", "4"], cwd=wt, env=env, capture_output=True, text=True, timeout=3600)
            m = re.search(r"(\d+) passed", t.stdout)
            r["suite"] = t.stdout.strip().splitlines()[-1] if t.stdout.strip() else t.stderr[-200:]
            r["suite_passed"] = int(m.group(1)) if m else 0
            r["suite_failed"] = "failed" in r["suite"] or "error" in r["suite"].lower()
        if clean_mode:
            r["confirmed"] = bool(r.get("demo_pristine_exit") == 0 and r.get("patch_applies") and r.get("demo_variant_exit", 1) == 0 and r.get("suite_passed") == 85 and not r.get("suite_failed"))
        else:
            r["confirmed"] = bool(r.get("demo_pristine_exit") == 0 and r.get("patch_applies") and r.get("demo_variant_exit", 0) != 0 and r.get("suite_passed") == 85 and not r.get("suite_failed"))
    except Exception as e:  # noqa
        r["error"] = repr(e)[:300]
        r["confirmed"] = False
    finally:
        subprocess.run(["git", "-C", "/repo", "worktree", "remove", "--force", wt], capture_output=True)
        shutil.rmtree(base, ignore_errors=True)
    return d, r


if __name__ == "__main__":
    outp, dirs = sys.argv[1], sys.argv[2:]
    out = json.load(open(outp)) if os.path.exists(outp) else {}
    dirs = [d for d in dirs if d not in out]
    with ThreadPoolExecutor(max_workers=int(os.environ.get("VERIF_CONFIRM_JOBS", "4"))) as ex:
        for d, r in ex.map(confirm, dirs):
            out[d] = r
            print(d, r.get("confirmed"), {k: v for k, v in r.items() if k != "demo_variant_tail"}, flush=True)
            json.dump(out, open(outp, "w"), indent=1)
    subprocess.run(["git", "-C", "/repo", "worktree", "prune"], capture_output=True)
