#!/usr/bin/env python3
"""Regenerates /verif/MANIFEST.json from the table below (kept in one place so that the
manifest stays valid and consistent with what is implemented)."""
import json, os, sys

HERE = os.path.dirname(os.path.dirname(os.path.abspath(__file__)))
props = [json.loads(l) for l in open(os.path.join(HERE, "properties.jsonl"))]

# property id -> (decided clauses, undecided clauses, technique)
CLAIMS = {}
exec(open(os.path.join(HERE, "tools", "claims.py")).read())

checks, na = [], []
for p in props:
    pid = p["id"]
    c = CLAIMS.get(pid)
    if c is None or not os.path.exists(os.path.join(HERE, "rules", pid.lower() + ".py")):
        na.append({"property_id": pid, "reason": (c or {}).get("na_reason", "check not implemented yet (build in progress; see DESIGN.md section 5 for the planned structural clauses)")})
        continue
    if c.get("na_reason"):
        na.append({"property_id": pid, "reason": c["na_reason"]})
        continue
    checks.append({
        "property_id": pid,
        "quick_cmd": f"./check {pid} quick",
        "thorough_cmd": f"./check {pid} thorough",
        "evidence_file": f"evidence/{pid}.json",
        "replay_cmd_template": f"./check {pid} --replay {{path}}",
        "engine": "sa",
        "level_claimed": {
            "category": "other",
            "text": "Static decision (ast/symtable/CFG-dominator/def-use rules over /repo's current source, nothing executed) of these structural clauses, each a necessary condition of the property: " + c["decided"] + " It is NOT a proof of the behavioural property; a pass means every listed clause holds on every path / call site / table member / sibling backend of the tree, including code for frameworks that cannot be imported here.",
            "design_ref": f"DESIGN.md section 5, {pid}",
        },
        "level_note": "Undecided (out of reach of static analysis here): " + c["undecided"] + " Trusted base: Python name resolution by module structure (no monkey-patching / computed getattr), the exemption tables in rules/ (one reason per entry), third-party semantics listed under assumptions in the evidence file.",
        "technique": c["technique"],
    })

m = {
    "version": 1,
    "setup_cmd": "/venv/bin/python -m compileall -q sa rules check.py >/dev/null 2>&1 || python3 -m compileall -q sa rules check.py",
    "hooks": {
        "guard": "EINX_VERIF",
        "enable": "unused - the static checks only read /repo's source; there is no instrumentation or hook in /repo",
        "baseline_off_cmd": "cd /repo && /venv/bin/python -m pytest -ra -q -p no:cacheprovider --timeout=900 --continue-on-collection-errors",
        "source_commits": [],
        "add_only": True,
    },
    "engines": [{
        "name": "sa", "path": "sa", "serves_properties": [c["property_id"] for c in checks],
        "kind_free_text": "stdlib-only static analysis (ast/symtable): module loader with namespace packages and star imports, scope analysis, name/callee resolver, class hierarchy and attribute tables, literal-table evaluation, statement CFG with dominators/post-dominators and branch-edge nodes, reaching definitions, dispatch-chain extraction; repository-specific rules in rules/",
    }],
    "checks": checks,
    "not_applicable": na,
    "notes": "Technique family: static analysis only (DESIGN.md). Exit codes: 0 pass / 1 VIOLATION / 2 ANALYSIS-ERROR (no verdict). Genuine defects found on the pinned tree were repaired by 'fix:' commits in /repo or are listed in known_findings.json.",
}
json.dump(m, open(os.path.join(HERE, "MANIFEST.json"), "w"), indent=1)
print(f"{len(checks)} checks, {len(na)} not applicable")
