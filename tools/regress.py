#!/venv/bin/python
"""Regression over the mutation corpora: every breaking seed must make at least one check fire (exit 1 class),
every neutral refactoring must leave all 17 checks silent.  Usage: tools/regress.py [seeds|neutral|all] [filters...] [--update-meta]
(--update-meta rewrites caught_by in seeded/*/meta.json from what fired)"""
import glob, json, os, shutil, subprocess, sys, tempfile
from concurrent.futures import ProcessPoolExecutor

sys.path.insert(0, os.path.dirname(os.path.abspath(__file__)))
import try_many as tm


def collect(kind):
    out = []
    if kind in ("seeds", "all"):
        for d in sorted(glob.glob("/verif/seeded/*")):
            p = os.path.join(d, "patch_rebased.diff")
            if not os.path.exists(p):
                p = os.path.join(d, "patch.diff")
            if os.path.exists(p):
                out.append(("seed", p))
    if kind in ("neutral", "all"):
        for p in sorted(glob.glob("/verif/selftest/neutral/*.diff")):
            out.append(("neutral", p))
    return out


if __name__ == "__main__":
    update = "--update-meta" in sys.argv
    sys.argv = [a for a in sys.argv if a != "--update-meta"]
    kind = sys.argv[1] if len(sys.argv) > 1 else "all"
    items = collect(kind)
    if len(sys.argv) > 2:
        items = [(k, p) for k, p in items if any(a in p for a in sys.argv[2:])]
    base = tempfile.mkdtemp(prefix="vreg.")
    jobs, dests, kinds = [], [], {}
    try:
        for k, patch in items:
            dest, err = tm.prepare(patch, base)
            if dest:
                dests.append(dest)
            if err:
                print(f"SKIP  {k:7s} {patch}: {err[:100]}")
                continue
            jobs.append((patch, dest))
            kinds[patch] = k
        bad = 0
        with ProcessPoolExecutor(max_workers=10) as ex:
            for patch, res in ex.map(tm.work, jobs):
                k = kinds[patch]
                viol = {pid: ls for pid, ls in res.items() if any(l.startswith("VIOLATION") for l in ls)}
                err = {pid: ls for pid, ls in res.items() if any(not l.startswith("VIOLATION") for l in ls)}
                if k == "seed":
                    if update:
                        mp = os.path.join(os.path.dirname(patch), "meta.json")
                        meta = json.load(open(mp))
                        fired = {pid: sorted({l.split()[1] for l in ls if l.startswith("VIOLATION")}) for pid, ls in sorted(viol.items())}
                        if meta.get("caught_by") != sorted(viol) or meta.get("fired_rules") != fired:
                            meta["caught_by"] = sorted(viol)
                            meta["fired_rules"] = fired
                            json.dump(meta, open(mp, "w"), indent=1)
                    if viol:
                        print(f"ok    seed    {patch}  caught by {sorted(viol)}" + (f"  (errors in {sorted(err)})" if err else ""))
                    else:
                        bad += 1
                        print(f"MISS  seed    {patch}  " + (f"only analysis errors in {sorted(err)}" if err else "silent"))
                else:
                    if not res:
                        print(f"ok    neutral {patch}")
                    else:
                        bad += 1
                        print(f"NOISY neutral {patch}")
                        for pid, ls in res.items():
                            for l in ls[:2]:
                                print(f"        {pid}: {l[:230]}")
        print(f"{len(jobs)} variants, {bad} problems")
    finally:
        for d in dests:
            subprocess.run(["git", "-C", "/repo", "worktree", "remove", "--force", d], capture_output=True)
        subprocess.run(["git", "-C", "/repo", "worktree", "prune"], capture_output=True)
        shutil.rmtree(base, ignore_errors=True)
