"""Repro D11 (C16): result of set_at with duplicate coordinates depends on PYTHONHASHSEED.
Run with PYTHONHASHSEED=0 and =2 and compare output."""
import einx, numpy as np
r = einx.set_at('[x], a b, b a -> [x]', np.zeros(2, dtype=int), np.asarray([[1,0],[0,1]]), np.asarray([[1,3],[2,4]]))
print([int(v) for v in r])
