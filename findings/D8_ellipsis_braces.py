"""Repro D8 (C12): Ellipsis.__str__ prints '{a b}...' which parse_op cannot read back."""
import einx, numpy as np
try:
    einx.sum('[a b]...', np.zeros((2, 3)))
    print("OK")
except Exception as e:
    print(type(e).__name__, str(e)[:200]); print("DEFECT")
