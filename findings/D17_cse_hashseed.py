"""Repro D17 (C16): stage2/cse.py collected the candidate common sub-expressions in a set and, where candidates
overlap ('a b' and 'a b c'), replaced the first one in set-iteration order.  Whether a call succeeds then depends
on PYTHONHASHSEED: with 'a b' picked first, `c` stays an unknown of its own and the solver fails."""
import os, subprocess, sys

if len(sys.argv) > 1:
    import einx, numpy as np
    x = np.arange(24.0); y = np.arange(24.0)
    try:
        r = einx.multiply("(s a b c), (a b c t) -> (s t a b c)", x, y, s=1, t=1)
        print("returned shape", r.shape)
    except Exception as e:
        print(type(e).__name__, str(e).splitlines()[0][:90])
    sys.exit(0)
outs = {}
for seed in range(8):
    o = subprocess.run([sys.executable, __file__, "child"], env=dict(os.environ, PYTHONHASHSEED=str(seed)), capture_output=True, text=True).stdout.strip()
    outs.setdefault(o, []).append(seed)
for o, seeds in outs.items():
    print(seeds, o)
print("DEFECT" if len(outs) > 1 else "OK")
