"""Repro D12 (C09): binary numpy ufuncs registered without an arity check receive a third tensor as `out=` and overwrite the caller's array."""
import einx, numpy as np
x = np.ones((2, 2)); y = np.ones((2, 2)); z = np.full((2, 2), 7.0)
z0 = z.copy()
try:
    r = einx.subtract("a b, a b, a b", x, y, z)
    print("returned", r.tolist(), "z now", z.tolist())
    print("DEFECT" if not np.array_equal(z, z0) else "OK")
except Exception as e:
    print(type(e).__name__, str(e)[:150]); print("OK (rejected)" if np.array_equal(z, z0) else "DEFECT")
