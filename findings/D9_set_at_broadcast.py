"""Repro D9 (C14): numpy set_at cycles flattened update values instead of repeating them along the missing axis."""
import einx, numpy as np
r = einx.set_at('[x], a b, a -> [x]', np.zeros(5, dtype=int), np.asarray([[0,1],[2,3]]), np.asarray([10,20]))
print(list(r)); print("DEFECT" if list(r) != [10,10,20,20,0] else "OK")
