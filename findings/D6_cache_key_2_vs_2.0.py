"""Repro D6 (C06): cache key treats 2 and 2.0 as equal; outcome of c=2.0 depends on whether c=2 was called before."""
import einx, numpy as np
x = np.zeros((2, 3))
def call(c):
    try:
        return einx.id('a b -> a b c', x, c=c).shape
    except Exception as e:
        return type(e).__name__
fresh = call(2.0)
call(2)
warm = call(2.0)
print("fresh:", fresh, "after c=2:", warm); print("DEFECT" if fresh != warm else "OK")
