"""Repro D13 (C04): get_usages() never counts a second use (the visited check precedes the increment), so a
value used several times is inlined at every use: it is computed more than once, and a second evaluation that
lands after an in-place update reads the updated data."""
import numpy as np
import einx._src.tracer as tracer
from einx._src.tracer.compiler.python import compile as compile_python

np_ = tracer.signature.python.import_("numpy", as_="np")
a = tracer.signature.python.Value(None)
item = tracer.signature.python.getitem(a, 0)                   # a[0], used twice
first = tracer.signature.python.call(np_.add, [item, 1])       # use 1: before the update
with tracer.depend_on(first):
    upd = tracer.signature.python.setitem(a, 0, 100)           # a[0] = 100 (in place), ordered after `first`
out = (first, upd, item)                                       # use 2 of the value read BEFORE the update
g = tracer.Graph([a], out)
f, code = compile_python(g, return_code=True)
print(code)
r = f(np.asarray([1, 2, 3]))
print("result", int(r[0]), int(r[2]), "expected 2 1")
print("DEFECT" if (int(r[0]), int(r[2])) != (2, 1) else "OK")
