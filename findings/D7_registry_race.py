"""Repro for D7 (C10): registry.get() publishing a stale snapshot undoes a concurrent `with backend:`.
Deterministic: thread B is paused between computing its snapshot and publishing it.
Run: PYTHONPATH=<repo> /venv/bin/python D7_registry_race.py   -> prints LOST (defect) or OK (fixed)
NOT part of any registered check (runtime)."""
import threading, sys
import einx
from einx._src.frontend import backend as B

reg = B.registry
np_backend = reg.get("numpy")
b_has_snapshot = threading.Event()
a_done = threading.Event()
orig_get = B.BackendRegistryState.get

def slow_get(self, backend=None, tensors=None):
    r = orig_get(self, backend, tensors)
    if threading.current_thread().name == "B":
        b_has_snapshot.set()
        a_done.wait(2.0)  # with the fix A cannot finish (B holds the lock) -> timeout, B publishes first
    return r

B.BackendRegistryState.get = slow_get
result = {}

def thread_b():
    reg.get("numpy")

def thread_a():
    b_has_snapshot.wait()
    try:
        with np_backend:
            a_done.set()
            tb.join()
            result["inside"] = len(reg.state.use_stack)
        result["exit"] = "ok"
    except Exception as e:
        result["exit"] = type(e).__name__
    finally:
        a_done.set()

tb = threading.Thread(target=thread_b, name="B")
ta = threading.Thread(target=thread_a, name="A")
tb.start(); ta.start(); ta.join(); tb.join()
print(result)
print("LOST" if result.get("inside") != 1 or result.get("exit") != "ok" else "OK")
sys.exit(0)
