"""Repro D16 (C04): the code generator's name sequence a, b, ..., z, aa, ab, ... yields the Python keyword `as`
(45th name; later `if`, `in`, `is`, `or`), so a graph with enough variables compiles to invalid source."""
import einx, numpy as np
n = 60
desc = "(" + " + ".join(f"a{i}" for i in range(n)) + ") -> " + ", ".join(f"a{i}" for i in range(n))
x = np.arange(n)
try:
    r = einx.id(desc, x, **{f"a{i}": 1 for i in range(n)})
    print("OK", len(r))
except Exception as e:
    print(type(e).__name__, str(e)[-300:]); print("DEFECT")
