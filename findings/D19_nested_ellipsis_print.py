"""Repro D19 (C12): an ellipsis whose operand is itself an ellipsis is printed bare ('a......'); the derived
signature of reduce-like operations re-parses that text and fails."""
import einx, numpy as np
try:
    r = einx.sum("[a...]...", np.zeros((2, 3)))
    print("OK", getattr(r, "shape", r))
except Exception as e:
    print(type(e).__name__, str(e).splitlines()[0]); print("DEFECT")
