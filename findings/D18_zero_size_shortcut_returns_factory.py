"""Repro D18 (C13/C14): update_at's zero-size shortcut (`return tensors[0]`) returns the target argument unchanged.
When the target is a tensor factory, the caller gets the factory function back instead of a tensor."""
import einx, numpy as np
calls = []
def factory(shape):
    calls.append(shape)
    return np.zeros(shape)
r = einx.set_at("[x], a, a -> [x]", factory, np.zeros((0,), dtype=int), np.zeros((0,)), x=5)
print(type(r).__name__, "factory calls:", calls)
print("DEFECT" if callable(r) else "OK")
