"""C12 - the expression parser is total and stable under re-printing and extra spacing.

Decided clauses:
 R1 dispatch chains in the parser cover their operator / delimiter tables and node families (T-EXH)
 R2 printer alphabet is a subset of the lexer alphabet (T-TAB): everything __str__ / el_op emit re-lexes
 R3 lexer progress: every path through the scan loop advances the position by a positive amount
 R4 SyntaxError quotes the caller's text and the text parameter is never rebound (positions stay valid)
 R5 the literal table is prefix-free, so first-match lexing does not depend on (hash) order of the table
 R6 optional integer fields (axis value, positions) are never tested by truthiness (0 is not None)
 R7 exclusive end positions are never used as marker positions
"""

from __future__ import annotations

import ast
import re

from sa.cfg import CFG
from sa.core import AnalysisError, LiteralEvaluator, NotLiteral, enclosing, norm, parents, resolve_callee, src, walk_no_nested

from . import c03, common
from .common import block_always_raises


def printed_tokens(node):
    """Punctuation tokens in the string constants under `node`: maximal runs of characters that are
    neither alphanumeric/underscore nor whitespace."""
    toks = []
    for n in ast.walk(node):
        if isinstance(n, ast.Constant) and isinstance(n.value, str):
            # skip docstrings
            par = getattr(n, "_parent", None)
            if isinstance(par, ast.Expr):
                continue
            # a constant that is only tested against (`name.startswith("unnamed.")`, `x == "..."`) is not printed
            if isinstance(par, ast.Call) and isinstance(par.func, ast.Attribute) and par.func.attr in ("startswith", "endswith", "removeprefix", "removesuffix", "split", "rsplit", "partition", "find", "index", "count") and n in par.args:
                continue
            if isinstance(par, ast.Compare):
                continue
            for t in re.findall(r"[^\w\s]+", n.value):
                toks.append((t, n))
    return toks


def r2(p, rep):
    rep.rule("C12.R2", "printer alphabet is a subset of the lexer alphabet", "T-TAB", floor=15)
    parse = p.module("namedtensor.stage1.parse")
    ev = LiteralEvaluator(p, parse)
    try:
        literals = list(ev.name("_literals"))
    except NotLiteral as e:
        raise AnalysisError(f"unrecognised idiom: parse._literals is not a literal table ({e})") from e
    lits = set(literals)
    # punctuation that is part of a TOKEN the lexer accepts as a whole: literal characters of the regexes it tests
    # tokens with (`name=number` through `([a-zA-Z_]..)=([0-9]+)` reads `=`)
    import re._parser as _rp

    def regex_literals(tree_):
        out_ = set()
        for op, av in tree_:
            if str(op) == "LITERAL" and not (chr(av).isalnum() or chr(av) == "_" or chr(av).isspace()):
                out_.add(chr(av))
            elif str(op) == "SUBPATTERN":
                out_ |= regex_literals(av[3])
            elif str(op) in ("MAX_REPEAT", "MIN_REPEAT"):
                out_ |= regex_literals(av[2])
            elif str(op) == "BRANCH":
                for alt in av[1]:
                    out_ |= regex_literals(alt)
        return out_

    for st in parse.tree.body:
        if isinstance(st, ast.Assign) and isinstance(st.value, ast.Call) and norm(st.value.func) in ("re.compile", "compile") and st.value.args and isinstance(st.value.args[0], ast.Constant) and isinstance(st.value.args[0].value, str):
            nm = st.targets[0].id if isinstance(st.targets[0], ast.Name) else None
            used = nm and any(isinstance(c, ast.Call) and isinstance(c.func, ast.Attribute) and c.func.attr == "fullmatch" and norm(c.func.value) == nm for c in ast.walk(parse.tree))
            if used:
                try:
                    lits |= regex_literals(_rp.parse(st.value.args[0].value))
                except Exception:
                    pass

    def lexes(tok):
        """Can `tok` be segmented into literals (greedy segmentation over the prefix-free table)?"""
        if tok == "":
            return True
        return any(tok.startswith(l) and lexes(tok[len(l) :]) for l in lits if l)

    tree = p.module("namedtensor.stage1.tree")
    root = p.cls("Expression", "stage1.tree")
    printers = []
    for c in p.subclasses(root):
        # the printer as it runs for this class: its own __str__, or an inherited one that looks the class up in a table
        f = common.specialised(p, c, "__str__") if (c.methods.get("__str__") is not None or not p.subclasses(c, strict=True)) and p.lookup_method(c, "__str__") is not None else None
        if f is not None:
            printers.append((f"{c.name}.__str__", f))
    efn = p.module("adapter.einx_from_namedtensor")
    for f in p.funcs.values():
        if f.module is efn and f.name == "el_op":
            printers.append((f.qualname.split("::")[1], f))
    if len(printers) < 10:
        raise AnalysisError(f"anchor vanished: expected >= 10 printers (stage1 __str__ + el_op templates), found {len(printers)}")
    def unlexable(tok):
        """characters of tok that no segmentation into lexer literals can cover (greedy longest-literal scan)"""
        bad, i = [], 0
        while i < len(tok):
            m = max((l for l in lits if l and tok.startswith(l, i)), key=len, default=None)
            if m is None:
                bad.append(tok[i])
                i += 1
            else:
                i += len(m)
        return bad

    for label, f in printers:
        toks = printed_tokens(f.node)
        seen = set()
        for tok, n in toks:
            bad = unlexable(tok)
            # one obligation per distinct offending character (stable under re-formatting of the string constants),
            # or one per fully lexable token
            for item, ok in ([(ch, False) for ch in bad] or [(tok, True)]):
                if item in seen:
                    continue
                seen.add(item)
                rep.add(
                    "C12.R2",
                    f"{f.qualname}:literal:{item!r}",
                    f"{f.module.rel}:{n.lineno}",
                    ok,
                    f"{label} emits {item!r}; lexer literals are {sorted(lits)}" + ("" if ok else " - the printed text cannot be read back by parse_op"),
                )
        if not toks:
            rep.ok("C12.R2", f"{f.qualname}:no-punctuation", f.loc, "emits no punctuation", nontrivial=False)
    return literals


def r3(p, rep):
    rep.rule("C12.R3", "lexer progress: every path through the scan loop advances the position", "T-MPT over the CFG", floor=1)
    f0 = p.func("parse_op", "stage1.parse")
    ev = LiteralEvaluator(p, f0.module)
    # the scan loop lives in parse_op itself or in a helper it calls (`_tokenize(text)`)
    loops = [(g, n) for g in common.with_helpers(p, f0) for n in walk_no_nested(g.node) if isinstance(n, ast.While)]
    found = 0
    for f, w in loops:
        cfg = common.cfg_of(f)
        t = w.test
        if not (isinstance(t, ast.Compare) and len(t.ops) == 1 and isinstance(t.ops[0], ast.Lt) and isinstance(t.left, ast.Name)):
            continue
        c = t.comparators[0]
        if not (isinstance(c, ast.Call) and isinstance(c.func, ast.Name) and c.func.id == "len"):
            continue
        var = t.left.id
        found += 1
        incs, bad = [], []
        for n in ast.walk(w):
            if isinstance(n, ast.AugAssign) and isinstance(n.target, ast.Name) and n.target.id == var:
                if isinstance(n.op, ast.Add) and _positive(p, ev, n.value, n):
                    incs.append(n)
                else:
                    bad.append(n)
            elif isinstance(n, ast.Assign) and any(isinstance(x, ast.Name) and x.id == var for x in n.targets):
                # `end = pos + len(lit); ...; pos = end` is the increment written in two steps
                e = cfg.expand(n.value, cfg.node_for(n)) if cfg.node_for(n) is not None else n.value
                if len(n.targets) == 1 and isinstance(e, ast.BinOp) and isinstance(e.op, ast.Add) and isinstance(e.left, ast.Name) and e.left.id == var and _positive(p, ev, e.right, n):
                    incs.append(n)
                else:
                    bad.append(n)
        site = f"{f.module.rel}:{w.lineno}"
        key = f"{f.qualname}:while({norm(t)})"
        if bad:
            rep.violation("C12.R3", key, site, f"{var} is updated by something other than a provably positive increment: {[norm(b) for b in bad]}")
            continue
        head = cfg.node_of_stmt.get(id(w))
        # the test node of the while: find the 'T' edge node
        tnodes = [n for n in cfg.nodes if n.kind == "edge" and n.ast is w and n.polarity is True]
        join = [n for n in cfg.nodes if n.kind == "join" and n.ast is w]
        if not tnodes or not join:
            raise AnalysisError("CFG: while loop nodes not found")
        inc_nodes = [cfg.node_for(i) for i in incs]
        stuck = cfg.can_reach(tnodes[0], join[0], avoid=inc_nodes)
        rep.add("C12.R3", key, site, not stuck, f"{len(incs)} positive increments of {var}; a path around all of them back to the loop head {'exists (possible non-termination)' if stuck else 'does not exist'}")
    if not found:
        raise AnalysisError("unrecognised idiom: no `while pos < len(text)` scan loop in parse_op")


def _nonempty_table(ev, it):
    try:
        members = ev.eval(it)
    except NotLiteral:
        return False
    return bool(members) and all(isinstance(m, str) and len(m) > 0 for m in members)


def _positive(p, ev, value, at):
    if isinstance(value, ast.Constant) and isinstance(value.value, int) and value.value > 0:
        return True
    if isinstance(value, ast.Call) and isinstance(value.func, ast.Name) and value.func.id == "len" and len(value.args) == 1 and isinstance(value.args[0], ast.Name):
        nm = value.args[0].id
        for par in parents(at):
            if isinstance(par, ast.For) and isinstance(par.target, ast.Name) and par.target.id == nm:
                return _nonempty_table(ev, par.iter)
        # `lit = helper(text, pos)` where the helper returns a member of a literal table or None, and the
        # increment is only executed when `lit is not None`
        fn = enclosing(at, (ast.FunctionDef, ast.AsyncFunctionDef))
        defs = [n.value for n in ast.walk(fn) if isinstance(n, ast.Assign) and any(isinstance(t, ast.Name) and t.id == nm for t in n.targets)] if fn is not None else []
        if defs and all(isinstance(d, ast.Call) for d in defs):
            f = p.func_containing(at)
            oks = []
            for d in defs:
                r = resolve_callee(p, d, f.module) if f else None
                if not (r and r[0] == "func"):
                    return False
                h = r[1]
                rets = [x for x in walk_no_nested(h.node) if isinstance(x, ast.Return)]
                good = bool(rets)
                for x in rets:
                    if x.value is None or (isinstance(x.value, ast.Constant) and x.value.value is None):
                        continue
                    loop = enclosing(x, ast.For)
                    good = good and isinstance(x.value, ast.Name) and loop is not None and isinstance(loop.target, ast.Name) and loop.target.id == x.value.id and _nonempty_table(LiteralEvaluator(p, h.module), loop.iter)
                oks.append(good)
            if all(oks):
                cfg = CFG(fn)
                facts = [(norm(t), pol) for t, pol in cfg.guards_of_ast(at)]
                return (f"{nm} is None", False) in facts or (f"{nm} is not None", True) in facts
    return False


def r5(p, rep, literals):
    rep.rule("C12.R5", "literal table is prefix-free (first-match lexing is independent of table order)", "T-TAB", floor=1)
    parse = p.module("namedtensor.stage1.parse")
    unordered = getattr(literals, "unordered", False)
    clashes = [(a, b) for a in literals for b in literals if a != b and b.startswith(a)]
    site = parse.rel
    if "" in literals:
        rep.violation("C12.R5", "parse._literals:empty", site, "the literal table contains the empty string: it matches everywhere and the scan loop never advances")
    elif clashes:
        rep.violation("C12.R5", "parse._literals:prefix", site, f"literals {clashes} are prefixes of one another; the table is {'built from sets (hash order)' if unordered else 'ordered'} and the lexer takes the first match")
    else:
        rep.ok("C12.R5", "parse._literals:prefix-free", site, f"{len(literals)} literals, none a prefix of another" + ("; part of the table is in set order, which therefore cannot matter" if unordered else ""))


OPTIONAL_INT_ATTRS = ("value", "begin_pos", "end_pos")
R6_MODULES = ("namedtensor.stage1.", "namedtensor.stage2.", "namedtensor.stage3.", "namedtensor.solve", "namedtensor.util", "adapter.einx_from_namedtensor", "frontend.util", "frontend.errors")


def _in_bool_context(n):
    par = getattr(n, "_parent", None)
    if isinstance(par, (ast.If, ast.While, ast.IfExp, ast.Assert)) and par.test is n:
        return True
    if isinstance(par, ast.BoolOp):
        return True
    if isinstance(par, ast.UnaryOp) and isinstance(par.op, ast.Not):
        return True
    if isinstance(par, ast.comprehension) and n in par.ifs:
        return True
    if isinstance(par, ast.Call) and isinstance(par.func, ast.Name) and par.func.id == "bool":
        return True
    return False


def r6(p, rep):
    rep.rule("C12.R6", "optional integer fields are never tested by truthiness", "contradiction lint (None-test vs truthiness)", floor=40)
    for m in p.modules.values():
        if not any(x in m.name + "." for x in R6_MODULES):
            continue
        for n in ast.walk(m.tree):
            if isinstance(n, ast.Attribute) and n.attr in OPTIONAL_INT_ATTRS and isinstance(n.ctx, ast.Load):
                f = p.func_containing(n)
                where = f.qualname if f else m.name
                bad = _in_bool_context(n)
                key = f"{where}:{norm(n)}:{'bool' if bad else 'use'}"
                if bad:
                    rep.violation("C12.R6", key, f"{m.rel}:{n.lineno}", f"`{norm(n)}` (an int that may be 0, or None) is tested by truthiness; 0 and None are conflated (e.g. the axis `0` prints as its internal name)")
                else:
                    rep.ok("C12.R6", key, f"{m.rel}:{n.lineno}", "", nontrivial=False)
    # count distinct nontrivial once
    rep.ok("C12.R6", "summary", "", "all reads of value/begin_pos/end_pos are comparisons, arithmetic or forwarding")


def r7(p, rep):
    rep.rule("C12.R7", "exclusive end positions are never used as marker positions", "typestate lint on .end_pos", floor=10)
    mods = [p.module("namedtensor.stage1.parse"), p.module("namedtensor.util"), p.module("frontend.errors"), p.module("adapter.einx_from_namedtensor")]
    # checks that were moved into sibling modules of the parser are part of it
    mods += [m for m in p.modules.values() if m.name.startswith("einx._src.namedtensor.stage1.") and not any(m is x for x in mods) and not m.name.endswith(".tree")]

    def returned_as_positions(display):
        """the display is what a helper returns, and a call of that helper is used as marker positions
        (`pos.extend(helper(..))`, `pos=helper(..)`, `pos.append(..)`)"""
        ret = getattr(display, "_parent", None)
        h = p.func_containing(display)
        if not isinstance(ret, ast.Return) or h is None:
            return False
        for m2 in mods:
            for c in ast.walk(m2.tree):
                if isinstance(c, ast.Call) and resolve_callee(p, c, m2) == ("func", h):
                    cp = getattr(c, "_parent", None)
                    if isinstance(cp, ast.keyword) and cp.arg == "pos":
                        return True
                    if isinstance(cp, ast.Call) and isinstance(cp.func, ast.Attribute) and cp.func.attr in ("extend", "append") and c in cp.args:
                        return True
                    if isinstance(cp, (ast.Assign, ast.AugAssign)) and any("pos" in norm(t) for t in (cp.targets if isinstance(cp, ast.Assign) else [cp.target])):
                        return True
        return False

    for m in mods:
        for n in ast.walk(m.tree):
            if not (isinstance(n, ast.Attribute) and n.attr == "end_pos" and isinstance(n.ctx, ast.Load)):
                continue
            par = getattr(n, "_parent", None)
            f = p.func_containing(n)
            where = f.qualname if f else m.name
            # element of a list/tuple display or argument of append/extend-with-list => used as a marker index
            as_index = False
            if isinstance(par, (ast.List, ast.Tuple, ast.Set)):
                gp = getattr(par, "_parent", None)
                # tuples used as (begin, end) pairs are fine only as range/slice arguments; displays handed to pos / extend are indices
                if isinstance(gp, ast.Call) and isinstance(gp.func, ast.Attribute) and gp.func.attr in ("extend", "append"):
                    as_index = True
                if isinstance(gp, ast.keyword) and gp.arg == "pos":
                    as_index = True
                if isinstance(gp, ast.Return) and returned_as_positions(par):
                    as_index = True
            if isinstance(par, ast.Call) and isinstance(par.func, ast.Attribute) and par.func.attr == "append" and n in par.args:
                as_index = True
            if isinstance(par, ast.keyword) and par.arg == "pos":
                as_index = True
            if isinstance(par, ast.Subscript) and par.slice is n:
                as_index = True
            key = f"{where}:{norm(par)[:50]}"
            if as_index:
                rep.violation("C12.R7", key, f"{m.rel}:{n.lineno}", f"`{norm(n)}` is one past the last character (exclusive) but is used as a marker position in `{norm(par)}`; at the end of the string this is out of range and the error constructor's bounds assert fails (AssertionError instead of SyntaxError)")
            else:
                rep.ok("C12.R7", key, f"{m.rel}:{n.lineno}", "", nontrivial=False)
    rep.ok("C12.R7", "summary", "", "every .end_pos read is a range/slice bound, `end_pos - 1`, a comparison or forwarded as an end position")


UNICODE_DIGIT_TESTS = {"isdigit": "accepts superscripts and other Unicode digits that int() rejects", "isnumeric": "accepts fractions, Roman numerals etc. that int() rejects"}


def _regex_receivers(p, m, recv, f):
    """module-level compiled regexes a `.fullmatch` / `.match` receiver may denote: the name itself, or - for a field of
    a small record class (`self.pattern`) - the regexes its constructions in this module pass for that field"""
    if isinstance(recv, ast.Name):
        return [recv.id]
    if isinstance(recv, ast.Attribute) and isinstance(recv.value, ast.Name):
        out = []
        for c in p.classes.values():
            if c.module is not m:
                continue
            init = c.methods.get("__init__")
            if init is None:
                continue
            for a in ast.walk(init.node):
                if isinstance(a, ast.Assign) and isinstance(a.value, ast.Name) and a.value.id in init.params[1:] and any(isinstance(t, ast.Attribute) and t.attr == recv.attr for t in a.targets):
                    idx = init.params.index(a.value.id) - 1
                    for call in ast.walk(m.tree):
                        if isinstance(call, ast.Call) and resolve_callee(p, call, m) == ("class", c):
                            v = call.args[idx] if idx < len(call.args) else common.kwarg(call, a.value.id)
                            if isinstance(v, ast.Name):
                                out.append(v.id)
        return out
    return []


def r8(p, rep):
    rep.rule("C12.R8", "number tokens are recognised by a test that agrees with int()", "contradiction lint (guard vs conversion)", floor=2)
    m = p.module("namedtensor.stage1.parse")
    n = 0

    def pattern_of(name):
        vals = p.module_var(m, name)
        return next((c.value for v in vals for c in ast.walk(v) if isinstance(c, ast.Constant) and isinstance(c.value, str)), None)

    for node in ast.walk(m.tree):
        if isinstance(node, ast.Call) and isinstance(node.func, ast.Attribute):
            f = p.func_containing(node)
            where = f.qualname if f else m.name
            if node.func.attr in UNICODE_DIGIT_TESTS:
                n += 1
                rep.violation("C12.R8", f"{where}:{norm(node)}", f"{m.rel}:{node.lineno}", f"`{norm(node)}` {UNICODE_DIGIT_TESTS[node.func.attr]}: a description containing such a character passes the lexer and then fails in int() with ValueError instead of einx SyntaxError (the documented alphabet is [0-9]+)")
            elif node.func.attr == "isdecimal":
                n += 1
                rep.ok("C12.R8", f"{where}:{norm(node)[:40]}", f"{m.rel}:{node.lineno}", "str.isdecimal() agrees with int()")
            elif node.func.attr in ("fullmatch", "match", "search"):
                names = _regex_receivers(p, m, node.func.value, f)
                pats = {nm: pattern_of(nm) for nm in names}
                pats = {nm: pt for nm, pt in pats.items() if pt is not None}
                if not pats:
                    continue
                if node.func.attr != "fullmatch":
                    # a token is tested against the whole alphabet of its kind, not a prefix of it
                    n += 1
                    rep.violation("C12.R8", f"{where}:{norm(node)[:40]}:prefix", f"{m.rel}:{node.lineno}", f"`{norm(node)[:60]}` tests the token with .{node.func.attr}(): a token of which only a prefix is a valid name / number (`a-b`, `1x`) is accepted by the lexer and fails later with an internal exception instead of einx SyntaxError")
                    continue
                for nm, pat in sorted(pats.items()):
                    if "number" not in nm and not re.fullmatch(r"\[0-9\]\+|\[0-9\]\[0-9\]\*|\\d[+*]?|\[\\d\][+*]?", pat):
                        continue
                    n += 1
                    ok = re.fullmatch(r"\[0-9\]\+|\[0-9\]\[0-9\]\*", pat) is not None
                    rep.add("C12.R8", f"{where}:{norm(node)[:40]}" + ("" if isinstance(node.func.value, ast.Name) else f":{nm}"), f"{m.rel}:{node.lineno}", ok, f"number tokens match the regex {pat!r}" if ok else f"number regex {pat!r} admits characters int() may reject (\\d is Unicode-aware)")
    if n == 0:
        raise AnalysisError("unrecognised idiom: the parser has no recognisable number-token test")

def r9(p, rep):
    rep.rule("C12.R9", "an element is not taken out of a sequence before the test that asks whether the sequence is long enough", "contradiction lint (use before the short-circuit guard that protects it)", floor=3)
    import os

    from .c03 import VALIDATION_MODULES

    n_tests = 0
    for f in p.funcs.values():
        if not any(f.module.name.endswith(m) for m in VALIDATION_MODULES) and "namedtensor.stage1" not in f.module.name:
            continue
        if not isinstance(f.node, (ast.FunctionDef, ast.AsyncFunctionDef)):
            continue
        n, hits = common.guard_after_use(f.node)
        n_tests += n
        for b, S, v, st in hits:
            rep.violation("C12.R9", f"{f.qualname}:{v}<-{S}", f"{f.module.rel}:{st.lineno}", f"`{norm(st)[:70]}` indexes `{S}` unconditionally, but the later test `{norm(b)[:80]}` first asks about the length of `{S}` and only then looks at `{v}`: when the guard's first operand is true the subscript has already failed (IndexError, an internal exception type) - e.g. a closing bracket as the very first token")
        if n and not hits:
            rep.ok("C12.R9", f"{f.qualname}:short-circuit-guards", f.loc, f"{n} length-first short-circuit tests; none of the values they protect is computed before the test")
    # the lint has an expected count of zero on a correct tree: a positive example must be found on every run
    pos = os.path.join(os.path.dirname(os.path.dirname(os.path.abspath(__file__))), "selftest", "positive", "guard_after_use.py")
    tree = ast.parse(open(pos).read())
    from sa.core import set_parents

    set_parents(tree)
    fns = {x.name: x for x in tree.body if isinstance(x, ast.FunctionDef)}
    bad = common.guard_after_use(fns["bad"])[1]
    good = common.guard_after_use(fns["good"])[1]
    if len(bad) != 1 or good:
        raise AnalysisError("self-check of the guard-after-use lint failed on selftest/positive/guard_after_use.py")
    rep.ok("C12.R9", "self-check:positive-example", "selftest/positive/guard_after_use.py", "the lint reports the seeded positive example and is silent on its corrected twin")
    rep.info["guard_after_use_tests_inspected"] = n_tests


def _atom(x):
    """`self.name` / `str(self.value)`: the text of one name or number token"""
    return isinstance(x, ast.Attribute) or (isinstance(x, ast.Call) and norm(x.func) == "str" and len(x.args) == 1 and isinstance(x.args[0], ast.Attribute))

def r10(p, rep):
    rep.rule("C12.R10", "what is printed in front of `...` is one group: an operand whose own text is not a single token or a delimited group is wrapped", "T-EXH over the stage-1 node classes (printer of the ellipsis operand)", floor=4)
    m = p.module("namedtensor.stage1.tree")
    base = p.cls("Expression", "namedtensor.stage1.tree")
    pm = p.module("namedtensor.stage1.parse")
    ev = LiteralEvaluator(p, pm)
    try:
        pairs = dict(ev.name("_parentheses"))
    except NotLiteral:
        raise AnalysisError("anchor vanished: _parentheses table of the lexer")
    ell = p.cls("Ellipsis", "namedtensor.stage1.tree")
    es = common.specialised(p, ell, "__str__")  # its own method, or the row of a type-keyed printer table
    if es is None:
        raise AnalysisError("anchor vanished: stage1.Ellipsis.__str__")
    s0 = es.node.args.args[0].arg
    # the printer and the helpers it hands its operand to (`_ellipsis_operand(self.inner)`): under which names the
    # operand is known in each
    views = [(es, {f"{s0}.inner"} | {t.id for a in ast.walk(es.node) if isinstance(a, ast.Assign) and norm(a.value) == f"{s0}.inner" for t in a.targets if isinstance(t, ast.Name)})]
    for c_ in ast.walk(es.node):
        if isinstance(c_, ast.Call):
            r_ = resolve_callee(p, c_, es.module)
            if r_ and r_[0] == "func" and r_[1].module is es.module and r_[1].cls is None:
                for i_, a_ in enumerate(c_.args):
                    if norm(a_) in views[0][1] and i_ < len(r_[1].params):
                        views.append((r_[1], {r_[1].params[i_]}))
    wrapped = set()
    for fn_, aliases in views:
        for n in ast.walk(fn_.node):
            if isinstance(n, ast.Call) and isinstance(n.func, ast.Name) and n.func.id == "isinstance" and len(n.args) == 2 and norm(n.args[0]) in aliases:
                wrapped |= {x.id for x in ast.walk(n.args[1]) if isinstance(x, ast.Name)}

    # (b) a class flag consulted by the printer: `if not self.inner._is_atomic: inner = "{" + inner + "}"`
    flag, wrap_when = None, None
    for fn_, aliases in views:
        ecfg = common.cfg_of(fn_)
        for a in walk_no_nested(fn_.node):
            if isinstance(a, (ast.Assign, ast.Return)) and a.value is not None and any(isinstance(x, ast.Constant) and isinstance(x.value, str) and x.value in ("(", "[", "{") for x in ast.walk(a.value)):
                for t, pol in ecfg.guards_of_ast(a):
                    if isinstance(t, ast.Attribute) and norm(t.value) in aliases:
                        flag, wrap_when = t.attr, pol

    def flag_of(c):
        for k in p.mro(c):
            if not hasattr(k, "node"):
                continue
            for st in k.node.body:
                if isinstance(st, ast.Assign) and any(isinstance(t, ast.Name) and t.id == flag for t in st.targets) and isinstance(st.value, ast.Constant):
                    return bool(st.value.value)
        return None

    from sa.exh import _constructed_names

    def shape_of(c):
        f = common.specialised(p, c, "__str__")
        if f is None:
            return "inherited"
        kinds = set()
        for r in walk_no_nested(f.node):
            if isinstance(r, ast.Return) and r.value is not None:
                v = r.value
                parts = []
                while isinstance(v, ast.BinOp) and isinstance(v.op, ast.Add):
                    parts.insert(0, v.right)
                    v = v.left
                parts.insert(0, v)
                if len(parts) >= 3 and isinstance(parts[0], ast.Constant) and isinstance(parts[-1], ast.Constant) and pairs.get(parts[0].value) == parts[-1].value:
                    kinds.add("delimited")
                elif isinstance(r.value, ast.JoinedStr) and r.value.values and isinstance(r.value.values[0], ast.Constant) and isinstance(r.value.values[-1], ast.Constant) and pairs.get(r.value.values[0].value[:1]) == r.value.values[-1].value[-1:]:
                    kinds.add("delimited")
                elif isinstance(r.value, ast.Constant):
                    kinds.add("token")
                elif isinstance(r.value, ast.IfExp) and all(_atom(x) for x in (r.value.body, r.value.orelse)):
                    kinds.add("token")
                elif _atom(r.value):
                    kinds.add("token")
                else:
                    kinds.add("open")
        return "open" if "open" in kinds else ("delimited" if "delimited" in kinds else "token")

    top_level_only = {"Args", "Op"}  # never the operand of an ellipsis (the parser builds them only at the root)
    for c in p.subclasses(base):
        if c.module is not m or c.name in top_level_only:
            continue
        if p.subclasses(c, strict=True) and c.name not in _constructed_names(p):
            continue  # an intermediate base class without instances of its own
        sh = shape_of(c)
        key = f"{es.qualname}:operand:{c.name}"
        by_flag = flag is not None and flag_of(c) is not None and flag_of(c) == wrap_when
        if (by_flag or c.name in wrapped) and sh == "delimited":
            rep.violation("C12.R10", key + ":wrapped-group", es.loc, f"str({c.name}) already is a delimited group, but Ellipsis.__str__ wraps it once more in braces, which the parser does not read: an accepted expression such as '(a + b)...' is printed as text that cannot be parsed back")
        elif by_flag:
            rep.ok("C12.R10", key, c.loc, f"{c.name}.{flag} = {flag_of(c)}: Ellipsis.__str__ wraps this operand")
        elif sh in ("delimited", "token"):
            rep.ok("C12.R10", key, c.loc, f"str({c.name}) is a {sh}: `{c.name}...` re-parses as one operand")
        else:
            ok = c.name in wrapped
            rep.add("C12.R10", key, es.loc, ok, f"str({c.name}) is not a single group; Ellipsis.__str__ wraps it" if ok else f"str({c.name}) is not a single group and Ellipsis.__str__ prints it bare: an ellipsis whose operand is itself an {c.name} prints as e.g. 'a......', which does not re-parse - einx.sum('[a...]...', x) raises a SyntaxError about text the caller never wrote")


def _lit_rejected(p, f, at, name, lit, depth=0):
    """is `at` (a node of function f) reached only when `lit not in <name>` holds - by a dominating raise-guard, a
    checking helper, or (for a private helper that receives the string as parameter) at every call site"""
    cfg = CFG(f.node)
    for t, pol in cfg.guards_of_ast(at):
        if isinstance(t, ast.Compare) and len(t.ops) == 1 and isinstance(t.left, ast.Constant) and t.left.value == lit and isinstance(t.comparators[0], ast.Name) and t.comparators[0].id == name:
            if (isinstance(t.ops[0], ast.In) and not pol) or (isinstance(t.ops[0], ast.NotIn) and pol):
                return True
    if depth < 2 and name in f.params and f.parent is None and f.cls is None and f.name.startswith("_"):
        sites = [(g, cc) for g in p.funcs.values() if g.module is f.module and g is not f for cc in walk_no_nested(g.node) if isinstance(cc, ast.Call) and resolve_callee(p, cc, g.module) == ("func", f)]
        if sites:
            ok = True
            for g, cc in sites:
                i = f.params.index(name)
                arg = cc.args[i] if i < len(cc.args) else next((k.value for k in cc.keywords if k.arg == name), None)
                ok = ok and isinstance(arg, ast.Name) and _lit_rejected(p, g, cc, arg.id, lit, depth + 1)
            return ok
    return False


def r11(p, rep):
    rep.rule("C12.R11", "the text that is parsed as the caller's description is the caller's own string (errors then quote what the caller wrote)", "T-DER (first argument of the description parser at every entry point)", floor=2)
    targets = {p.func("_parse_op", "adapter.einx_from_namedtensor")}
    n = 0
    for f in p.funcs.values():
        if not f.module.name.startswith("einx._src.") or f in targets:
            continue
        for c in walk_no_nested(f.node):
            if not isinstance(c, ast.Call) or not c.args:
                continue
            r = resolve_callee(p, c, f.module)
            if not (r and r[0] == "func" and r[1] in targets):
                continue
            n += 1
            a0 = c.args[0]
            origin = common.origin_params(f, a0)
            plain = isinstance(a0, ast.Name) and a0.id in (set(f.params) | {q for g in _enclosing11(f) for q in g.params})
            # when einx appends notation of its own to the description, the caller's string must first be shown free of
            # that notation (otherwise errors point at text einx added itself)
            lits = [x.value for x in ast.walk(a0) if isinstance(x, ast.Constant) and isinstance(x.value, str) and x.value.strip()] if not plain else []
            for lit in {l.strip() for l in lits}:
                pnames = {x.id for x in ast.walk(a0) if isinstance(x, ast.Name)} & set(f.params)
                guarded = bool(pnames) and all(_lit_rejected(p, f, c, pn, lit) for pn in pnames)
                rep.add("C12.R11", f"{f.module.name}:{r[1].name}:appended({lit}):guard", f"{f.module.rel}:{c.lineno}", guarded, f"a description that already contains {lit!r} is rejected (quoting the caller's string) before {lit!r} is appended" if guarded else f"einx appends {lit!r} to the description without first rejecting descriptions that contain {lit!r} themselves: the parser then complains about the {lit!r} einx added (marker under text the caller never wrote)")
            rep.add("C12.R11", f"{f.module.name}:{r[1].name}:description", f"{f.module.rel}:{c.lineno}", plain, f"`{norm(a0)}` is the caller's description, unchanged" if plain else f"`{norm(a0)[:50]}` is parsed in place of the caller's description: syntax errors quote text the caller never wrote (einx.solve_shapes('a (', x) reports the expression \"a ( ->\")")
    if n < 2:
        raise AnalysisError(f"unrecognised idiom: expected >= 2 call sites of _parse_op, found {n}")


def _enclosing11(f):
    g = f.parent
    while g is not None:
        yield g
        g = g.parent


def exclusive_bound_tests(fnode):
    """comparisons of a range / slice end (`.stop`, exclusive) with a length: [(Compare, ok?)] - `x.stop <= len(s)` is the
    test that admits every valid span, `x.stop < len(s)` wrongly rejects the spans that reach the last element"""
    out = []
    for c in walk_no_nested(fnode):
        if isinstance(c, ast.Compare) and len(c.ops) == 1:
            l, r, op = c.left, c.comparators[0], c.ops[0]
            is_stop = lambda e: isinstance(e, ast.Attribute) and e.attr == "stop"  # noqa: E731
            is_len = lambda e: isinstance(e, ast.Call) and isinstance(e.func, ast.Name) and e.func.id == "len"  # noqa: E731
            if is_stop(l) and is_len(r) and isinstance(op, (ast.Lt, ast.LtE)):
                out.append((c, isinstance(op, ast.LtE)))
            elif is_len(l) and is_stop(r) and isinstance(op, (ast.Gt, ast.GtE)):
                out.append((c, isinstance(op, ast.GtE)))
    return out


def r13(p, rep):
    rep.rule("C12.R13", "the end of a range (exclusive) is allowed to equal the length it is checked against: a marker span may reach the last character of the description", "bounds lint (`.stop < len(..)`) with a positive self-check", floor=1)
    import os

    n = 0
    for f in p.funcs.values():
        if not isinstance(f.node, (ast.FunctionDef, ast.AsyncFunctionDef)):
            continue
        for c, ok in exclusive_bound_tests(f.node):
            n += 1
            rep.add("C12.R13", f"{f.qualname}:{norm(c)[:50]}", f"{f.module.rel}:{c.lineno}", ok, "an exclusive end may equal the length" if ok else f"`{norm(c)}` compares an exclusive end with `<`: a span that reaches the last element is rejected (a syntax error at the end of the description then fails this internal assertion instead of being reported)")
    pos = os.path.join(os.path.dirname(os.path.dirname(os.path.abspath(__file__))), "selftest", "positive", "exclusive_bound.py")
    tree = ast.parse(open(pos).read())
    from sa.core import set_parents

    set_parents(tree)
    fns = {x.name: x for x in tree.body if isinstance(x, ast.FunctionDef)}
    if [ok for _, ok in exclusive_bound_tests(fns["bad"])] != [False] or [ok for _, ok in exclusive_bound_tests(fns["good"])] != [True]:
        raise AnalysisError("self-check of the exclusive-bound lint failed on selftest/positive/exclusive_bound.py")
    rep.ok("C12.R13", "self-check:positive-example", "selftest/positive/exclusive_bound.py", "the lint reports the seeded positive example and accepts its corrected twin")
    rep.ok("C12.R13", "sweep", "einx/", f"{n} comparisons of an exclusive end with a length inspected", nontrivial=False)


def r12(p, rep):
    rep.rule("C12.R12", "marker positions derived from a node by arithmetic are only computed for nodes that have positions (synthesised nodes carry -1): the error constructors assert on negative positions", "T-DOM (a fact `begin_pos >= 0` guards every position arithmetic: branch, conditional expression or the predicate handed over with the callback)", floor=2)
    from sa.cfg import decompose

    m = p.module("namedtensor.util")
    n = 0

    def nonneg(t, pol, node):
        return isinstance(t, ast.Compare) and len(t.ops) == 1 and norm(t.left) in (f"{node}.begin_pos", f"{node}.end_pos") and ((isinstance(t.ops[0], (ast.GtE, ast.Gt)) and pol) or (isinstance(t.ops[0], (ast.Lt, ast.LtE)) and not pol))

    seen = set()
    for site in ast.walk(m.tree):
        # arithmetic on a position: <node>.begin_pos / .end_pos as an operand of + or -
        if not (isinstance(site, ast.BinOp) and isinstance(site.op, (ast.Add, ast.Sub))):
            continue
        ops = [x for x in (site.left, site.right) if isinstance(x, ast.Attribute) and x.attr in ("begin_pos", "end_pos")]
        if not ops:
            continue
        node = norm(ops[0].value)
        # report once per enclosing statement / lambda
        holder = site
        while getattr(holder, "_parent", None) is not None and not isinstance(holder, (ast.stmt, ast.Lambda)):
            holder = holder._parent
        if (id(holder), node) in seen:
            continue
        seen.add((id(holder), node))
        n += 1
        facts = []
        # conditional expressions around the arithmetic
        cur = site
        while getattr(cur, "_parent", None) is not None and not isinstance(cur, (ast.FunctionDef, ast.Lambda, ast.Module)):
            par = cur._parent
            if isinstance(par, ast.IfExp):
                if cur is par.body:
                    facts += decompose(par.test, True)
                elif cur is par.orelse:
                    facts += decompose(par.test, False)
            cur = par
        scope = cur
        f = p.func_containing(site) if not isinstance(scope, ast.Lambda) else None
        if isinstance(scope, ast.FunctionDef):
            f = p.func_of_node.get(id(scope))
            if f is not None:
                facts += common.cfg_of(f).guards_of_ast(site)
        ok = any(nonneg(t, pol, node) for t, pol in facts)
        if not ok and isinstance(scope, (ast.Lambda, ast.FunctionDef)):
            # the arithmetic lives in a callback (`to_pos`): the predicate handed over in the same call decides for which
            # nodes it runs.  Callback = the lambda itself, or a function referred to by name in a call's arguments
            cb_name = scope.name if isinstance(scope, ast.FunctionDef) else None
            for call in ast.walk(m.tree):
                if not isinstance(call, ast.Call):
                    continue
                is_cb = any(a is scope for a in call.args) or (cb_name is not None and any(isinstance(a, ast.Name) and a.id == cb_name for a in call.args))
                if not is_cb:
                    continue
                for other in call.args:
                    pred = None
                    if isinstance(other, ast.Lambda) and other is not scope and len(other.args.args) == 1:
                        pred = (other.args.args[0].arg, other.body)
                    elif isinstance(other, ast.Name) and other.id != cb_name:
                        # the definition visible at the call: a nested def of an enclosing function first, then the module
                        g = None
                        anc = getattr(call, "_parent", None)
                        while anc is not None and g is None:
                            if isinstance(anc, (ast.FunctionDef, ast.Module)):
                                g = next((x for x in anc.body if isinstance(x, ast.FunctionDef) and x.name == other.id and len(x.args.args) == 1), None)
                            anc = getattr(anc, "_parent", None)
                        if g is not None:
                            rets = [r.value for r in ast.walk(g) if isinstance(r, ast.Return) and r.value is not None]
                            if len(rets) == 1:
                                pred = (g.args.args[0].arg, rets[0])
                    if pred is None:
                        continue
                    q, body = pred
                    prm = scope.args.args[0].arg if scope.args.args else None
                    if prm == node and any(nonneg(t, pol, q) for t, pol in decompose(body, True)):
                        ok = True
        where = (p.func_of_node.get(id(scope)).qualname if isinstance(scope, ast.FunctionDef) and p.func_of_node.get(id(scope)) else f"{m.name}::<lambda>")
        rep.add("C12.R12", f"{where}:positions({norm(site)[:40]})", f"{m.rel}:{site.lineno}", ok, f"`{norm(site)[:50]}` is computed only when {node}.begin_pos >= 0" if ok else f"`{norm(site)[:60]}` is computed for every node, including synthesised ones whose positions are -1: the positions become negative and the assert of the error constructor fires - the caller gets a bare AssertionError instead of the documented RankError / SemanticError")
    if n == 0:
        raise AnalysisError("unrecognised idiom: no position arithmetic found in namedtensor/util.py")


def run(p, rep, tier):
    r8(p, rep)
    rep.rule("C12.R1", "parser dispatch chains cover their tables / node families", "T-EXH", floor=5)
    parse_funcs = [f for f in p.funcs.values() if f.module.name.endswith("namedtensor.stage1.parse") or f.module.name.endswith("namedtensor.stage1.transform")]
    common.exhaustiveness(p, rep, "C12.R1", funcs=parse_funcs)
    literals = r2(p, rep)
    r3(p, rep)
    rep.rule("C03.R6", "SyntaxError built by the parser quotes the caller's own (never rebound) text", "T-DER first argument", floor=8)
    c03.r6(p, rep)
    r5(p, rep, literals)
    r6(p, rep)
    r7(p, rep)
    r9(p, rep)
    r10(p, rep)
    r11(p, rep)
    r12(p, rep)
    r13(p, rep)
    from . import c06 as _c06

    _c06.r6(p, rep, parts=("leaves",))  # the description reaches the parser through the cache-key freezing
    from . import c11 as _c11

    _c11.r8(p, rep)  # a backend whose factory module deviates from its siblings behaves differently for this property
    rep.info["undecided"] = "structural round-trip equality for all strings and termination of the recursive descent; only the alphabet/progress/dispatch/position clauses are decided"
