"""C04 - generated source is a faithful, self-contained compilation of the traced graph.

Decided clauses:
 R1 one text: the string that is exec'd is the string that is returned; the api returns that string under
    graph=True and calls the function compiled from it
 R2 the exec namespace holds nothing but the listed constants
 R3 every embedded constant is announced in a header comment under the same name
 R4 the IR and its three consumers agree (emitter branch per node class, every field emitted, inputs cover
    every transformed field, _tracer_transform rebuilds the same class from the same fields)
 R5 compute-once and side-effect emission (usage counts, inline decision, statements for in-place nodes)
 R6 [S] name fusion is only applied to an input variable that is dead afterwards and lives in the same block
 R7 (thorough, informational) the unused graph interpreter compiler/run.py vs _eval_app
 R8 every generated variable name is an identifier that is neither a Python keyword nor a reserved (hinted) name
"""

from __future__ import annotations

import ast

from sa.cfg import CFG, ReachingDefs
from sa.core import AnalysisError, attr_chain, enclosing, norm, parents, resolve_callee, src, walk_no_nested
from sa.exh import find_chains

from . import c03, c06, common, ir

ORDERING_ONLY_FIELDS = {"additional_dependencies": "only orders statements (already part of inputs=); not part of the emitted expression"}


def compile_func(p):
    return p.func("compile", "tracer.compiler.python")


def exec_site(p):
    """Where the generated text is executed: (compile Func, executing Func E, exec call, eval call or None,
    mapping {param of E: argument expression in compile} (empty when E is compile itself))."""
    f = compile_func(p)
    m = f.module
    cands = []
    for g in p.funcs.values():
        if g.module is not m:
            continue
        for n in walk_no_nested(g.node):
            if isinstance(n, ast.Call) and isinstance(n.func, ast.Name) and n.func.id == "exec" and len(n.args) >= 1:
                cands.append((g, n))
    if len(cands) != 1:
        raise AnalysisError(f"unrecognised idiom: expected exactly one exec(...) in tracer/compiler/python, found {len(cands)}")
    g, ex = cands[0]
    ev = next((n for n in walk_no_nested(g.node) if isinstance(n, ast.Call) and isinstance(n.func, ast.Name) and n.func.id == "eval"), None)
    mapping = {}
    if g is not f:
        sites = [n for n in walk_no_nested(f.node) if isinstance(n, ast.Call) and resolve_callee(p, n, m) == ("func", g)]
        if len(sites) != 1:
            raise AnalysisError(f"unrecognised idiom: helper {g.name} that exec()s the code is called {len(sites)} times from compile()")
        call = sites[0]
        for i, a in enumerate(call.args):
            if i < len(g.params):
                mapping[g.params[i]] = a
        for k in call.keywords:
            if k.arg:
                mapping[k.arg] = k.value
        mapping["__call__"] = call
    return f, g, ex, ev, mapping


def r1(p, rep):
    rep.rule("C04.R1", "the executed text is the returned text", "T-DER (same reaching definition)", floor=3)
    f, g, ex, ev, mapping = exec_site(p)
    cfg = CFG(f.node)
    rd = ReachingDefs(cfg)
    a0 = ex.args[0]
    if not isinstance(a0, ast.Name):
        rep.violation("C04.R1", f"{f.qualname}:exec:arg0", f"{g.module.rel}:{ex.lineno}", f"exec() runs the expression `{norm(a0)}`, not the stored source text that is returned to the caller")
        return
    if g is not f:
        # the executed text is a parameter of the helper, never rebound there
        rebound = [n for n in walk_no_nested(g.node) if isinstance(n, ast.Name) and n.id == a0.id and isinstance(n.ctx, ast.Store)]
        src_expr = mapping.get(a0.id)
        if a0.id not in g.params or rebound or not isinstance(src_expr, ast.Name):
            rep.violation("C04.R1", f"{f.qualname}:exec:arg0", f"{g.module.rel}:{ex.lineno}", f"the text given to exec() in {g.name} is not exactly the string compile() passes in")
            return
        code_name, exec_anchor = src_expr.id, mapping["__call__"]
    else:
        code_name, exec_anchor = a0.id, ex
    rets = [n for n in walk_no_nested(f.node) if isinstance(n, ast.Return) and isinstance(n.value, ast.Tuple)]
    if not rets:
        raise AnalysisError("unrecognised idiom: compile() has no `return function, code`")
    for r in rets:
        code_elt = r.value.elts[-1]
        same_name = isinstance(code_elt, ast.Name) and code_elt.id == code_name
        d1 = rd.defs_reaching(cfg.node_for(exec_anchor), code_name)
        d2 = rd.defs_reaching(cfg.node_for(r), code_name) if same_name else []
        ok = same_name and d1 == d2 and len(d1) == 1
        rep.add("C04.R1", f"{f.qualname}:exec-vs-return", f"{f.module.rel}:{r.lineno}", ok, f"exec({code_name}) and `return ..., {norm(code_elt)}` see the same single definition of {code_name}" if ok else f"the returned code `{norm(code_elt)}` is not the text given to exec(`{code_name}`) (definitions {d1} vs {d2})")
    # the api wrappers
    for w in c03.api_inners(p):
        calls, fn_names, code_names, bound = c03.compiled_function_calls(p, w)
        assigns = {id(a) for a, i in bound.values()}
        rep.add("C04.R1", f"{w.qualname}:one-unpack", w.loc, len(assigns) == 1, "function and code come from one unpacking of one cache call")
        cfgw = CFG(w.node)
        n_graph = 0
        for r in [n for n in walk_no_nested(w.node) if isinstance(n, ast.Return)]:
            facts = [(norm(t), pol) for t, pol in cfgw.guards(cfgw.node_for(r))] if cfgw.node_for(r) else []
            if ("graph", True) in facts:
                n_graph += 1
                ok = isinstance(r.value, ast.Name) and r.value.id in code_names
                rep.add("C04.R1", f"{w.qualname}:graph-returns-code", f"{w.module.rel}:{r.lineno}", ok, f"graph=True returns `{norm(r.value)}`" + ("" if ok else ", which is not the code string of the compiled function"))
        if n_graph == 0:
            # `return helper(graph, function, code, tensor_args)`: the helper returns its code parameter under graph
            ok = False
            for c in calls:
                h = getattr(c, "_helper", None)
                if h is None:
                    continue
                hf = h[0]
                amap = {hf.params[i]: a for i, a in enumerate(c.args) if i < len(hf.params)}
                cfgh = CFG(hf.node)
                for r in walk_no_nested(hf.node):
                    if isinstance(r, ast.Return) and isinstance(r.value, ast.Name):
                        facts = [(t, pol) for t, pol in cfgh.guards(cfgh.node_for(r))]
                        gnames = {k for k, v in amap.items() if isinstance(v, ast.Name) and v.id == "graph"}
                        if any(isinstance(t, ast.Name) and t.id in gnames and pol for t, pol in facts):
                            v = amap.get(r.value.id)
                            ok = isinstance(v, ast.Name) and v.id in code_names
            rep.add("C04.R1", f"{w.qualname}:graph-returns-code", w.loc, ok, "graph=True returns the code string of the compiled function (through a helper)" if ok else "no return of the code string under graph=True found")


def namespace_copy_of(p, g, ns_name):
    """definitions of the exec namespace `ns_name` in function g -> list of (definition node, copied mapping name or None)"""
    out = []
    for n in walk_no_nested(g.node):
        if isinstance(n, ast.Assign) and any(isinstance(t, ast.Name) and t.id == ns_name for t in n.targets):
            d = n.value
            src_name = None
            if isinstance(d, ast.Dict) and len(d.keys) == 1 and d.keys[0] is None and isinstance(d.values[0], ast.Name):
                src_name = d.values[0].id
            elif isinstance(d, ast.Call) and isinstance(d.func, ast.Name) and d.func.id == "dict" and len(d.args) == 1 and isinstance(d.args[0], ast.Name) and not d.keywords:
                src_name = d.args[0].id
            out.append((n, src_name))
    return out


def r2(p, rep):
    rep.rule("C04.R2", "the exec namespace contains only the listed constants", "T-EFF", floor=1)
    f, g, ex, ev, mapping = exec_site(p)
    for c in [x for x in (ex, ev) if x is not None]:
        for a in c.args[1:]:
            key = f"{f.qualname}:{c.func.id}:ns"
            site = f"{g.module.rel}:{c.lineno}"
            if not isinstance(a, ast.Name):
                rep.add("C04.R2", key, site, False, f"namespace is the expression `{norm(a)}`")
                continue
            defs = namespace_copy_of(p, g, a.id)
            ok = bool(defs) and all(sn is not None for _, sn in defs)
            why = []
            for d, sn in defs:
                if sn is None:
                    why.append(f"built by `{norm(d.value)[:60]}`")
                    continue
                # the copied mapping is the constants table (possibly received as a parameter)
                origin = sn
                if g is not f and sn in g.params:
                    v = mapping.get(sn)
                    origin = v.id if isinstance(v, ast.Name) else None
                tdefs = [n.value for n in walk_no_nested(f.node) if isinstance(n, ast.Assign) and any(isinstance(t, ast.Name) and t.id == origin for t in n.targets)] if origin else []
                good = bool(tdefs) and all(isinstance(t, ast.DictComp) and "variableid_to_constant" in norm(t) for t in tdefs)
                if not good:
                    ok = False
                    why.append(f"copies `{sn}` which is not (only) the table of embedded constants")
            muts = [n for n in walk_no_nested(g.node) if (isinstance(n, ast.Subscript) and isinstance(n.ctx, ast.Store) and norm(n.value) == a.id) or (isinstance(n, ast.Call) and isinstance(n.func, ast.Attribute) and norm(n.func.value) == a.id and n.func.attr in ("update", "setdefault"))]
            if muts:
                ok = False
                why.append("mutated after construction")
            rep.add("C04.R2", key, site, ok, f"`{a.id}` = copy of the constants table only" if ok else f"the namespace of the generated code is not just the constants table: {why}; the returned text is then not self-contained")


def r3(p, rep):
    rep.rule("C04.R3", "embedded constants are announced in header comments under the same name", "T-DOM (same block)", floor=1)
    f = p.func("compile._eval_app", "tracer.compiler.python")
    writes = [n for n in walk_no_nested(f.node) if isinstance(n, ast.Assign) and any(isinstance(t, ast.Subscript) and norm(t.value) == "variableid_to_constant" for t in n.targets)]
    if not writes:
        raise AnalysisError("unrecognised idiom: no write to variableid_to_constant in _eval_app")
    for w in writes:
        par = getattr(w, "_parent", None)
        blk = None
        for fld in ("body", "orelse"):
            b = getattr(par, fld, None)
            if isinstance(b, list) and w in b:
                blk = b
        text = " ".join(norm(s) for s in blk) if blk else ""
        hint = "const{len(variableid_to_constant)}"
        ok_comment = "comment_statement(" in text and ".prepend(" in text and text.count(hint) >= 2
        ok_hint = "name_hints[" in text and hint in text
        rep.add("C04.R3", f"{f.qualname}:constant-announced", f"{f.module.rel}:{w.lineno}", ok_comment and ok_hint, "the constant's name hint and its `# Constant constN: ...` header comment use the same counter in the same block" if ok_comment and ok_hint else "a constant is stored without a matching header comment / name hint: the returned text cannot be re-executed from its header")


def eval_app_branches(p):
    f = p.func("compile._eval_app", "tracer.compiler.python")
    chains = [c for c in find_chains(p, f) if c.kind == "class"]
    if not chains:
        raise AnalysisError("unrecognised idiom: _eval_app has no isinstance dispatch chain")
    ch = max(chains, key=lambda c: len(c.arms))
    out = {}
    cur = ch.head
    while True:
        arm = [a for a in ch.arms if a.test is cur.test][0]
        for c in arm.classes:
            out[c.qualname] = cur
        if len(cur.orelse) == 1 and isinstance(cur.orelse[0], ast.If):
            cur = cur.orelse[0]
        else:
            break
    return f, ch, out


def r4(p, rep):
    rep.rule("C04.R4", "the IR node classes, the emitter, the inputs lists and _tracer_transform agree", "T-EXH + T-SIB", floor=40)
    base, subs = ir.application_classes(p)
    f, ch, branches = eval_app_branches(p)
    common.exhaustiveness(p, rep, "C04.R4", funcs=[f])
    for c in subs:
        nf = ir.NodeFacts(p, c)
        site = c.loc
        br = branches.get(c.qualname)
        # (b) every constructor field is read in its emitter branch
        if br is not None:
            subj = ch.subject
            reads = {x.attr for st in br.body for x in ast.walk(st) if isinstance(x, ast.Attribute) and norm(x.value) == subj}
            for fld in nf.fields:
                if fld in ORDERING_ONLY_FIELDS:
                    rep.exempt("C04.R4", f"{c.qualname}:emit:{fld}", site, ORDERING_ONLY_FIELDS[fld])
                    continue
                rep.add("C04.R4", f"{c.qualname}:emit:{fld}", f"{f.module.rel}:{br.lineno}", fld in reads, f"emitter branch reads {subj}.{fld}" if fld in reads else f"field `{fld}` of {c.name} is never read by its emitter branch: it is silently dropped from the generated code")
        # (c) inputs cover every transformed field
        tf = nf.transformed_fields()
        for fld in sorted(tf):
            prm = nf.field_param(fld) or fld
            ok = prm in nf.input_names or fld in nf.input_names
            rep.add("C04.R4", f"{c.qualname}:inputs:{fld}", site, ok, f"inputs= contains {prm}" if ok else f"`{fld}` holds tracers (it is transformed) but is missing from super().__init__(inputs=...): usage counting, scoping and statement ordering do not see this dependency")
        # (d) _tracer_transform rebuilds the same class from the same-named fields
        rb = nf.rebuild_call()
        if rb is None:
            rep.violation("C04.R4", f"{c.qualname}:rebuild", site, "_tracer_transform does not return a constructor call")
            continue
        r = resolve_callee(p, rb, c.module)
        same = bool(r and r[0] == "class" and r[1] is c)
        rep.add("C04.R4", f"{c.qualname}:rebuild:class", site, same, f"rebuilds {norm(rb.func)}" + ("" if same else f" instead of {c.name}"))
        args = list(rb.args)
        if len(args) + len(rb.keywords) != len(nf.params):
            rep.violation("C04.R4", f"{c.qualname}:rebuild:arity", site, f"rebuild passes {len(args) + len(rb.keywords)} arguments for constructor parameters {nf.params}")
            continue
        s = nf.transform.node.args.args[0].arg
        for i, prm in enumerate(nf.params):
            a = args[i] if i < len(args) else next((k.value for k in rb.keywords if k.arg == prm), None)
            flds = [fl for fl in nf.fields if nf.field_param(fl) == prm]
            used = {x.attr for x in ast.walk(a) if isinstance(x, ast.Attribute) and isinstance(x.value, ast.Name) and x.value.id == s} if a is not None else set()
            ok = bool(used & set(flds)) if flds else True
            if prm == "output" and not flds:
                ok = "output" in used
            rep.add("C04.R4", f"{c.qualname}:rebuild:{prm}", site, ok, f"parameter {prm} <- {norm(a)[:50] if a is not None else None}" + ("" if ok else f" (expected a value derived from self.{flds or prm})"))


def r5(p, rep):
    rep.rule("C04.R5", "compute-once and side-effect emission", "T-DOM", floor=8)
    # usage counting sees every use
    f = p.func("get_usages._recurse", "tracer.compiler.python.usage")
    cfg = CFG(f.node)
    incs = [n for n in walk_no_nested(f.node) if isinstance(n, ast.AugAssign) and isinstance(n.op, ast.Add) and "usagenum" in norm(n.target)]
    if not incs:
        raise AnalysisError("unrecognised idiom: no usage counter increment in get_usages._recurse")
    for inc in incs:
        facts = [(norm(t), pol) for t, pol in cfg.guards(cfg.node_for(inc))]
        visited = [(t, pol) for t, pol in facts if " in done" in t and pol is False]
        rep.add(
            "C04.R5",
            f"{f.qualname}:count-every-use",
            f"{f.module.rel}:{inc.lineno}",
            not visited,
            "the use counter is incremented on every visit" if not visited else "the use counter is only incremented on the first visit (it is guarded by the already-visited test), so every value has usage count 1: values used several times are inlined at each use, i.e. computed more than once, and a re-evaluation that lands after an in-place update reads the updated data",
        )
    # inline decision honours the usage count
    d = p.func("CodeObject.define", "tracer.compiler.python")
    ifs = [n for n in walk_no_nested(d.node) if isinstance(n, ast.If) and isinstance(n.test, ast.Compare) and "max_usage_num" in norm(n.test.left)]
    ok = False
    why = "no `if self.max_usage_num[obj] > 1: no_inline = True`"
    for i in ifs:
        t = i.test
        if isinstance(t.ops[0], ast.Gt) and isinstance(t.comparators[0], ast.Constant) and t.comparators[0].value == 1 and any(isinstance(s, ast.Assign) and norm(s.targets[0]) == "no_inline" and isinstance(s.value, ast.Constant) and s.value.value is True for s in i.body):
            ok, why = True, "values with more than one use are never inlined"
        elif isinstance(t.ops[0], ast.GtE) and isinstance(t.comparators[0], ast.Constant) and t.comparators[0].value == 2:
            ok, why = True, "values with more than one use are never inlined"
        else:
            why = f"inline threshold is `{norm(t)}` (must be: more than one use)"
    rep.add("C04.R5", f"{d.qualname}:inline-threshold", d.loc, ok, why)
    # Call results are assigned unless the callee is a pure builtin
    f2, ch, branches = eval_app_branches(p)
    comp = compile_func(p)
    allow = [n.value for n in walk_no_nested(comp.node) if isinstance(n, ast.Assign) and any(norm(t) == "allow_inline_functions" for t in n.targets)]
    pure = {"isinstance", "tuple", "list", "len", "type"}
    if allow and isinstance(allow[0], ast.List):
        names = [attr_chain(e)[-1] if attr_chain(e) else norm(e) for e in allow[0].elts]
        rep.add("C04.R5", f"{comp.qualname}:allow_inline_functions", f"{comp.module.rel}:{allow[0].lineno}", set(names) <= pure, f"inlineable callees {names}" + ("" if set(names) <= pure else " include functions that are not pure builtins"))
    else:
        raise AnalysisError("unrecognised idiom: allow_inline_functions list not found")
    localfns = {n.name: n for n in walk_no_nested(comp.node) if isinstance(n, ast.FunctionDef)}
    localfns.update({g.name: g.node for g in p.funcs.values() if g.module is comp.module and g.parent is None and g.cls is None})
    for q, br in branches.items():
        cname = q.split("::")[1]
        body = common.expand_local_helper_calls(br.body, localfns)
        defines = [n for st in body for n in ast.walk(st) if isinstance(n, ast.Call) and norm(n.func) == "code.define"]
        appends = [n for st in body for n in ast.walk(st) if isinstance(n, ast.Call) and isinstance(n.func, ast.Attribute) and n.func.attr in ("append", "prepend_after_comments", "prepend") and n.args and isinstance(n.args[0], ast.Call) and norm(n.args[0].func).endswith("Statement")]
        site = f"{f2.module.rel}:{br.lineno}"
        if cname == "Call":
            for dcall in defines:
                ni = common.kwarg(dcall, "no_inline")
                text = norm(ni) if ni is not None else ""
                if ni is not None and isinstance(ni, ast.UnaryOp) and isinstance(ni.operand, ast.Call) and isinstance(ni.operand.func, ast.Name) and ni.operand.func.id in localfns:
                    text += " :: " + " ".join(norm(b) for b in localfns[ni.operand.func.id].body)
                ok = ni is not None and isinstance(ni, ast.UnaryOp) and isinstance(ni.op, ast.Not) and "allow_inline_functions" in text
                rep.add("C04.R5", f"{f2.qualname}:Call:no_inline", site, ok, f"no_inline={norm(ni) if ni is not None else '<default False>'}" + ("" if ok else ": results of arbitrary calls may be inlined and re-evaluated at every use"))
        if cname in ("CallInplace", "UpdateItem", "Assert"):
            order = [n for st in body for n in ast.walk(st) if n in appends or n in defines]
            ok = bool(appends) and bool(defines) and order.index(appends[0]) < order.index(defines[0])
            rep.add("C04.R5", f"{f2.qualname}:{cname}:statement", site, ok, "a Statement is appended to the block before the output is defined as an alias" if ok else f"the {cname} branch defines its output without emitting a statement first: the side effect is lost or reordered")
            for dcall in defines:
                fi = common.kwarg(dcall, "force_inline")
                ok2 = isinstance(fi, ast.Constant) and fi.value is True
                rep.add("C04.R5", f"{f2.qualname}:{cname}:alias", site, ok2, "output is an alias of the mutated / asserted operand (force_inline=True)")
            # the statement's inputs cover every expression of the branch
            if appends:
                st_call = appends[0].args[0]
                inp = common.kwarg(st_call, "inputs")
                exprs = {t.id for s in br.body if isinstance(s, ast.Assign) and isinstance(s.value, (ast.Call, ast.ListComp, ast.DictComp)) and "_get_expression_for" in norm(s.value) for t in s.targets if isinstance(t, ast.Name)}
                if cname == "UpdateItem":
                    # `to_code, inputs = _at(obj, key)`: the second element carries the expressions of object and key
                    for s_ in br.body:
                        if isinstance(s_, ast.Assign) and isinstance(s_.targets[0], ast.Tuple) and isinstance(s_.value, ast.Call) and norm(s_.value.func) == "_at" and len(s_.targets[0].elts) == 2:
                            exprs.add(norm(s_.targets[0].elts[1]))
                used = common.names_feeding(br.body, inp) if inp is not None else set()
                missing = exprs - used
                rep.add("C04.R5", f"{f2.qualname}:{cname}:statement-inputs", site, not missing, f"Statement(inputs=...) lists {sorted(used)}" + ("" if not missing else f"; {sorted(missing)} missing: liveness / ordering ignores that dependency"))


def _truth_facts(p, g):
    """facts (test, polarity) under which predicate function g returns a truthy value, one list per such return"""
    from sa.cfg import decompose

    cfg = CFG(g.node)
    out = []
    for ret in walk_no_nested(g.node):
        if isinstance(ret, ast.Return) and ret.value is not None and not (isinstance(ret.value, ast.Constant) and ret.value.value in (False, None)):
            facts = cfg.guards(cfg.node_for(ret))
            if not (isinstance(ret.value, ast.Constant) and ret.value.value is True):
                facts = facts + decompose(ret.value, True)
            out.append(facts)
    return out


def r6(p, rep):
    rep.rule("C04.R6", "name fusion only re-uses the name of an input variable that is dead and lives in the same block", "T-DER [S] (enumerated filter shapes)", floor=4)
    from sa.cfg import decompose

    comp = compile_func(p)
    scope = [g for g in p.funcs.values() if g.module is comp.module and (g is comp or g.parent is None)]
    # the group-merging helper (by role): a nested function that re-points every member of one group to the other
    # (`for v in g2: M[id(v)] = g1; g1.append(v)`), and its call site
    sites = []
    for host in scope:
        for g in [x for x in p.funcs.values() if x.parent is host]:
            merges = [l for l in walk_no_nested(g.node) if isinstance(l, ast.For) and any(isinstance(st, ast.Assign) and isinstance(st.targets[0], ast.Subscript) for st in l.body) and any(isinstance(st, ast.Expr) and isinstance(st.value, ast.Call) and norm(st.value.func).endswith(".append") for st in l.body)]
            if not merges or len(g.params) != 2:
                continue
            for n in walk_no_nested(host.node):
                if isinstance(n, ast.Call) and isinstance(n.func, ast.Name) and n.func.id == g.name and len(n.args) == 2:
                    sites.append((host, g, n))
    if len(sites) != 1:
        raise AnalysisError(f"unrecognised idiom: expected one call of the group-merging helper in the code generator, found {len(sites)}")
    f, fuse, fc = sites[0]
    site = f"{f.module.rel}:{fc.lineno}"
    a0 = fc.args[0]
    loop = enclosing(fc, ast.For)
    if loop is None:
        raise AnalysisError("unrecognised idiom: group merging is not done inside the statement loop")
    if isinstance(a0, ast.Call) and isinstance(a0.func, ast.Attribute) and a0.func.attr == "pop" and not a0.args:
        # fuse(<set>.pop(), ...): the candidate is taken from the set right in the call
        popcall = a0
    elif isinstance(a0, ast.Name):
        pops = [n for n in ast.walk(loop) if isinstance(n, ast.Assign) and any(isinstance(t, ast.Name) and t.id == a0.id for t in n.targets)]
        if len(pops) != 1 or not (isinstance(pops[0].value, ast.Call) and isinstance(pops[0].value.func, ast.Attribute) and pops[0].value.func.attr == "pop"):
            raise AnalysisError("unrecognised idiom: the fused input variable is not obtained by <set>.pop()")
        popcall = pops[0].value
    else:
        raise AnalysisError("unrecognised idiom: first argument of the group-merging call is neither a name nor <set>.pop()")
    setname = norm(popcall.func.value)
    comps = [n for n in ast.walk(loop) if isinstance(n, ast.Assign) and any(norm(t) == setname for t in n.targets) and isinstance(n.value, ast.SetComp) and n.lineno < popcall.lineno]
    # collect all conditions a candidate has to satisfy (comprehension filters, expanded through local predicates)
    conds = []
    localfns = {g.name: g for g in p.funcs.values() if g.parent is f or g.parent is comp}
    for c in comps:
        for cond in c.value.generators[0].ifs:
            for t, pol in decompose(cond, True):
                if pol and isinstance(t, ast.Call) and isinstance(t.func, ast.Name) and t.func.id in localfns:
                    tf = _truth_facts(p, localfns[t.func.id])
                    if len(tf) == 1:
                        conds += tf[0]
                        continue
                conds.append((t, pol))
    texts = [(norm(t), pol) for t, pol in conds]
    rep.info["fusion_filters"] = [t if pol else f"not ({t})" for t, pol in texts]
    # (1) allow_reusing_name
    ok1 = any(isinstance(t, ast.Attribute) and t.attr == "allow_reusing_name" and pol for t, pol in conds)
    rep.add("C04.R6", f"{comp.qualname}:fuse:allow_reusing_name", site, ok1, "candidates are filtered by allow_reusing_name" if ok1 else "imports / constants (allow_reusing_name=False) can lose their name to another value")

    def all_over_dependents(c):
        """all(<elt> for <s> in <dependents of v>) -> elt or None"""
        if isinstance(c, ast.Call) and isinstance(c.func, ast.Name) and c.func.id == "all" and c.args and isinstance(c.args[0], ast.GeneratorExp):
            ge = c.args[0]
            if len(ge.generators) != 1 or ge.generators[0].ifs:
                return None
            it = ge.generators[0].iter
            txt = norm(it)
            if isinstance(it, ast.Name):
                ds = [n.value for g_ in list(localfns.values()) + [f] for n in ast.walk(g_.node) if isinstance(n, ast.Assign) and any(isinstance(t, ast.Name) and t.id == it.id for t in n.targets)]
                txt = " ".join(norm(d) for d in ds)
            if "dependent" in txt and "[id(" in txt:
                return ge.elt
        return None

    ok2 = ok3 = False
    for t, pol in conds:
        if not pol:
            continue
        elt = all_over_dependents(t)
        if elt is None or not isinstance(elt, ast.Compare):
            continue
        if isinstance(elt.ops[0], ast.Eq) and ".block" in norm(elt.left) and ".block" in norm(elt.comparators[0]):
            ok2 = True
        if isinstance(elt.ops[0], ast.In) and norm(elt.left).startswith("id(") and "seen" in norm(elt.comparators[0]):
            ok3 = True
    rep.add("C04.R6", f"{comp.qualname}:fuse:same-block-dependents", site, ok2, "all dependent statements of the candidate are in the statement's block" if ok2 else "the filter `every dependent statement lives in this block` is missing: a value still needed by a nested function (closure, late binding) can be overwritten")
    rep.add("C04.R6", f"{comp.qualname}:fuse:dead-after", site, ok3, "all dependent statements of the candidate were already seen (the value is dead after this statement)" if ok3 else "the liveness filter is not `all(id(dependent) in seen ...)` over ALL dependents of the variable: a name can be re-used while its old value is still needed")
    cfg = CFG(f.node)
    facts = cfg.guards_of_ast(fc)
    ok4 = any(pol and ".block" in norm(t) and ("==" in norm(t) or " is " in norm(t)) for t, pol in facts)
    rep.add("C04.R6", f"{comp.qualname}:fuse:same-block-pair", site, ok4, "merge only when input and output variable live in the same block" if ok4 else "the merge is not guarded by equal blocks of the two variables")
    out_pop = [n for n in ast.walk(loop) if isinstance(n, ast.Assign) and isinstance(n.value, ast.Call) and isinstance(n.value.func, ast.Attribute) and n.value.func.attr == "pop" and n.value is not popcall]
    b1 = common.len_bounds(facts, setname)
    b2 = common.len_bounds(facts, norm(out_pop[0].value.func.value)) if out_pop else (0, None)
    ok5 = b1 == (1, 1) and b2 == (1, 1)
    rep.add("C04.R6", f"{comp.qualname}:fuse:unique", site, ok5, "exactly one output and exactly one dead input" if ok5 else f"fusion is not restricted to a unique output / unique dead input (bounds {b2} / {b1})")


def r7(p, rep):
    rep.rule("C04.R7", "(informational) the unwired graph interpreter vs the code generator", "T-SIB", floor=0)
    try:
        f = p.func("CompilationCache._get_new", "tracer.compiler.run")
    except AnalysisError:
        return
    from sa.exh import class_domain

    for ch in find_chains(p, f):
        if ch.kind == "class":
            root, domain, covered, missing = class_domain(p, ch)
            rep.exempt("C04.R7", f"{f.qualname}:missing", f.loc, f"compiler/run.py is not wired to any backend; it lacks handlers for {[m.name for m in missing]} and is therefore not a complete reference interpreter")

def _closure(host, start):
    """names transitively feeding the names in `start` through plain assignments / comprehensions of host"""
    seen, todo = set(), list(start)
    while todo:
        n = todo.pop()
        if n in seen:
            continue
        seen.add(n)
        for a in ast.walk(host):
            if isinstance(a, ast.Assign) and any(isinstance(t, ast.Name) and t.id == n for t in a.targets):
                todo += [x.id for x in ast.walk(a.value) if isinstance(x, ast.Name)]
    return seen


def _is_keyword_test(p, t, m):
    """`keyword.iskeyword(x)` / `iskeyword(x)` / `x in keyword.kwlist` -> the tested expression, else None"""
    if isinstance(t, ast.Call) and t.args:
        ch = attr_chain(t.func)
        if ch and ch[-1] == "iskeyword":
            if len(ch) == 1:
                b = m.bindings.get("iskeyword")
                if b is None or "keyword" not in (getattr(b, "target", "") or ""):
                    return None
            return t.args[0]
    if isinstance(t, ast.Compare) and len(t.ops) == 1 and isinstance(t.ops[0], (ast.In, ast.NotIn)):
        ch = attr_chain(t.comparators[0])
        if ch and ch[-1] == "kwlist":
            return t.left
    return None


def _safe_prefix(value):
    """constant leading text of an f-string / concatenation that no keyword starts with -> the prefix"""
    import keyword

    lead = None
    if isinstance(value, ast.JoinedStr) and value.values and isinstance(value.values[0], ast.Constant):
        lead = value.values[0].value
    elif isinstance(value, ast.BinOp) and isinstance(value.op, ast.Add) and isinstance(value.left, ast.Constant) and isinstance(value.left.value, str):
        lead = value.left.value
    if lead and (lead[0].isalpha() or lead[0] == "_") and not any(k.startswith(lead) for k in keyword.kwlist + keyword.softkwlist):
        return lead
    return None


def r8(p, rep):
    rep.rule("C04.R8", "generated variable names are never Python keywords or reserved hint names (the emitted text must compile for any number of variables)", "T-DOM (guard dominates every yield of the name generator)", floor=2)
    from sa.cfg import decompose

    comp = compile_func(p)
    m = comp.module
    scope = [g for g in p.funcs.values() if g.module is m]
    # the variable -> name map (by role): written as M[id(v)] = <name>, read as `return M[id(x)]` by the emitter
    read = set()
    for g in scope:
        for n in ast.walk(g.node):
            if isinstance(n, ast.Return) and isinstance(n.value, ast.Subscript) and isinstance(n.value.value, ast.Name) and norm(n.value.slice).startswith("id("):
                read.add(n.value.value.id)
    stores = []
    for g in scope:
        for n in walk_no_nested(g.node):
            if isinstance(n, ast.Assign) and len(n.targets) == 1 and isinstance(n.targets[0], ast.Subscript) and isinstance(n.targets[0].value, ast.Name) and n.targets[0].value.id in read and norm(n.targets[0].slice).startswith("id(") and isinstance(n.value, ast.Name):
                stores.append((g, n))
    if len(stores) != 1:
        raise AnalysisError(f"unrecognised idiom: expected one store `names[id(var)] = name` in the code generator, found {len(stores)}")
    host, store = stores[0]
    nm = store.value.id
    defs = [a for a in ast.walk(host.node) if isinstance(a, ast.Assign) and any(isinstance(t, ast.Name) and t.id == nm for t in a.targets)]
    gens, hint_defs = [], []
    nested = {g.name: g for g in p.funcs.values() if g.parent is host}
    for a in defs:
        v = a.value
        if isinstance(v, ast.Call) and isinstance(v.func, ast.Name) and v.func.id == "next" and v.args and isinstance(v.args[0], ast.Name):
            it = v.args[0].id
            cands = set()
            if it in nested:
                cands.add(it)
            for b in ast.walk(host.node):
                if isinstance(b, ast.Assign) and any(isinstance(t, ast.Name) and t.id == it for t in b.targets) and isinstance(b.value, ast.Call) and isinstance(b.value.func, ast.Name) and b.value.func.id in nested:
                    cands.add(b.value.func.id)
            for c in cands:
                if any(isinstance(y, (ast.Yield, ast.YieldFrom)) for y in walk_no_nested(nested[c].node)):
                    gens.append((a, nested[c]))
        else:
            hint_defs.append(a)
    if not gens:
        raise AnalysisError("unrecognised idiom: no name generator (`name = next(<generator>)`) feeds the variable -> name map")
    hint_src = _closure(host.node, {x.id for a in hint_defs for x in ast.walk(a.value) if isinstance(x, ast.Name)}) - {nm}
    rep.info["name_generators"] = [g.qualname for _, g in gens]
    for a, g in gens:
        cfg = CFG(g.node)
        # consumer-side filtering: `while iskeyword(name): name = next(...)` style loops are accepted through the store's guards
        hcfg = CFG(host.node)
        sfacts = hcfg.guards_of_ast(store) if hcfg.node_for(store) else []
        for y in [y for y in walk_no_nested(g.node) if isinstance(y, (ast.Yield, ast.YieldFrom))]:
            site = f"{m.rel}:{y.lineno}"
            if isinstance(y, ast.YieldFrom) or y.value is None:
                raise AnalysisError(f"unrecognised idiom: name generator {g.qualname} uses `{norm(y)}`")
            facts = cfg.guards_of_ast(y)
            yv = norm(y.value)
            # the yielded value may be a local re-bound from the raw product: compare by text
            kw = any((not pol) and (lambda e: e is not None and norm(e) == yv)(_is_keyword_test(p, t, m)) and not (isinstance(t, ast.Compare) and isinstance(t.ops[0], ast.NotIn)) for t, pol in facts)
            kw = kw or any(pol and isinstance(t, ast.Compare) and isinstance(t.ops[0], ast.NotIn) and (lambda e: e is not None and norm(e) == yv)(_is_keyword_test(p, t, m)) for t, pol in facts)
            kw_consumer = any((not pol) and (lambda e: e is not None and norm(e) == nm)(_is_keyword_test(p, t, m)) for t, pol in sfacts)
            val = y.value
            if isinstance(val, ast.Name):
                vd = [b.value for b in walk_no_nested(g.node) if isinstance(b, ast.Assign) and any(isinstance(t, ast.Name) and t.id == val.id for t in b.targets)]
                if len(vd) == 1:
                    val = vd[0]
            prefix = _safe_prefix(val)
            ok = kw or kw_consumer or prefix is not None
            rep.add("C04.R8", f"{g.qualname}:yield:not-a-keyword", site, ok, (f"every name starts with {prefix!r}, which no keyword starts with" if prefix else f"`{yv}` is yielded only when keyword.iskeyword({yv}) is false") if ok else f"the name sequence yields `{yv}` without excluding Python keywords: a, b, ..., z, aa, ... reaches `as` (45th), `if`, `in`, `is`, `or`; a graph with that many variables compiles to text that is not valid Python")
            # reserved names: a generated name must not equal a hinted name (import alias, constN, nested function name)
            res = False
            for t, pol in facts:
                if isinstance(t, ast.Compare) and len(t.ops) == 1 and norm(t.left) == yv and ((isinstance(t.ops[0], ast.NotIn) and pol) or (isinstance(t.ops[0], ast.In) and not pol)):
                    feeding = _closure(host.node, {x.id for x in ast.walk(t.comparators[0]) if isinstance(x, ast.Name)})
                    if feeding & hint_src:
                        res = True
            if prefix is not None and not res:
                rep.exempt("C04.R8", f"{g.qualname}:yield:not-a-reserved-name", site, f"names are built from the prefix {prefix!r}; collision with a hinted name is not decided")
            else:
                rep.add("C04.R8", f"{g.qualname}:yield:not-a-reserved-name", site, res, f"`{yv}` is yielded only when it is not one of the hinted names ({sorted(hint_src)[:4]})" if res else f"a generated name can equal a hinted name (e.g. the 380th name `np` when numpy is imported as np): the later assignment shadows the import inside the generated function")

def r9(p, rep):
    rep.rule("C04.R9", "the expression cache of the code generator keys list, tuple and dict values apart (the emitted container is the one the graph asks for)", "T-EXH (tagged key per container kind)", floor=3)
    comp = compile_func(p)
    cands = []
    for f in p.funcs.values():
        if f.module is not comp.module or f.cls is None:
            continue
        tagged = [r for r in walk_no_nested(f.node) if isinstance(r, ast.Return) and r.value is not None and _leading_tag(r.value) is not None]
        if len(tagged) >= 2:
            cands.append((f, tagged))
    if len(cands) != 1:
        raise AnalysisError(f"unrecognised idiom: expected one tagged-tuple key function in the code generator, found {[f.qualname for f, _ in cands]}")
    f, tagged = cands[0]
    cfg = CFG(f.node)
    seen_tags, kinds = {}, {}
    for r in tagged:
        tag = _leading_tag(r.value)
        classes = set()
        for t, pol in cfg.guards_of_ast(r):
            if pol and isinstance(t, ast.Call) and isinstance(t.func, ast.Name) and t.func.id == "isinstance" and len(t.args) == 2:
                c = t.args[1]
                parts = []
                stack = [c]
                while stack:
                    x = stack.pop()
                    if isinstance(x, ast.BinOp) and isinstance(x.op, ast.BitOr):
                        stack += [x.left, x.right]
                    elif isinstance(x, ast.Tuple):
                        stack += list(x.elts)
                    else:
                        parts.append(norm(x))
                classes |= set(parts)
        site = f"{f.module.rel}:{r.lineno}"
        one = len(classes) == 1
        rep.add("C04.R9", f"{f.qualname}:arm({','.join(sorted(classes))}):one-kind", site, one, f"key tag {tag!r} stands for exactly {sorted(classes)}" if one else f"key tag {tag!r} is shared by {sorted(classes)}: a list and a tuple over the same elements get one cache entry, so the generated code returns whichever container was emitted first")
        dup = tag in seen_tags
        rep.add("C04.R9", f"{f.qualname}:arm({','.join(sorted(classes))}):distinct-tag", site, not dup, f"tag {tag!r} is used by this arm only" if not dup else f"tag {tag!r} is also used for {seen_tags[tag]}")
        seen_tags[tag] = sorted(classes)
        for c in classes:
            kinds[c] = tag
    missing = {"list", "tuple", "dict"} - set(kinds)
    rep.add("C04.R9", f"{f.qualname}:kinds", f.loc, not missing, "list, tuple and dict each have their own arm" if not missing else f"no arm for {sorted(missing)}")


def _leading_tag(e):
    """(tag,) + tuple(...)   or   (tag, *ids...)  -> tag"""
    x = e
    while isinstance(x, ast.BinOp) and isinstance(x.op, ast.Add):
        x = x.left
    if isinstance(x, ast.Tuple) and x.elts and isinstance(x.elts[0], ast.Constant) and (len(x.elts) == 1 and x is not e or any(isinstance(y, ast.Starred) for y in x.elts[1:])):
        return x.elts[0].value
    return None


def run(p, rep, tier):
    r1(p, rep)
    r2(p, rep)
    r3(p, rep)
    r4(p, rep)
    r5(p, rep)
    r6(p, rep)
    r8(p, rep)
    r9(p, rep)
    rep.rule("C06.R1", "IR nodes compare every field (graph equality drives inline decisions and pattern matching)", "T-SIB (__init__ vs __eq__)", floor=30)
    c06.r1(p, rep)
    if tier == "thorough":
        r7(p, rep)
    rep.info["undecided"] = "semantic equality of the emitted program and the graph for every graph (correctness of the liveness / scoping algorithms as algorithms)"
