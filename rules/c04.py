"""C04 - generated source is a faithful, self-contained compilation of the traced graph.

Decided clauses:
 R1 one text: the string that is exec'd is the string that is returned; the api returns that string under
    graph=True and calls the function compiled from it
 R2 the exec namespace holds nothing but the listed constants
 R3 every embedded constant is announced in a header comment under the same name
 R4 the IR and its three consumers agree (emitter branch per node class, every field emitted, inputs cover
    every transformed field, _tracer_transform rebuilds the same class from the same fields)
 R5 compute-once and side-effect emission (usage counts, inline decision, statements for in-place nodes)
 R6 [S] name fusion is only applied to an input variable that is dead afterwards and lives in the same block
 R7 (thorough, informational) the unused graph interpreter compiler/run.py vs _eval_app
 R8 every generated variable name is an identifier that is neither a Python keyword nor a reserved (hinted) name
"""

from __future__ import annotations

import ast

from sa.core import register_cache  # noqa: E402

from sa.cfg import CFG, ReachingDefs
from sa.core import AnalysisError, attr_chain, enclosing, norm, parents, resolve_callee, src, walk_no_nested
from sa.exh import find_chains

from . import c03, c06, common, ir

ORDERING_ONLY_FIELDS = {"additional_dependencies": "only orders statements (already part of inputs=); not part of the emitted expression"}


def compile_func(p):
    return p.func("compile", "tracer.compiler.python")


def exec_site(p):
    """Where the generated text is executed: (compile Func, executing Func E, exec call, eval call or None,
    mapping {param of E: argument expression in compile} (empty when E is compile itself))."""
    f = compile_func(p)
    m = f.module
    cands = []
    pkg = m.name.rsplit(".", 1)[0] if not m.rel.endswith("__init__.py") else m.name
    reach = set(common.with_helpers(p, f, depth=2, same_module_only=False))
    for g in p.funcs.values():
        # the compiler module itself, or a helper of compile() in a sibling module of the same package
        if g.module is not m and not (g in reach and g.module.name.startswith(pkg + ".")):
            continue
        for n in walk_no_nested(g.node):
            if isinstance(n, ast.Call) and isinstance(n.func, ast.Name) and n.func.id == "exec" and len(n.args) >= 1:
                cands.append((g, n))
    if len(cands) != 1:
        raise AnalysisError(f"unrecognised idiom: expected exactly one exec(...) in tracer/compiler/python, found {len(cands)}")
    g, ex = cands[0]
    ev = next((n for n in walk_no_nested(g.node) if isinstance(n, ast.Call) and isinstance(n.func, ast.Name) and n.func.id == "eval"), None)
    mapping = {}
    if g is not f:
        sites = [n for n in walk_no_nested(f.node) if isinstance(n, ast.Call) and resolve_callee(p, n, m) == ("func", g)]
        if len(sites) != 1:
            raise AnalysisError(f"unrecognised idiom: helper {g.name} that exec()s the code is called {len(sites)} times from compile()")
        call = sites[0]
        for i, a in enumerate(call.args):
            if i < len(g.params):
                mapping[g.params[i]] = a
        for k in call.keywords:
            if k.arg:
                mapping[k.arg] = k.value
        mapping["__call__"] = call
    return f, g, ex, ev, mapping


def r1(p, rep):
    rep.rule("C04.R1", "the executed text is the returned text", "T-DER (same reaching definition)", floor=3)
    f, g, ex, ev, mapping = exec_site(p)
    cfg = CFG(f.node)
    rd = ReachingDefs(cfg)
    a0 = ex.args[0]
    if not isinstance(a0, ast.Name):
        rep.violation("C04.R1", f"{f.qualname}:exec:arg0", f"{g.module.rel}:{ex.lineno}", f"exec() runs the expression `{norm(a0)}`, not the stored source text that is returned to the caller")
        return
    if g is not f:
        # the executed text is a parameter of the helper, never rebound there
        rebound = [n for n in walk_no_nested(g.node) if isinstance(n, ast.Name) and n.id == a0.id and isinstance(n.ctx, ast.Store)]
        src_expr = mapping.get(a0.id)
        if a0.id not in g.params or rebound or not isinstance(src_expr, ast.Name):
            rep.violation("C04.R1", f"{f.qualname}:exec:arg0", f"{g.module.rel}:{ex.lineno}", f"the text given to exec() in {g.name} is not exactly the string compile() passes in")
            return
        code_name, exec_anchor = src_expr.id, mapping["__call__"]
    else:
        code_name, exec_anchor = a0.id, ex
    rets = [n for n in walk_no_nested(f.node) if isinstance(n, ast.Return) and isinstance(n.value, ast.Tuple)]
    if not rets:
        raise AnalysisError("unrecognised idiom: compile() has no `return function, code`")
    for r in rets:
        code_elt = r.value.elts[-1]
        same_name = isinstance(code_elt, ast.Name) and code_elt.id == code_name
        d1 = rd.defs_reaching(cfg.node_for(exec_anchor), code_name)
        d2 = rd.defs_reaching(cfg.node_for(r), code_name) if same_name else []
        ok = same_name and d1 == d2 and len(d1) == 1
        rep.add("C04.R1", f"{f.qualname}:exec-vs-return", f"{f.module.rel}:{r.lineno}", ok, f"exec({code_name}) and `return ..., {norm(code_elt)}` see the same single definition of {code_name}" if ok else f"the returned code `{norm(code_elt)}` is not the text given to exec(`{code_name}`) (definitions {d1} vs {d2})")
    # the api wrappers
    for w in c03.api_inners(p):
        calls, fn_names, code_names, bound = c03.compiled_function_calls(p, w)
        assigns = {id(a) for a, i in bound.values()}
        rep.add("C04.R1", f"{w.qualname}:one-unpack", w.loc, len(assigns) == 1, "function and code come from one unpacking of one cache call")
        cfgw = CFG(w.node)
        n_graph = 0
        for r in [n for n in walk_no_nested(w.node) if isinstance(n, ast.Return)]:
            facts = [(norm(t), pol) for t, pol in cfgw.guards(cfgw.node_for(r))] if cfgw.node_for(r) else []
            if ("graph", True) in facts:
                n_graph += 1
                ok = isinstance(r.value, ast.Name) and r.value.id in code_names
                rep.add("C04.R1", f"{w.qualname}:graph-returns-code", f"{w.module.rel}:{r.lineno}", ok, f"graph=True returns `{norm(r.value)}`" + ("" if ok else ", which is not the code string of the compiled function"))
        if n_graph == 0:
            # single exit: `result = code if graph else function(...)` ... `return result`: follow the paths on which the
            # graph flag is true and look at what the returned name was last bound to
            byid = {x.id: x for x in cfgw.nodes}
            verdicts = []
            for path in cfgw.paths(cfgw.entry, {cfgw.exit.id}, limit=4000):
                env, is_graph, ret = {}, False, None
                for nid in path:
                    nd = byid[nid]
                    if nd.kind == "edge" and nd.test is not None and nd.polarity is True and isinstance(nd.test, ast.Name) and nd.test.id == "graph":
                        is_graph = True
                    if nd.kind == "stmt" and isinstance(nd.ast, ast.Assign) and len(nd.ast.targets) == 1 and isinstance(nd.ast.targets[0], ast.Name):
                        env[nd.ast.targets[0].id] = nd.ast.value
                    if nd.kind == "stmt" and isinstance(nd.ast, ast.Return):
                        ret = nd.ast.value
                if is_graph:
                    v = env.get(ret.id) if isinstance(ret, ast.Name) and ret.id not in code_names else ret
                    verdicts.append(isinstance(v, ast.Name) and v.id in code_names)
            if verdicts:
                ok = all(verdicts)
                rep.add("C04.R1", f"{w.qualname}:graph-returns-code", w.loc, ok, f"on all {len(verdicts)} paths with graph=True the returned value is the code string of the compiled function" if ok else "a path with graph=True returns something other than the code string of the compiled function")
                continue
            # `return helper(graph, function, code, tensor_args)`: the helper returns its code parameter under graph
            ok = False
            for c in calls:
                h = getattr(c, "_helper", None)
                if h is None:
                    continue
                hf = h[0]
                amap = {hf.params[i]: a for i, a in enumerate(c.args) if i < len(hf.params)}
                cfgh = CFG(hf.node)
                for r in walk_no_nested(hf.node):
                    if isinstance(r, ast.Return) and isinstance(r.value, ast.Name):
                        facts = [(t, pol) for t, pol in cfgh.guards(cfgh.node_for(r))]
                        gnames = {k for k, v in amap.items() if isinstance(v, ast.Name) and v.id == "graph"}
                        if any(isinstance(t, ast.Name) and t.id in gnames and pol for t, pol in facts):
                            v = amap.get(r.value.id)
                            ok = isinstance(v, ast.Name) and v.id in code_names
            rep.add("C04.R1", f"{w.qualname}:graph-returns-code", w.loc, ok, "graph=True returns the code string of the compiled function (through a helper)" if ok else "no return of the code string under graph=True found")


def _only_builtins_entry(p, g, k, v):
    def is_builtins(e):
        r = p.resolve_expr(g.module, e, g.node)
        return bool(r) and r[0] == "external" and r[1] in ("builtins", "__builtins__") or (isinstance(e, ast.Name) and e.id == "__builtins__")

    if isinstance(k, ast.Constant):
        return k.value == "__builtins__" and is_builtins(v)
    if k is None and isinstance(v, ast.Name) and v.id not in g.params:
        binds = [n for n in ast.walk(g.module.tree) if isinstance(n, ast.Assign) and any(isinstance(t, ast.Name) and t.id == v.id for t in n.targets)]
        muts = [n for n in ast.walk(g.module.tree) if (isinstance(n, ast.Subscript) and isinstance(n.ctx, (ast.Store, ast.Del)) and norm(n.value) == v.id) or (isinstance(n, ast.Call) and isinstance(n.func, ast.Attribute) and norm(n.func.value) == v.id and n.func.attr in ("update", "setdefault", "pop", "clear", "__setitem__"))]
        if len(binds) == 1 and not muts and binds[0] in g.module.tree.body and isinstance(binds[0].value, ast.Dict):
            dd = binds[0].value
            return all(isinstance(kk, ast.Constant) and kk.value == "__builtins__" and is_builtins(vv) for kk, vv in zip(dd.keys, dd.values))
    return False


def namespace_copy_of(p, g, ns_name):
    """definitions of the exec namespace `ns_name` in function g -> list of (definition node, copied mapping name or None)"""
    out = []
    for n in walk_no_nested(g.node):
        if isinstance(n, ast.Assign) and any(isinstance(t, ast.Name) and t.id == ns_name for t in n.targets):
            d = n.value
            src_name = None
            if isinstance(d, ast.Dict):
                # `{**constants}`; entries that only spell out what exec() adds to an empty namespace anyway
                # (`"__builtins__": builtins`, directly or through a module-level dict of just that) do not count
                parts = [(k, v) for k, v in zip(d.keys, d.values) if not _only_builtins_entry(p, g, k, v)]
                if len(parts) == 1 and parts[0][0] is None and isinstance(parts[0][1], ast.Name):
                    src_name = parts[0][1].id
            elif isinstance(d, ast.Call) and isinstance(d.func, ast.Name) and d.func.id == "dict" and len(d.args) == 1 and isinstance(d.args[0], ast.Name) and not d.keywords:
                src_name = d.args[0].id
            out.append((n, src_name))
    return out


def r2(p, rep):
    rep.rule("C04.R2", "the exec namespace contains only the listed constants", "T-EFF", floor=1)
    f, g, ex, ev, mapping = exec_site(p)
    for c in [x for x in (ex, ev) if x is not None]:
        for a in c.args[1:]:
            key = f"{f.qualname}:{c.func.id}:ns"
            site = f"{g.module.rel}:{c.lineno}"
            if not isinstance(a, ast.Name):
                rep.add("C04.R2", key, site, False, f"namespace is the expression `{norm(a)}`")
                continue
            defs = namespace_copy_of(p, g, a.id)
            ok = bool(defs) and all(sn is not None for _, sn in defs)
            why = []
            for d, sn in defs:
                if sn is None:
                    why.append(f"built by `{norm(d.value)[:60]}`")
                    continue
                # the copied mapping is the constants table (possibly received as a parameter)
                origin = sn
                if g is not f and sn in g.params:
                    v = mapping.get(sn)
                    origin = v.id if isinstance(v, ast.Name) else None
                tdefs = [n.value for n in walk_no_nested(f.node) if isinstance(n, ast.Assign) and any(isinstance(t, ast.Name) and t.id == origin for t in n.targets)] if origin else []
                good = bool(tdefs) and all(isinstance(t, ast.DictComp) and "variableid_to_constant" in norm(t) for t in tdefs)
                if not good:
                    ok = False
                    why.append(f"copies `{sn}` which is not (only) the table of embedded constants")
            muts = [n for n in walk_no_nested(g.node) if (isinstance(n, ast.Subscript) and isinstance(n.ctx, ast.Store) and norm(n.value) == a.id) or (isinstance(n, ast.Call) and isinstance(n.func, ast.Attribute) and norm(n.func.value) == a.id and n.func.attr in ("update", "setdefault"))]
            if muts:
                ok = False
                why.append("mutated after construction")
            rep.add("C04.R2", key, site, ok, f"`{a.id}` = copy of the constants table only" if ok else f"the namespace of the generated code is not just the constants table: {why}; the returned text is then not self-contained")


def r3(p, rep):
    rep.rule("C04.R3", "embedded constants are announced in header comments under the same name", "T-DOM (same block) + data dependence of the name hint and the comment on one counter", floor=1)
    comp = compile_func(p)
    inner = [g for g in p.funcs.values() if g is comp or any(a is comp for a in _ancestors(g))]
    # the store of a constant: `<table>[id(<variable>)] = <node>.value`
    writes = [(g, n) for g in inner for n in walk_no_nested(g.node) if isinstance(n, ast.Assign) and any(isinstance(t, ast.Subscript) and isinstance(t.value, ast.Name) and norm(t.slice).startswith("id(") for t in n.targets) and isinstance(n.value, ast.Attribute) and n.value.attr == "value"]
    if not writes:
        raise AnalysisError("unrecognised idiom: no `<table>[id(variable)] = origin.value` store of an embedded constant inside compile()")
    for g, w in writes:
        table = next(t.value.id for t in w.targets if isinstance(t, ast.Subscript) and isinstance(t.value, ast.Name))
        par = getattr(w, "_parent", None)
        blk = None
        for fld in ("body", "orelse"):
            b = getattr(par, fld, None)
            if isinstance(b, list) and w in b:
                blk = b
        after = blk[blk.index(w) + 1 :] if blk else []

        def counter_based(e):
            """is e computed from len(<table>) evaluated after the store (so the new constant is constN, N = its rank)?"""
            names, _ = ir.derive(g.node, e)
            lens = [c for st in after for c in ast.walk(st) if isinstance(c, ast.Call) and norm(c.func) == "len" and c.args and norm(c.args[0]) == table]
            direct = any(isinstance(c, ast.Call) and norm(c.func) == "len" and c.args and norm(c.args[0]) == table for c in ast.walk(e))
            return bool(lens) and (direct or (table in names and "len" in names))

        hints = [c for st in after for c in ast.walk(st) if isinstance(c, ast.Call) and isinstance(c.func, ast.Attribute) and c.func.attr == "append" and isinstance(c.func.value, ast.Subscript) and c.args]
        comments = [c for st in after for c in ast.walk(st) if isinstance(c, ast.Call) and norm(c.func).endswith("comment_statement") and c.args]
        prepended = any(isinstance(c, ast.Call) and isinstance(c.func, ast.Attribute) and c.func.attr.startswith("prepend") for st in after for c in ast.walk(st))
        ok_hint = any(counter_based(c.args[0]) for c in hints)
        ok_comment = prepended and any(counter_based(c.args[0]) for c in comments)
        rep.add("C04.R3", f"{comp.qualname}:constant-announced", f"{g.module.rel}:{w.lineno}", ok_comment and ok_hint, "the constant's name hint and its `# Constant constN: ...` header comment are computed from the same counter in the same block" if ok_comment and ok_hint else "a constant is stored without a matching header comment / name hint: the returned text cannot be re-executed from its header")


def _ancestors(g):
    g = g.parent
    while g is not None:
        yield g
        g = g.parent


def eval_app_branches(p):
    f = p.func("compile._eval_app", "tracer.compiler.python")
    chains = [c for c in find_chains(p, f) if c.kind == "class"]
    if not chains:
        raise AnalysisError("unrecognised idiom: _eval_app has no isinstance dispatch chain")
    ch = max(chains, key=lambda c: len(c.arms))
    out = {}
    for arm in ch.arms:  # arm.body / arm.subject_name / arm.lineno: the `if` body, or the handler of a dispatch table row
        if arm.body:
            for c in arm.classes:
                out[c.qualname] = arm
    return f, ch, out


def r4(p, rep):
    rep.rule("C04.R4", "the IR node classes, the emitter, the inputs lists and _tracer_transform agree", "T-EXH + T-SIB", floor=40)
    base, subs = ir.application_classes(p)
    f, ch, branches = eval_app_branches(p)
    common.exhaustiveness(p, rep, "C04.R4", funcs=[f])
    for c in subs:
        nf = ir.NodeFacts(p, c)
        site = c.loc
        br = branches.get(c.qualname)
        # (b) every constructor field is read in its emitter branch
        if br is not None:
            subj = br.subject_name
            reads = {x.attr for st in br.body for x in ast.walk(st) if isinstance(x, ast.Attribute) and norm(x.value) == subj}
            for fld in nf.fields:
                if fld in ORDERING_ONLY_FIELDS:
                    rep.exempt("C04.R4", f"{c.qualname}:emit:{fld}", site, ORDERING_ONLY_FIELDS[fld])
                    continue
                rep.add("C04.R4", f"{c.qualname}:emit:{fld}", f"{f.module.rel}:{br.lineno}", fld in reads, f"emitter branch reads {subj}.{fld}" if fld in reads else f"field `{fld}` of {c.name} is never read by its emitter branch: it is silently dropped from the generated code")
        # (c) inputs cover every transformed field
        tf = nf.transformed_fields()
        for fld in sorted(tf):
            prm = nf.field_param(fld) or fld
            ok = prm in nf.input_names or fld in nf.input_names
            rep.add("C04.R4", f"{c.qualname}:inputs:{fld}", site, ok, f"inputs= contains {prm}" if ok else f"`{fld}` holds tracers (it is transformed) but is missing from super().__init__(inputs=...): usage counting, scoping and statement ordering do not see this dependency")
        # (d) _tracer_transform rebuilds the same class from the same-named fields
        rb = nf.rebuild_call()
        if rb is None:
            rep.violation("C04.R4", f"{c.qualname}:rebuild", site, "_tracer_transform does not return a constructor call")
            continue
        r = resolve_callee(p, rb, c.module)
        same = bool(r and r[0] == "class" and r[1] is c)
        rep.add("C04.R4", f"{c.qualname}:rebuild:class", site, same, f"rebuilds {norm(rb.func)}" + ("" if same else f" instead of {c.name}"))
        args = list(rb.args)
        if len(args) + len(rb.keywords) != len(nf.params):
            rep.violation("C04.R4", f"{c.qualname}:rebuild:arity", site, f"rebuild passes {len(args) + len(rb.keywords)} arguments for constructor parameters {nf.params}")
            continue
        s = nf.transform.node.args.args[0].arg
        for i, prm in enumerate(nf.params):
            a = args[i] if i < len(args) else next((k.value for k in rb.keywords if k.arg == prm), None)
            flds = [fl for fl in nf.fields if nf.field_param(fl) == prm]
            used = nf.rebuild_sources(a) if a is not None else set()
            ok = bool(used & set(flds)) if flds else True
            if prm == "output" and not flds:
                ok = "output" in used
            rep.add("C04.R4", f"{c.qualname}:rebuild:{prm}", site, ok, f"parameter {prm} <- {norm(a)[:50] if a is not None else None}" + ("" if ok else f" (expected a value derived from self.{flds or prm})"))


def r5(p, rep):
    rep.rule("C04.R5", "compute-once and side-effect emission", "T-DOM", floor=8)
    # usage counting sees every use
    gu = p.func("get_usages", "tracer.compiler.python.usage")
    # the walker: the (nested) function of get_usages that calls itself, whatever it is called
    walkers = [g for g in p.funcs.values() if (g is gu or g.parent is gu) and any(isinstance(n, ast.Call) and isinstance(n.func, ast.Name) and n.func.id == g.name for n in walk_no_nested(g.node))]
    if len(walkers) != 1:
        raise AnalysisError(f"unrecognised idiom: get_usages has {len(walkers)} recursive walkers")
    f = walkers[0]
    cfg = CFG(f.node)
    # the counter: `<...>[id(v)] += 1`;  the visited set: a name S with `S.add(id(v))`
    incs = [n for n in walk_no_nested(f.node) if isinstance(n, ast.AugAssign) and isinstance(n.op, ast.Add) and isinstance(n.target, ast.Subscript) and norm(n.target.slice).startswith("id(")]
    if not incs:
        raise AnalysisError("unrecognised idiom: no usage counter increment `<counter>[id(v)] += 1` in the walker of get_usages")
    seen_sets = {n.func.value.id for n in walk_no_nested(f.node) if isinstance(n, ast.Call) and isinstance(n.func, ast.Attribute) and n.func.attr == "add" and isinstance(n.func.value, ast.Name) and n.args and norm(n.args[0]).startswith("id(")}
    for inc in incs:
        visited = []
        for t, pol in cfg.guards(cfg.node_for(inc)):
            pos = common.as_positive(t, pol)
            if isinstance(pos, ast.Compare) and isinstance(pos.ops[0], ast.NotIn) and isinstance(pos.comparators[0], ast.Name) and pos.comparators[0].id in seen_sets and norm(pos.left).startswith("id("):
                visited.append(norm(pos))
        rep.add(
            "C04.R5",
            f"{gu.qualname}:<walker>:count-every-use",
            f"{f.module.rel}:{inc.lineno}",
            not visited,
            "the use counter is incremented on every visit" if not visited else "the use counter is only incremented on the first visit (it is guarded by the already-visited test), so every value has usage count 1: values used several times are inlined at each use, i.e. computed more than once, and a re-evaluation that lands after an in-place update reads the updated data",
        )
    # inline decision honours the usage count
    d = p.func("CodeObject.define", "tracer.compiler.python")
    ok = False
    why = "no `if self.max_usage_num[obj] > 1: no_inline = True`"
    dcfg = CFG(d.node)
    for a_ in walk_no_nested(d.node):
        # `no_inline = True` under the fact "used more than once" (facts are expanded through named booleans)
        if isinstance(a_, ast.Assign) and any(norm(t) == "no_inline" for t in a_.targets) and isinstance(a_.value, ast.Constant) and a_.value.value is True:
            for t, pol in dcfg.guards_of_ast(a_):
                if isinstance(t, ast.Compare) and len(t.ops) == 1 and "max_usage_num" in norm(t.left) and isinstance(t.comparators[0], ast.Constant):
                    k = t.comparators[0].value
                    if (pol and ((isinstance(t.ops[0], ast.Gt) and k == 1) or (isinstance(t.ops[0], ast.GtE) and k == 2))) or ((not pol) and ((isinstance(t.ops[0], ast.LtE) and k == 1) or (isinstance(t.ops[0], ast.Lt) and k == 2))):
                        ok, why = True, "values with more than one use are never inlined"
                    else:
                        why = f"inline threshold is `{norm(t)}` (must be: more than one use)"
    if not ok:
        # `no_inline = no_inline or usage > 1`
        for a_ in walk_no_nested(d.node):
            if isinstance(a_, ast.Assign) and any(norm(t) == "no_inline" for t in a_.targets) and "max_usage_num" in norm(a_.value) and ("> 1" in norm(a_.value) or ">= 2" in norm(a_.value)):
                ok, why = True, "values with more than one use are never inlined"
    rep.add("C04.R5", f"{d.qualname}:inline-threshold", d.loc, ok, why)
    # Call results are assigned unless the callee is a pure builtin
    f2, ch, branches = eval_app_branches(p)
    comp = compile_func(p)
    allow = [n.value for n in walk_no_nested(comp.node) if isinstance(n, ast.Assign) and any(norm(t) == "allow_inline_functions" for t in n.targets)]
    pure = {"isinstance", "tuple", "list", "len", "type"}
    if allow and isinstance(allow[0], ast.List):
        names = [attr_chain(e)[-1] if attr_chain(e) else norm(e) for e in allow[0].elts]
        rep.add("C04.R5", f"{comp.qualname}:allow_inline_functions", f"{comp.module.rel}:{allow[0].lineno}", set(names) <= pure, f"inlineable callees {names}" + ("" if set(names) <= pure else " include functions that are not pure builtins"))
    else:
        raise AnalysisError("unrecognised idiom: allow_inline_functions list not found")
    localfns = {n.name: n for n in walk_no_nested(comp.node) if isinstance(n, ast.FunctionDef)}
    localfns.update({g.name: g.node for g in p.funcs.values() if g.module is comp.module and g.parent is None and g.cls is None})
    for q, br in branches.items():
        cname = q.split("::")[1]
        body = common.expand_local_helper_calls(br.body, localfns)
        defines = [n for st in body for n in ast.walk(st) if isinstance(n, ast.Call) and norm(n.func) == "code.define"]
        # `stmt = Statement(...); block.append(stmt)` is the same as appending the call directly
        local_stmts = {t.id: a_.value for st in body for a_ in ast.walk(st) if isinstance(a_, ast.Assign) and isinstance(a_.value, ast.Call) and norm(a_.value.func).endswith("Statement") for t in a_.targets if isinstance(t, ast.Name)}
        appends = []
        for st in body:
            for n in ast.walk(st):
                if isinstance(n, ast.Call) and isinstance(n.func, ast.Attribute) and n.func.attr in ("append", "prepend_after_comments", "prepend") and n.args:
                    a0_ = n.args[0]
                    if isinstance(a0_, ast.Name) and a0_.id in local_stmts:
                        n = ast.copy_location(ast.Call(func=n.func, args=[local_stmts[a0_.id]], keywords=[]), n)
                        a0_ = n.args[0]
                    if isinstance(a0_, ast.Call) and norm(a0_.func).endswith("Statement"):
                        appends.append(n)
        site = f"{f2.module.rel}:{br.lineno}"
        if cname == "Call":
            for dcall in defines:
                ni = common.kwarg(dcall, "no_inline")
                # a boolean bound to a local first (`may_inline = ...; define(..., no_inline=not may_inline)`)
                if ni is not None:
                    locals_ = {t.id: a_.value for st in body for a_ in ast.walk(st) if isinstance(a_, ast.Assign) and len(a_.targets) == 1 for t in a_.targets if isinstance(t, ast.Name)}
                    for _ in range(3):
                        if isinstance(ni, ast.Name) and ni.id in locals_:
                            ni = locals_[ni.id]
                        elif isinstance(ni, ast.UnaryOp) and isinstance(ni.op, ast.Not) and isinstance(ni.operand, ast.Name) and ni.operand.id in locals_:
                            ni = ast.UnaryOp(op=ast.Not(), operand=locals_[ni.operand.id])
                text = norm(ni) if ni is not None else ""
                if ni is not None and isinstance(ni, ast.UnaryOp) and isinstance(ni.operand, ast.Call) and isinstance(ni.operand.func, ast.Name) and ni.operand.func.id in localfns:
                    text += " :: " + " ".join(norm(b) for b in localfns[ni.operand.func.id].body)
                ok = ni is not None and isinstance(ni, ast.UnaryOp) and isinstance(ni.op, ast.Not) and "allow_inline_functions" in text
                ni0 = common.kwarg(dcall, "no_inline")
                if not ok and isinstance(ni0, ast.UnaryOp) and isinstance(ni0.op, ast.Not) and isinstance(ni0.operand, ast.Name):
                    # a flag found by a search loop: every `flag = True` lies in a loop over / test against the allow-list
                    flag = ni0.operand.id
                    sets = [a_ for st in body for a_ in ast.walk(st) if isinstance(a_, ast.Assign) and any(isinstance(t, ast.Name) and t.id == flag for t in a_.targets)]
                    trues = [a_ for a_ in sets if not (isinstance(a_.value, ast.Constant) and a_.value.value in (False, None))]
                    def _under_allowlist(a_):
                        q = getattr(a_, "_parent", None)
                        while q is not None and q is not br:
                            if isinstance(q, ast.For) and "allow_inline_functions" in norm(q.iter):
                                return True
                            if isinstance(q, ast.If) and "allow_inline_functions" in norm(q.test):
                                return True
                            q = getattr(q, "_parent", None)
                        return "allow_inline_functions" in norm(a_.value)
                    ok = bool(trues) and all(_under_allowlist(a_) for a_ in trues) and all(isinstance(a_.value, ast.Constant) or "allow_inline_functions" in norm(a_.value) for a_ in sets)
                rep.add("C04.R5", f"{f2.qualname}:Call:no_inline", site, ok, f"no_inline={norm(ni) if ni is not None else '<default False>'}" + ("" if ok else ": results of arbitrary calls may be inlined and re-evaluated at every use"))
        if cname in ("CallInplace", "UpdateItem", "Assert"):
            ok = bool(appends) and bool(defines) and (appends[0].lineno, appends[0].col_offset) < (defines[0].lineno, defines[0].col_offset)
            rep.add("C04.R5", f"{f2.qualname}:{cname}:statement", site, ok, "a Statement is appended to the block before the output is defined as an alias" if ok else f"the {cname} branch defines its output without emitting a statement first: the side effect is lost or reordered")
            for dcall in defines:
                fi = common.kwarg(dcall, "force_inline")
                ok2 = isinstance(fi, ast.Constant) and fi.value is True
                rep.add("C04.R5", f"{f2.qualname}:{cname}:alias", site, ok2, "output is an alias of the mutated / asserted operand (force_inline=True)")
            # the statement's inputs cover every expression of the branch
            if appends:
                st_call = appends[0].args[0]
                inp = common.kwarg(st_call, "inputs")
                exprs = {t.id for s in br.body if isinstance(s, ast.Assign) and isinstance(s.value, (ast.Call, ast.ListComp, ast.DictComp)) and "_get_expression_for" in norm(s.value) for t in s.targets if isinstance(t, ast.Name)}
                if cname == "UpdateItem":
                    # `to_code, inputs = _at(obj, key)`: the second element carries the expressions of object and key
                    for s_ in br.body:
                        if isinstance(s_, ast.Assign) and isinstance(s_.targets[0], ast.Tuple) and isinstance(s_.value, ast.Call) and norm(s_.value.func) == "_at" and len(s_.targets[0].elts) == 2:
                            exprs.add(norm(s_.targets[0].elts[1]))
                used = common.names_feeding(br.body, inp) if inp is not None else set()
                missing = exprs - used
                rep.add("C04.R5", f"{f2.qualname}:{cname}:statement-inputs", site, not missing, f"Statement(inputs=...) lists {sorted(used)}" + ("" if not missing else f"; {sorted(missing)} missing: liveness / ordering ignores that dependency"))


def _truth_facts(p, g):
    """facts (test, polarity) under which predicate function g returns a truthy value, one list per such return"""
    from sa.cfg import decompose

    cfg = CFG(g.node)
    out = []
    for ret in walk_no_nested(g.node):
        if isinstance(ret, ast.Return) and ret.value is not None and not (isinstance(ret.value, ast.Constant) and ret.value.value in (False, None)):
            facts = cfg.guards(cfg.node_for(ret))
            if not (isinstance(ret.value, ast.Constant) and ret.value.value is True):
                facts = facts + decompose(ret.value, True)
            out.append(facts)
    return out


def r6(p, rep):
    rep.rule("C04.R6", "name fusion only re-uses the name of an input variable that is dead and lives in the same block", "T-DER [S] (enumerated filter shapes)", floor=4)
    from sa.cfg import decompose

    comp = compile_func(p)
    scope = [g for g in p.funcs.values() if g.module is comp.module and (g is comp or g.parent is None)]
    # the group-merging helper (by role): a nested function that re-points every member of one group to the other
    # (`for v in g2: M[id(v)] = g1; g1.append(v)`), and its call site
    sites = []
    for host in scope:
        for g in [x for x in p.funcs.values() if x.parent is host]:
            merges = [l for l in walk_no_nested(g.node) if isinstance(l, ast.For) and any(isinstance(st, ast.Assign) and isinstance(st.targets[0], ast.Subscript) for st in l.body) and any(isinstance(st, ast.Expr) and isinstance(st.value, ast.Call) and norm(st.value.func).endswith(".append") for st in l.body)]
            if not merges or len(g.params) != 2:
                continue
            for n in walk_no_nested(host.node):
                if isinstance(n, ast.Call) and isinstance(n.func, ast.Name) and n.func.id == g.name and len(n.args) == 2:
                    sites.append((host, g, n))
    if len(sites) != 1:
        raise AnalysisError(f"unrecognised idiom: expected one call of the group-merging helper in the code generator, found {len(sites)}")
    f, fuse, fc = sites[0]
    site = f"{f.module.rel}:{fc.lineno}"
    from .elempreds import ElemPreds

    ep = ElemPreds()
    cand = ep.of(fc.args[0], f.node)  # what is known about the variable that loses its name
    other = ep.of(fc.args[1], f.node)
    preds = cand.preds
    rep.info["fusion_filters"] = [norm(x) for x in preds]
    if not preds and cand.unknown:
        raise AnalysisError("unrecognised idiom: cannot trace the first argument of the group-merging call back to filtered collections")

    # the algorithm this rule knows: a table `variable id -> statements that read the variable`, filled by appending each
    # statement under the id of each of its input variables.  Another liveness scheme (last-read positions, reference
    # counts ...) cannot be judged by the enumerated filter shapes below: say so instead of reporting missing filters
    dep_tables = set()
    for n in ast.walk(f.node):
        if isinstance(n, ast.Call) and isinstance(n.func, ast.Attribute) and n.func.attr == "append" and isinstance(n.func.value, ast.Subscript) and isinstance(n.func.value.value, ast.Name) and norm(n.func.value.slice).startswith("id(") and n.args and isinstance(n.args[0], ast.Name):
            loops = [l for l in parents(n) if isinstance(l, ast.For)]
            if any(isinstance(l.target, ast.Name) and l.target.id == n.args[0].id for l in loops) and any("input_variables" in norm(l.iter) for l in loops):
                dep_tables.add(n.func.value.value.id)
    if not dep_tables:
        raise AnalysisError("unrecognised idiom: the name-fusion pass keeps no table of the statements that read each variable; its liveness test is not one of the enumerated shapes")

    # (1) allow_reusing_name
    ok1 = any(isinstance(t, ast.Attribute) and t.attr == "allow_reusing_name" and norm(t.value) == "_v" for x in preds for t, pol in decompose(x, True) if pol)
    rep.add("C04.R6", f"{comp.qualname}:fuse:allow_reusing_name", site, ok1, "candidates are filtered by allow_reusing_name" if ok1 else "imports / constants (allow_reusing_name=False) can lose their name to another value")

    def all_over_dependents(c):
        """all(<elt> for <s> in <map>[id(_v)]) -> (elt, loop variable) or None"""
        if isinstance(c, ast.Call) and isinstance(c.func, ast.Name) and c.func.id == "all" and c.args and isinstance(c.args[0], (ast.GeneratorExp, ast.ListComp)):
            ge = c.args[0]
            if len(ge.generators) != 1 or ge.generators[0].ifs or not isinstance(ge.generators[0].target, ast.Name):
                return None
            it = ge.generators[0].iter
            if isinstance(it, ast.Subscript) and norm(it.slice) == "id(_v)" and norm(it.value) in dep_tables:
                return ge.elt, ge.generators[0].target.id
        return None

    # the set of statements already emitted in this block: a local set that receives id(<loop statement>) in the
    # statement loop and is created empty inside the block loop
    seen_sets = set()
    for n in ast.walk(f.node):
        if isinstance(n, ast.Call) and isinstance(n.func, ast.Attribute) and n.func.attr == "add" and isinstance(n.func.value, ast.Name) and n.args and norm(n.args[0]).startswith("id("):
            loop = enclosing(n, ast.For)
            if loop is not None and isinstance(loop.target, ast.Name) and norm(n.args[0]) == f"id({loop.target.id})":
                inits = [a_ for a_ in ast.walk(f.node) if isinstance(a_, ast.Assign) and any(isinstance(t, ast.Name) and t.id == n.func.value.id for t in a_.targets)]
                if inits and all(isinstance(a_.value, ast.Call) and norm(a_.value.func) == "set" and not a_.value.args for a_ in inits) and all(enclosing(a_, ast.For) is not None and enclosing(a_, ast.For) is not loop for a_ in inits):
                    seen_sets.add(n.func.value.id)
    ok2 = ok3 = False
    for x in preds:
        for t, pol in decompose(x, True):
            if not pol:
                continue
            r = all_over_dependents(t)
            if r is None or not isinstance(r[0], ast.Compare) or len(r[0].ops) != 1:
                continue
            elt, dv = r
            l, rr = norm(elt.left), norm(elt.comparators[0])
            if isinstance(elt.ops[0], (ast.Eq, ast.Is)) and {l, rr} == {"_v.block", f"{dv}.block"}:
                ok2 = True
            if isinstance(elt.ops[0], ast.In) and l == f"id({dv})" and rr in seen_sets:
                ok3 = True
    rep.add("C04.R6", f"{comp.qualname}:fuse:same-block-dependents", site, ok2, "all dependent statements of the candidate are in the candidate's block" if ok2 else "the filter `every dependent statement lives in this block` is missing: a value still needed by a nested function (closure, late binding) can be overwritten")
    rep.add("C04.R6", f"{comp.qualname}:fuse:dead-after", site, ok3, f"all dependent statements of the candidate were already emitted (member of {sorted(seen_sets)}): the value is dead after this statement" if ok3 else "the liveness filter is not `all(id(dependent) in <statements emitted so far>)` over ALL dependents of the variable: a name can be re-used while its old value is still needed (e.g. by a statement of another block)")
    cfg = CFG(f.node)
    facts = cfg.guards_of_ast(fc)

    def block_of(e):
        t = norm(e)
        return t[3:-1] if t.startswith("id(") and t.endswith(")") else t

    a0t, a1t = norm(fc.args[0]), norm(fc.args[1])
    ok4 = any(pol and isinstance(t, ast.Compare) and len(t.ops) == 1 and isinstance(t.ops[0], (ast.Eq, ast.Is)) and {block_of(t.left), block_of(t.comparators[0])} == {f"{a0t}.block", f"{a1t}.block"} for t, pol in facts)
    if not ok4 and not (isinstance(fc.args[0], ast.Name) and isinstance(fc.args[1], ast.Name)):
        # the arguments are expressions (e.g. <set>.pop()): accept any block equality over their sources
        ok4 = any(pol and isinstance(t, ast.Compare) and isinstance(t.ops[0], (ast.Eq, ast.Is)) and norm(t.left).rstrip(")").endswith(".block") and norm(t.comparators[0]).rstrip(")").endswith(".block") for t, pol in facts)
    rep.add("C04.R6", f"{comp.qualname}:fuse:same-block-pair", site, ok4, "merge only when input and output variable live in the same block" if ok4 else "the merge is not guarded by equal blocks of the two variables")
    # uniqueness: every selection on the way (pop / next / [0]) is made from a collection known to have one element
    sels = cand.selections + other.selections
    bad = []
    for sel, fn in sels:
        c2 = ep.cfg(fn)
        coll = sel.func.value if isinstance(sel, ast.Call) and isinstance(sel.func, ast.Attribute) else (sel.args[0] if isinstance(sel, ast.Call) and sel.args else getattr(sel, "value", None))
        if isinstance(coll, ast.Call) and norm(coll.func) == "iter" and coll.args:
            coll = coll.args[0]
        cname = norm(coll) if coll is not None else "?"
        if common.len_bounds(c2.guards_of_ast(sel), cname) != (1, 1):
            bad.append(cname)
    ok5 = len(cand.selections) >= 1 and len(other.selections) >= 1 and not bad
    rep.add("C04.R6", f"{comp.qualname}:fuse:unique", site, ok5, "exactly one output and exactly one dead input" if ok5 else f"fusion is not restricted to a unique output / unique dead input (selections from {bad or 'no collection'} without a len == 1 guard)")


def r7(p, rep):
    rep.rule("C04.R7", "(informational) the unwired graph interpreter vs the code generator", "T-SIB", floor=0)
    try:
        f = p.func("CompilationCache._get_new", "tracer.compiler.run")
    except AnalysisError:
        return
    from sa.exh import class_domain

    for ch in find_chains(p, f):
        if ch.kind == "class":
            root, domain, covered, missing = class_domain(p, ch)
            rep.exempt("C04.R7", f"{f.qualname}:missing", f.loc, f"compiler/run.py is not wired to any backend; it lacks handlers for {[m.name for m in missing]} and is therefore not a complete reference interpreter")

def _closure(host, start):
    """names transitively feeding the names in `start` through plain assignments / comprehensions of host"""
    seen, todo = set(), list(start)
    while todo:
        n = todo.pop()
        if n in seen:
            continue
        seen.add(n)
        for a in ast.walk(host):
            if isinstance(a, ast.Assign) and any(isinstance(t, ast.Name) and t.id == n for t in a.targets):
                todo += [x.id for x in ast.walk(a.value) if isinstance(x, ast.Name)]
    return seen


def _is_keyword_test(p, t, m):
    """`keyword.iskeyword(x)` / `iskeyword(x)` / `x in keyword.kwlist` -> the tested expression, else None"""
    if isinstance(t, ast.Call) and t.args:
        ch = attr_chain(t.func)
        if ch and ch[-1] == "iskeyword":
            if len(ch) == 1:
                b = m.bindings.get("iskeyword")
                if b is None or "keyword" not in (getattr(b, "target", "") or ""):
                    return None
            return t.args[0]
    if isinstance(t, ast.Compare) and len(t.ops) == 1 and isinstance(t.ops[0], (ast.In, ast.NotIn)):
        ch = attr_chain(t.comparators[0])
        if ch and ch[-1] == "kwlist":
            return t.left
    return None


def _safe_prefix(value):
    """constant leading text of an f-string / concatenation that no keyword starts with -> the prefix"""
    import keyword

    lead = None
    if isinstance(value, ast.JoinedStr) and value.values and isinstance(value.values[0], ast.Constant):
        lead = value.values[0].value
    elif isinstance(value, ast.BinOp) and isinstance(value.op, ast.Add) and isinstance(value.left, ast.Constant) and isinstance(value.left.value, str):
        lead = value.left.value
    if lead and (lead[0].isalpha() or lead[0] == "_") and not any(k.startswith(lead) for k in keyword.kwlist + keyword.softkwlist):
        return lead
    return None


def r8(p, rep):
    rep.rule("C04.R8", "generated variable names are never Python keywords or reserved hint names (the emitted text must compile for any number of variables)", "T-DOM (guard dominates every yield of the name generator)", floor=2)
    from sa.cfg import decompose

    comp = compile_func(p)
    m = comp.module
    scope = [g for g in p.funcs.values() if g.module is m]
    # the variable -> name map (by role): written as M[id(v)] = <name>, read as `return M[id(x)]` by the emitter
    read = set()
    for g in scope:
        for n in ast.walk(g.node):
            if isinstance(n, ast.Return) and isinstance(n.value, ast.Subscript) and isinstance(n.value.value, ast.Name) and norm(n.value.slice).startswith("id("):
                read.add(n.value.value.id)
    stores = []
    for g in scope:
        for n in walk_no_nested(g.node):
            if isinstance(n, ast.Assign) and len(n.targets) == 1 and isinstance(n.targets[0], ast.Subscript) and isinstance(n.targets[0].value, ast.Name) and n.targets[0].value.id in read and norm(n.targets[0].slice).startswith("id(") and isinstance(n.value, ast.Name):
                stores.append((g, n))
    if len(stores) != 1:
        raise AnalysisError(f"unrecognised idiom: expected one store `names[id(var)] = name` in the code generator, found {len(stores)}")
    host, store = stores[0]
    nm = store.value.id
    defs = [a for a in ast.walk(host.node) if isinstance(a, ast.Assign) and any(isinstance(t, ast.Name) and t.id == nm for t in a.targets)]
    gens, hint_defs = [], []
    nested = {g.name: g for g in p.funcs.values() if g.parent is host or (g.module is m and g.parent is None and g.cls is None)}
    gen_args = {}  # generator function name -> {param: argument expression at the call that creates the generator}

    def flat(v):
        return flat(v.body) + flat(v.orelse) if isinstance(v, ast.IfExp) else [v]

    for a in defs:
        for v in flat(a.value):
            if isinstance(v, ast.Call) and isinstance(v.func, ast.Name) and v.func.id == "next" and v.args and isinstance(v.args[0], ast.Name):
                it = v.args[0].id
                cands = set()
                if it in nested:
                    cands.add(it)
                for b in ast.walk(host.node):
                    if isinstance(b, ast.Assign) and any(isinstance(t, ast.Name) and t.id == it for t in b.targets) and isinstance(b.value, ast.Call) and isinstance(b.value.func, ast.Name) and b.value.func.id in nested:
                        cands.add(b.value.func.id)
                        g_ = nested[b.value.func.id]
                        gen_args[g_.name] = {g_.params[i]: x for i, x in enumerate(b.value.args) if i < len(g_.params)}
                        gen_args[g_.name].update({k.arg: k.value for k in b.value.keywords if k.arg})
                for c in cands:
                    if any(isinstance(y, (ast.Yield, ast.YieldFrom)) for y in walk_no_nested(nested[c].node)):
                        gens.append((a, nested[c]))
            else:
                hint_defs.append(ast.Assign(targets=a.targets, value=v))
    if not gens:
        raise AnalysisError("unrecognised idiom: no name generator (`name = next(<generator>)`) feeds the variable -> name map")
    hint_src = _closure(host.node, {x.id for a in hint_defs for x in ast.walk(a.value) if isinstance(x, ast.Name)}) - {nm}
    rep.info["name_generators"] = [g.qualname for _, g in gens]
    for a, g in gens:
        cfg = CFG(g.node)
        # consumer-side filtering: `while iskeyword(name): name = next(...)` style loops are accepted through the store's guards
        hcfg = CFG(host.node)
        sfacts = hcfg.guards_of_ast(store) if hcfg.node_for(store) else []
        for y in [y for y in walk_no_nested(g.node) if isinstance(y, (ast.Yield, ast.YieldFrom))]:
            site = f"{m.rel}:{y.lineno}"
            if isinstance(y, ast.YieldFrom) or y.value is None:
                raise AnalysisError(f"unrecognised idiom: name generator {g.qualname} uses `{norm(y)}`")
            facts = cfg.guards_of_ast(y)
            yv = norm(y.value)
            # the yielded value may be a local re-bound from the raw product: compare by text
            kw = any((not pol) and (lambda e: e is not None and norm(e) == yv)(_is_keyword_test(p, t, m)) and not (isinstance(t, ast.Compare) and isinstance(t.ops[0], ast.NotIn)) for t, pol in facts)
            kw = kw or any(pol and isinstance(t, ast.Compare) and isinstance(t.ops[0], ast.NotIn) and (lambda e: e is not None and norm(e) == yv)(_is_keyword_test(p, t, m)) for t, pol in facts)
            kw_consumer = any((not pol) and (lambda e: e is not None and norm(e) == nm)(_is_keyword_test(p, t, m)) for t, pol in sfacts)
            val = y.value
            if isinstance(val, ast.Name):
                vd = [b.value for b in walk_no_nested(g.node) if isinstance(b, ast.Assign) and any(isinstance(t, ast.Name) and t.id == val.id for t in b.targets)]
                if len(vd) == 1:
                    val = vd[0]
            prefix = _safe_prefix(val)
            ok = kw or kw_consumer or prefix is not None
            rep.add("C04.R8", f"{g.qualname}:yield:not-a-keyword", site, ok, (f"every name starts with {prefix!r}, which no keyword starts with" if prefix else f"`{yv}` is yielded only when keyword.iskeyword({yv}) is false") if ok else f"the name sequence yields `{yv}` without excluding Python keywords: a, b, ..., z, aa, ... reaches `as` (45th), `if`, `in`, `is`, `or`; a graph with that many variables compiles to text that is not valid Python")
            # reserved names: a generated name must not equal a hinted name (import alias, constN, nested function name)
            res = False
            for t, pol in facts:
                if isinstance(t, ast.Compare) and len(t.ops) == 1 and norm(t.left) == yv and ((isinstance(t.ops[0], ast.NotIn) and pol) or (isinstance(t.ops[0], ast.In) and not pol)):
                    cnames = set()
                    for x in ast.walk(t.comparators[0]):
                        if isinstance(x, ast.Name):
                            arg = gen_args.get(g.name, {}).get(x.id)
                            cnames |= {y.id for y in ast.walk(arg) if isinstance(y, ast.Name)} if arg is not None else {x.id}
                    feeding = _closure(host.node, cnames)
                    if feeding & hint_src:
                        res = True
            if prefix is not None and not res:
                rep.exempt("C04.R8", f"{g.qualname}:yield:not-a-reserved-name", site, f"names are built from the prefix {prefix!r}; collision with a hinted name is not decided")
            else:
                rep.add("C04.R8", f"{g.qualname}:yield:not-a-reserved-name", site, res, f"`{yv}` is yielded only when it is not one of the hinted names ({sorted(hint_src)[:4]})" if res else f"a generated name can equal a hinted name (e.g. the 380th name `np` when numpy is imported as np): the later assignment shadows the import inside the generated function")

def r9(p, rep):
    rep.rule("C04.R9", "the expression cache of the code generator keys list, tuple and dict values apart (the emitted container is the one the graph asks for)", "T-EXH (tagged key per container kind)", floor=3)
    comp = compile_func(p)
    _MODULE_CONSTS.clear()
    for st in comp.module.tree.body:
        if isinstance(st, ast.Assign) and len(st.targets) == 1 and isinstance(st.targets[0], ast.Name) and isinstance(st.value, ast.Constant):
            _MODULE_CONSTS[st.targets[0].id] = st.value.value
    cands = []
    for f in p.funcs.values():
        if f.module is not comp.module or f.cls is None:
            continue
        tagged = [r for r in walk_no_nested(f.node) if isinstance(r, ast.Return) and r.value is not None and _leading_tag(r.value) is not None]
        if len(tagged) >= 2:
            cands.append((f, tagged))
    if len(cands) != 1:
        raise AnalysisError(f"unrecognised idiom: expected one tagged-tuple key function in the code generator, found {[f.qualname for f, _ in cands]}")
    f, tagged = cands[0]
    cfg = CFG(f.node)
    seen_tags, kinds = {}, {}
    for r in tagged:
        tag = _leading_tag(r.value)
        classes = set()
        for t, pol in cfg.guards_of_ast(r):
            if pol and isinstance(t, ast.Call) and isinstance(t.func, ast.Name) and t.func.id == "isinstance" and len(t.args) == 2:
                c = t.args[1]
                parts = []
                stack = [c]
                while stack:
                    x = stack.pop()
                    if isinstance(x, ast.BinOp) and isinstance(x.op, ast.BitOr):
                        stack += [x.left, x.right]
                    elif isinstance(x, ast.Tuple):
                        stack += list(x.elts)
                    else:
                        parts.append(norm(x))
                classes |= set(parts)
        site = f"{f.module.rel}:{r.lineno}"
        one = len(classes) == 1
        rep.add("C04.R9", f"{f.qualname}:arm({','.join(sorted(classes))}):one-kind", site, one, f"key tag {tag!r} stands for exactly {sorted(classes)}" if one else f"key tag {tag!r} is shared by {sorted(classes)}: a list and a tuple over the same elements get one cache entry, so the generated code returns whichever container was emitted first")
        dup = tag in seen_tags
        rep.add("C04.R9", f"{f.qualname}:arm({','.join(sorted(classes))}):distinct-tag", site, not dup, f"tag {tag!r} is used by this arm only" if not dup else f"tag {tag!r} is also used for {seen_tags[tag]}")
        seen_tags[tag] = sorted(classes)
        for c in classes:
            kinds[c] = tag
    missing = {"list", "tuple", "dict"} - set(kinds)
    rep.add("C04.R9", f"{f.qualname}:kinds", f.loc, not missing, "list, tuple and dict each have their own arm" if not missing else f"no arm for {sorted(missing)}")


def _leading_tag(e):
    """(tag,) + tuple(...)   or   (tag, *ids...)  -> tag"""
    x = e
    while isinstance(x, ast.BinOp) and isinstance(x.op, ast.Add):
        x = x.left
    if isinstance(x, ast.Tuple) and x.elts and (len(x.elts) == 1 and x is not e or any(isinstance(y, ast.Starred) for y in x.elts[1:])):
        t = x.elts[0]
        if isinstance(t, ast.Constant):
            return t.value
        if isinstance(t, ast.Name) and _MODULE_CONSTS.get(t.id) is not None:
            return _MODULE_CONSTS[t.id]
    return None


_MODULE_CONSTS = register_cache({})


def r10(p, rep):
    rep.rule("C04.R10", "one import alias names one module in all generated code (`import mlx.nn as mx` next to `import mlx.core as mx` would overwrite a name that is still needed)", "T-TAB over the traced import statements of all backends", floor=10)
    by_name = {}
    for f in list(p.funcs.values()):
        for c in walk_no_nested(f.node):
            if isinstance(c, ast.Call) and norm(c.func).endswith("python.import_") and c.args and isinstance(c.args[0], ast.Constant):
                mod = c.args[0].value
                as_ = common.kwarg(c, "as_")
                if as_ is None and len(c.args) > 1:
                    as_ = c.args[1]
                name = as_.value if isinstance(as_, ast.Constant) and as_.value else mod
                by_name.setdefault(name, []).append((mod, f, c))
    for name, uses in sorted(by_name.items()):
        mods = sorted({m for m, _, _ in uses})
        for mod, f, c in uses:
            rep.add("C04.R10", f"{f.qualname}:import:{mod}:as:{name}", f"{f.module.rel}:{c.lineno}", len(mods) == 1, f"`{name}` always stands for {mods[0]}" if len(mods) == 1 else f"the name `{name}` is used for the different modules {mods}: a graph that needs both gets two import statements binding the same name, and the later one silently replaces the earlier module in the generated function")


def _template_shape(ret, vparam):
    """the returned text of an emitter as a string with '§' for a sub-expression hole (something computed with the
    value_to_code callback) and '¤' for any other hole; None when the text is not a single f-string / concatenation"""
    pieces = []

    def add(e):
        if isinstance(e, ast.Constant) and isinstance(e.value, str):
            pieces.append(e.value)
        elif isinstance(e, ast.JoinedStr):
            for v in e.values:
                add(v.value if isinstance(v, ast.FormattedValue) else v)
        elif isinstance(e, ast.BinOp) and isinstance(e.op, ast.Add):
            add(e.left)
            add(e.right)
        elif isinstance(e, ast.Call) and isinstance(e.func, ast.Name) and e.func.id == "str" and len(e.args) == 1:
            add(e.args[0])
        else:
            sub = any(isinstance(x, ast.Name) and x.id == vparam for x in ast.walk(e))
            pieces.append("§" if sub else "¤")

    if not isinstance(ret, (ast.JoinedStr, ast.BinOp)):
        if isinstance(ret, ast.Call) and isinstance(ret.func, ast.Attribute) and ret.func.attr in ("format", "join", "replace"):
            return None  # text built from a template: see _format_shapes
        if isinstance(ret, ast.Call) and any(isinstance(x, ast.Name) and x.id == vparam for x in ast.walk(ret)):
            return "§"
        return None
    add(ret)
    return "".join(pieces)


def _format_shapes(g, fn, ret, vparam):
    """`TEMPLATE.format(<sub-expressions>, name=<other>)` with TEMPLATE a string literal, or one of the values of a literal
    dict / list bound once in the enclosing functions: the shapes of all candidate templates"""
    import re

    if not (isinstance(ret, ast.Call) and isinstance(ret.func, ast.Attribute) and ret.func.attr == "format"):
        return []
    pos_sub = any(isinstance(x, ast.Name) and x.id == vparam for a in ret.args for x in ast.walk(a))
    kw_sub = {k.arg: any(isinstance(x, ast.Name) and x.id == vparam for x in ast.walk(k.value)) for k in ret.keywords if k.arg}

    def literals(e, depth=0):
        if isinstance(e, ast.Constant) and isinstance(e.value, str):
            return [e.value]
        if isinstance(e, ast.Subscript):
            return literals(e.value, depth)
        if isinstance(e, (ast.Dict,)):
            return [x for v in e.values for x in literals(v, depth)]
        if isinstance(e, (ast.List, ast.Tuple)):
            return [x for v in e.elts for x in literals(v, depth)]
        if isinstance(e, ast.Name) and depth < 3:
            h = g
            while h is not None:
                defs = [a.value for a in walk_no_nested(h.node) if isinstance(a, ast.Assign) and any(isinstance(t, ast.Name) and t.id == e.id for t in a.targets)]
                if defs:
                    return [x for d in defs for x in literals(d, depth + 1)]
                h = h.parent
            try:
                vals = common_module_var(g, e.id)
            except Exception:
                vals = []
            return [x for d in vals for x in literals(d, depth + 1)]
        return []

    out = []
    for lit in literals(ret.func.value):
        def field(m):
            name = m.group(1)
            if name == "" or name.isdigit():
                return "§" if pos_sub else "¤"
            return "§" if kw_sub.get(name.split(".")[0].split("[")[0]) else "¤"

        out.append(re.sub(r"\{([^{}:!]*)[^{}]*\}", field, lit))
    return out


def common_module_var(g, name):
    return [st.value for st in g.module.tree.body if isinstance(st, ast.Assign) and any(isinstance(t, ast.Name) and t.id == name for t in st.targets)]


def _closed_expression_text(t):
    """does the template always denote ONE atom / postfix expression (so that it can be placed inside any other
    expression without changing how that one groups)?  `(§ ¤ §)`, `§[¤]`, `§(¤)`, `getattr(§, §)`, `§.¤` - yes; `§ ¤ §` - no"""
    t = t.strip()
    if not t:
        return False
    pairs = {"(": ")", "[": "]", "{": "}"}

    def skip_group(i):
        depth, stack = 0, []
        while i < len(t):
            ch = t[i]
            if ch in pairs:
                stack.append(pairs[ch])
            elif stack and ch == stack[-1]:
                stack.pop()
                if not stack:
                    return i + 1
            i += 1
        return None

    i = 0
    if t[0] in pairs:
        i = skip_group(0)
        if i is None:
            return False
    else:
        while i < len(t) and (t[i].isalnum() or t[i] in "_§¤."):
            i += 1
        if i == 0:
            return False
    while i < len(t):
        if t[i] in "([":
            i = skip_group(i)
            if i is None:
                return False
        elif t[i] == ".":
            i += 1
            j = i
            while i < len(t) and (t[i].isalnum() or t[i] in "_§¤"):
                i += 1
            if i == j:
                return False
        else:
            return False
    return True


def r11(p, rep):
    rep.rule("C04.R11", "text that is inlined into other expressions is a closed expression (an atom, a call, an index, an attribute, or parenthesised): operator nodes keep their grouping wherever they are placed", "template shape of every Inlined(...) emitter", floor=6)
    comp = compile_func(p)
    inner = [g for g in p.funcs.values() if g.module is comp.module]
    n = 0
    for g in inner:
        if not isinstance(g.node, (ast.FunctionDef, ast.AsyncFunctionDef)):
            continue
        cfg = None
        for c in walk_no_nested(g.node):
            if not (isinstance(c, ast.Call) and norm(c.func).split(".")[-1] == "Inlined" and c.args):
                continue
            t = c.args[0]
            fns = []
            if isinstance(t, ast.Lambda):
                fns = [t]
            elif isinstance(t, ast.Name):
                cfg = cfg or common.cfg_of(g)
                at = cfg.node_for(c)
                for d in (cfg._rd().defs_reaching(at, t.id) if at is not None else []):
                    st = cfg.nodes[d].ast
                    if isinstance(st, ast.FunctionDef) and st.name == t.id:
                        fns.append(st)
                    elif isinstance(st, ast.Assign) and isinstance(st.value, ast.Lambda):
                        fns.append(st.value)
            for fn in fns:
                vparam = fn.args.args[0].arg if fn.args.args else None
                if vparam is None:
                    continue
                if isinstance(fn, ast.Lambda):
                    rets = [fn.body]
                else:
                    body = [st for st in fn.body if not isinstance(st, (ast.Assert,)) and not (isinstance(st, ast.Expr) and isinstance(st.value, ast.Constant))]
                    rets = [body[-1].value] if body and isinstance(body[-1], ast.Return) and sum(1 for x in ast.walk(fn) if isinstance(x, ast.Return)) == 1 else []
                shapes = []
                for ret in rets:
                    shape = _template_shape(ret, vparam)
                    if shape is not None:
                        shapes.append((ret, shape))
                    else:
                        shapes += [(ret, sh) for sh in _format_shapes(g, fn, ret, vparam)]
                for ret, shape in shapes:
                    if "§" not in shape:
                        continue
                    n += 1
                    ok = _closed_expression_text(shape)
                    rep.add("C04.R11", f"{g.qualname}:inlined:{shape[:40]}", f"{g.module.rel}:{getattr(ret, 'lineno', c.lineno)}", ok, f"emits `{shape}`: a closed expression" if ok else f"emits `{shape}`, which is not a closed expression: placed inside another operator, attribute access, index or call the operator precedence regroups it (`(a + b) * c` is written `a + b * c`)")
    if n < 6:
        raise AnalysisError(f"only {n} Inlined(...) templates recognised in the emitter")


def r13(p, rep):
    rep.rule("C04.R13", "two different values never get the same source-level name through a name hint: hints are distinct by construction (import aliases, the graph's name, constN numbered by the constants table), or a hinted name is used only when no other variable has it yet", "T-TAB over the sites that record a name hint + T-DOM on the statement that honours a hint", floor=3)
    comp = compile_func(p)
    inner = [g for g in p.funcs.values() if g is comp or any(a is comp for a in _ancestors(g))]
    sites = []
    for g in inner:
        for c in walk_no_nested(g.node):
            if isinstance(c, ast.Call) and isinstance(c.func, ast.Attribute) and c.func.attr == "append" and isinstance(c.func.value, ast.Subscript) and isinstance(c.func.value.value, ast.Name) and norm(c.func.value.slice).startswith("id(") and "hint" in c.func.value.value.id and c.args:
                sites.append((g, c))
    if len(sites) < 3:
        raise AnalysisError(f"unrecognised idiom: only {len(sites)} sites record a name hint (`<hints>[id(variable)].append(..)`) in compile()")

    def kind(g, e, depth=0):
        if isinstance(e, ast.Attribute) and e.attr in ("as_", "import_"):
            return "import alias"
        if isinstance(e, ast.Attribute) and e.attr == "name" and "graph" in norm(e.value):
            return "graph name"
        if isinstance(e, (ast.JoinedStr, ast.BinOp, ast.Call)) and any(isinstance(x, ast.Call) and isinstance(x.func, ast.Name) and x.func.id == "len" and x.args and isinstance(x.args[0], ast.Name) for x in ast.walk(e)):
            return "numbered by the size of a table"  # f"const{len(T)}", "const" + str(len(T)), "const{}".format(len(T))
        if isinstance(e, ast.Name) and depth < 2:
            defs = [a.value for a in walk_no_nested(g.node) if isinstance(a, ast.Assign) and any(isinstance(t, ast.Name) and t.id == e.id for t in a.targets)]
            ks = {kind(g, d, depth + 1) for d in defs}
            if defs and None not in ks and len(ks) == 1:
                return ks.pop()
        return None

    free = []
    for g, c in sites:
        k = kind(g, c.args[0])
        key = f"{g.qualname}:hint({norm(c.args[0])[:40]})"
        if k is not None:
            rep.ok("C04.R13", key, f"{g.module.rel}:{c.lineno}", f"{k}: distinct by construction")
        else:
            free.append((g, c, key))
    if not free:
        return
    # a hint of another origin (e.g. a user-chosen function name): the naming loop must not hand out a name twice
    net = False
    for a in walk_no_nested(comp.node):
        if isinstance(a, ast.Assign) and isinstance(a.value, ast.Subscript) and isinstance(a.value.slice, ast.Constant) and a.value.slice.value == 0 and "hint" in norm(a.value.value):
            nm = a.targets[0].id if isinstance(a.targets[0], ast.Name) else None
            for t, pol in common.cfg_of(comp).guards_of_ast(a):
                for x in ast.walk(t):
                    if isinstance(x, ast.Compare) and len(x.ops) == 1 and isinstance(x.ops[0], (ast.In, ast.NotIn)) and "hint" in norm(x.left) and isinstance(x.comparators[0], ast.Name):
                        taken = x.comparators[0].id
                        adds = [c2 for c2 in ast.walk(comp.node) if isinstance(c2, ast.Call) and norm(c2.func) == f"{taken}.add" and c2.args and isinstance(c2.args[0], ast.Name) and c2.args[0].id == nm]
                        if adds:
                            net = True
    for g, c, key in free:
        rep.add("C04.R13", key, f"{g.module.rel}:{c.lineno}", net, f"`{norm(c.args[0])[:50]}` is not distinct by construction, but a hinted name is only used when no other variable has been given it" if net else f"`{norm(c.args[0])[:50]}` records a name hint that is not distinct by construction (a name chosen outside the compiler), and the naming loop uses a hint without asking whether the name is already taken: two live values can end up under one name (a function called `op` or `np` shadows the graph / the import; the text returned with graph=True no longer computes the graph)")


def r12(p, rep):
    rep.rule("C04.R12", "code that takes a slice apart handles all three of start / stop / step (a step that is printed but not reported as an input is invisible to the liveness analysis)", "T-SIB over the fields of slice", floor=2)
    n = 0
    for f in p.funcs.values():
        if not (f.module.name.startswith("einx._src.tracer.") and not f.module.name.endswith("visualize")) or not isinstance(f.node, (ast.FunctionDef, ast.AsyncFunctionDef)):
            continue
        for var, fields, first in common.slice_field_reads(f.node):
            n += 1
            ok = "step" in fields
            rep.add("C04.R12", f"{f.qualname}:slice({var})", f"{f.module.rel}:{first.lineno}", ok, f"`{var}` is taken apart into start, stop and step" if ok else f"`{var}.start` and `{var}.stop` are used but `{var}.step` is not: for `x[::k]` the variable k is not an input of the expression (it can be overwritten by a re-used name before the statement runs) or is dropped from the rebuilt node")
    if n == 0:
        raise AnalysisError("unrecognised idiom: no function of the tracer takes a slice apart")


def run(p, rep, tier):
    r1(p, rep)
    r2(p, rep)
    r3(p, rep)
    r4(p, rep)
    r5(p, rep)
    r6(p, rep)
    r8(p, rep)
    r9(p, rep)
    r10(p, rep)
    r11(p, rep)
    r12(p, rep)
    r13(p, rep)
    rep.rule("C06.R1", "IR nodes compare every field (graph equality drives inline decisions and pattern matching)", "T-SIB (__init__ vs __eq__)", floor=30)
    c06.r1(p, rep)
    if tier == "thorough":
        r7(p, rep)
    rep.info["undecided"] = "semantic equality of the emitted program and the graph for every graph (correctness of the liveness / scoping algorithms as algorithms)"
