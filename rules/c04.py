"""C04 - generated source is a faithful, self-contained compilation of the traced graph.

Decided clauses:
 R1 one text: the string that is exec'd is the string that is returned; the api returns that string under
    graph=True and calls the function compiled from it
 R2 the exec namespace holds nothing but the listed constants
 R3 every embedded constant is announced in a header comment under the same name
 R4 the IR and its three consumers agree (emitter branch per node class, every field emitted, inputs cover
    every transformed field, _tracer_transform rebuilds the same class from the same fields)
 R5 compute-once and side-effect emission (usage counts, inline decision, statements for in-place nodes)
 R6 [S] name fusion is only applied to an input variable that is dead afterwards and lives in the same block
 R7 (thorough, informational) the unused graph interpreter compiler/run.py vs _eval_app
"""

from __future__ import annotations

import ast

from sa.cfg import CFG, ReachingDefs
from sa.core import AnalysisError, attr_chain, enclosing, norm, parents, resolve_callee, src, walk_no_nested
from sa.exh import find_chains

from . import c03, c06, common, ir

ORDERING_ONLY_FIELDS = {"additional_dependencies": "only orders statements (already part of inputs=); not part of the emitted expression"}


def compile_func(p):
    return p.func("compile", "tracer.compiler.python")


def r1(p, rep):
    rep.rule("C04.R1", "the executed text is the returned text", "T-DER (same reaching definition)", floor=3)
    f = compile_func(p)
    cfg = CFG(f.node)
    rd = ReachingDefs(cfg)
    execs = [n for n in walk_no_nested(f.node) if isinstance(n, ast.Call) and isinstance(n.func, ast.Name) and n.func.id == "exec"]
    if len(execs) != 1:
        raise AnalysisError(f"unrecognised idiom: compile() has {len(execs)} exec calls")
    ex = execs[0]
    a0 = ex.args[0]
    if not isinstance(a0, ast.Name):
        rep.violation("C04.R1", f"{f.qualname}:exec:arg0", f"{f.module.rel}:{ex.lineno}", f"exec() runs the expression `{norm(a0)}`, not the stored source text that is returned to the caller")
        return
    rets = [n for n in walk_no_nested(f.node) if isinstance(n, ast.Return) and isinstance(n.value, ast.Tuple)]
    if not rets:
        raise AnalysisError("unrecognised idiom: compile() has no `return function, code`")
    for r in rets:
        code_elt = r.value.elts[-1]
        same_name = isinstance(code_elt, ast.Name) and code_elt.id == a0.id
        d1 = rd.defs_reaching(cfg.node_for(ex), a0.id)
        d2 = rd.defs_reaching(cfg.node_for(r), a0.id) if same_name else []
        ok = same_name and d1 == d2 and len(d1) == 1
        rep.add("C04.R1", f"{f.qualname}:exec-vs-return", f"{f.module.rel}:{r.lineno}", ok, f"exec({a0.id}) and `return ..., {norm(code_elt)}` see the same single definition of {a0.id}" if ok else f"the returned code `{norm(code_elt)}` is not the text given to exec(`{a0.id}`) (definitions {d1} vs {d2})")
    # the api wrappers
    for g in c03.api_inners(p):
        calls, fn_names, code_names, bound = c03.compiled_function_calls(p, g)
        assigns = {id(a) for a, i in bound.values()}
        rep.add("C04.R1", f"{g.qualname}:one-unpack", g.loc, len(assigns) == 1, "function and code come from one unpacking of one cache call")
        for r in [n for n in walk_no_nested(g.node) if isinstance(n, ast.Return)]:
            cfgg = CFG(g.node)
            facts = [(norm(t), pol) for t, pol in cfgg.guards(cfgg.node_for(r))] if cfgg.node_for(r) else []
            if ("graph", True) in facts:
                ok = isinstance(r.value, ast.Name) and r.value.id in code_names
                rep.add("C04.R1", f"{g.qualname}:graph-returns-code", f"{g.module.rel}:{r.lineno}", ok, f"graph=True returns `{norm(r.value)}`" + ("" if ok else ", which is not the code string of the compiled function"))


def r2(p, rep):
    rep.rule("C04.R2", "the exec namespace contains only the listed constants", "T-EFF", floor=1)
    f = compile_func(p)
    ex = [n for n in walk_no_nested(f.node) if isinstance(n, ast.Call) and isinstance(n.func, ast.Name) and n.func.id in ("exec", "eval")]
    for c in ex:
        for a in c.args[1:]:
            key = f"{f.qualname}:{c.func.id}:ns({norm(a)})"
            site = f"{f.module.rel}:{c.lineno}"
            if not isinstance(a, ast.Name):
                rep.add("C04.R2", key, site, False, f"namespace is the expression `{norm(a)}`")
                continue
            defs = [n.value for n in walk_no_nested(f.node) if isinstance(n, ast.Assign) and any(isinstance(t, ast.Name) and t.id == a.id for t in n.targets)]
            ok = bool(defs)
            why = []
            for d in defs:
                if isinstance(d, ast.Dict):
                    for k, v in zip(d.keys, d.values):
                        if k is None and isinstance(v, ast.Name) and v.id == "name_to_constant":
                            continue
                        ok = False
                        why.append(f"extra entry {norm(k) if k is not None else '**' + norm(v)}")
                elif isinstance(d, ast.Call) and isinstance(d.func, ast.Name) and d.func.id == "dict" and len(d.args) == 1 and norm(d.args[0]) == "name_to_constant" and not d.keywords:
                    pass
                else:
                    ok = False
                    why.append(f"built by `{norm(d)[:60]}`")
            muts = [n for n in walk_no_nested(f.node) if (isinstance(n, ast.Subscript) and isinstance(n.ctx, ast.Store) and norm(n.value) == a.id) or (isinstance(n, ast.Call) and isinstance(n.func, ast.Attribute) and norm(n.func.value) == a.id and n.func.attr in ("update", "setdefault"))]
            if muts:
                ok = False
                why.append("mutated after construction")
            rep.add("C04.R2", key, site, ok, f"`{a.id}` = copy of the constants table only" if ok else f"the namespace of the generated code is not just the constants table: {why}; the returned text is then not self-contained")
    if not ex:
        raise AnalysisError("anchor vanished: exec/eval in compile()")


def r3(p, rep):
    rep.rule("C04.R3", "embedded constants are announced in header comments under the same name", "T-DOM (same block)", floor=1)
    f = p.func("compile._eval_app", "tracer.compiler.python")
    writes = [n for n in walk_no_nested(f.node) if isinstance(n, ast.Assign) and any(isinstance(t, ast.Subscript) and norm(t.value) == "variableid_to_constant" for t in n.targets)]
    if not writes:
        raise AnalysisError("unrecognised idiom: no write to variableid_to_constant in _eval_app")
    for w in writes:
        par = getattr(w, "_parent", None)
        blk = None
        for fld in ("body", "orelse"):
            b = getattr(par, fld, None)
            if isinstance(b, list) and w in b:
                blk = b
        text = " ".join(norm(s) for s in blk) if blk else ""
        hint = "const{len(variableid_to_constant)}"
        ok_comment = "comment_statement(" in text and ".prepend(" in text and text.count(hint) >= 2
        ok_hint = "name_hints[" in text and hint in text
        rep.add("C04.R3", f"{f.qualname}:constant-announced", f"{f.module.rel}:{w.lineno}", ok_comment and ok_hint, "the constant's name hint and its `# Constant constN: ...` header comment use the same counter in the same block" if ok_comment and ok_hint else "a constant is stored without a matching header comment / name hint: the returned text cannot be re-executed from its header")


def eval_app_branches(p):
    f = p.func("compile._eval_app", "tracer.compiler.python")
    chains = [c for c in find_chains(p, f) if c.kind == "class"]
    if not chains:
        raise AnalysisError("unrecognised idiom: _eval_app has no isinstance dispatch chain")
    ch = max(chains, key=lambda c: len(c.arms))
    out = {}
    cur = ch.head
    while True:
        arm = [a for a in ch.arms if a.test is cur.test][0]
        for c in arm.classes:
            out[c.qualname] = cur
        if len(cur.orelse) == 1 and isinstance(cur.orelse[0], ast.If):
            cur = cur.orelse[0]
        else:
            break
    return f, ch, out


def r4(p, rep):
    rep.rule("C04.R4", "the IR node classes, the emitter, the inputs lists and _tracer_transform agree", "T-EXH + T-SIB", floor=40)
    base, subs = ir.application_classes(p)
    f, ch, branches = eval_app_branches(p)
    common.exhaustiveness(p, rep, "C04.R4", funcs=[f])
    for c in subs:
        nf = ir.NodeFacts(p, c)
        site = c.loc
        br = branches.get(c.qualname)
        # (b) every constructor field is read in its emitter branch
        if br is not None:
            subj = ch.subject
            reads = {x.attr for st in br.body for x in ast.walk(st) if isinstance(x, ast.Attribute) and norm(x.value) == subj}
            for fld in nf.fields:
                if fld in ORDERING_ONLY_FIELDS:
                    rep.exempt("C04.R4", f"{c.qualname}:emit:{fld}", site, ORDERING_ONLY_FIELDS[fld])
                    continue
                rep.add("C04.R4", f"{c.qualname}:emit:{fld}", f"{f.module.rel}:{br.lineno}", fld in reads, f"emitter branch reads {subj}.{fld}" if fld in reads else f"field `{fld}` of {c.name} is never read by its emitter branch: it is silently dropped from the generated code")
        # (c) inputs cover every transformed field
        tf = nf.transformed_fields()
        for fld in sorted(tf):
            prm = nf.field_param(fld) or fld
            ok = prm in nf.input_names or fld in nf.input_names
            rep.add("C04.R4", f"{c.qualname}:inputs:{fld}", site, ok, f"inputs= contains {prm}" if ok else f"`{fld}` holds tracers (it is transformed) but is missing from super().__init__(inputs=...): usage counting, scoping and statement ordering do not see this dependency")
        # (d) _tracer_transform rebuilds the same class from the same-named fields
        rb = nf.rebuild_call()
        if rb is None:
            rep.violation("C04.R4", f"{c.qualname}:rebuild", site, "_tracer_transform does not return a constructor call")
            continue
        r = resolve_callee(p, rb, c.module)
        same = bool(r and r[0] == "class" and r[1] is c)
        rep.add("C04.R4", f"{c.qualname}:rebuild:class", site, same, f"rebuilds {norm(rb.func)}" + ("" if same else f" instead of {c.name}"))
        args = list(rb.args)
        if len(args) + len(rb.keywords) != len(nf.params):
            rep.violation("C04.R4", f"{c.qualname}:rebuild:arity", site, f"rebuild passes {len(args) + len(rb.keywords)} arguments for constructor parameters {nf.params}")
            continue
        s = nf.transform.node.args.args[0].arg
        for i, prm in enumerate(nf.params):
            a = args[i] if i < len(args) else next((k.value for k in rb.keywords if k.arg == prm), None)
            flds = [fl for fl in nf.fields if nf.field_param(fl) == prm]
            used = {x.attr for x in ast.walk(a) if isinstance(x, ast.Attribute) and isinstance(x.value, ast.Name) and x.value.id == s} if a is not None else set()
            ok = bool(used & set(flds)) if flds else True
            if prm == "output" and not flds:
                ok = "output" in used
            rep.add("C04.R4", f"{c.qualname}:rebuild:{prm}", site, ok, f"parameter {prm} <- {norm(a)[:50] if a is not None else None}" + ("" if ok else f" (expected a value derived from self.{flds or prm})"))


def r5(p, rep):
    rep.rule("C04.R5", "compute-once and side-effect emission", "T-DOM", floor=8)
    # usage counting sees every use
    f = p.func("get_usages._recurse", "tracer.compiler.python.usage")
    cfg = CFG(f.node)
    incs = [n for n in walk_no_nested(f.node) if isinstance(n, ast.AugAssign) and isinstance(n.op, ast.Add) and "usagenum" in norm(n.target)]
    if not incs:
        raise AnalysisError("unrecognised idiom: no usage counter increment in get_usages._recurse")
    for inc in incs:
        facts = [(norm(t), pol) for t, pol in cfg.guards(cfg.node_for(inc))]
        visited = [(t, pol) for t, pol in facts if " in done" in t and pol is False]
        rep.add(
            "C04.R5",
            f"{f.qualname}:count-every-use",
            f"{f.module.rel}:{inc.lineno}",
            not visited,
            "the use counter is incremented on every visit" if not visited else "the use counter is only incremented on the first visit (it is guarded by the already-visited test), so every value has usage count 1: values used several times are inlined at each use, i.e. computed more than once, and a re-evaluation that lands after an in-place update reads the updated data",
        )
    # inline decision honours the usage count
    d = p.func("CodeObject.define", "tracer.compiler.python")
    ifs = [n for n in walk_no_nested(d.node) if isinstance(n, ast.If) and isinstance(n.test, ast.Compare) and "max_usage_num" in norm(n.test.left)]
    ok = False
    why = "no `if self.max_usage_num[obj] > 1: no_inline = True`"
    for i in ifs:
        t = i.test
        if isinstance(t.ops[0], ast.Gt) and isinstance(t.comparators[0], ast.Constant) and t.comparators[0].value == 1 and any(isinstance(s, ast.Assign) and norm(s.targets[0]) == "no_inline" and isinstance(s.value, ast.Constant) and s.value.value is True for s in i.body):
            ok, why = True, "values with more than one use are never inlined"
        elif isinstance(t.ops[0], ast.GtE) and isinstance(t.comparators[0], ast.Constant) and t.comparators[0].value == 2:
            ok, why = True, "values with more than one use are never inlined"
        else:
            why = f"inline threshold is `{norm(t)}` (must be: more than one use)"
    rep.add("C04.R5", f"{d.qualname}:inline-threshold", d.loc, ok, why)
    # Call results are assigned unless the callee is a pure builtin
    f2, ch, branches = eval_app_branches(p)
    comp = compile_func(p)
    allow = [n.value for n in walk_no_nested(comp.node) if isinstance(n, ast.Assign) and any(norm(t) == "allow_inline_functions" for t in n.targets)]
    pure = {"isinstance", "tuple", "list", "len", "type"}
    if allow and isinstance(allow[0], ast.List):
        names = [attr_chain(e)[-1] if attr_chain(e) else norm(e) for e in allow[0].elts]
        rep.add("C04.R5", f"{comp.qualname}:allow_inline_functions", f"{comp.module.rel}:{allow[0].lineno}", set(names) <= pure, f"inlineable callees {names}" + ("" if set(names) <= pure else " include functions that are not pure builtins"))
    else:
        raise AnalysisError("unrecognised idiom: allow_inline_functions list not found")
    for q, br in branches.items():
        cname = q.split("::")[1]
        defines = [n for st in br.body for n in ast.walk(st) if isinstance(n, ast.Call) and norm(n.func) == "code.define"]
        appends = [n for st in br.body for n in ast.walk(st) if isinstance(n, ast.Call) and isinstance(n.func, ast.Attribute) and n.func.attr in ("append", "prepend_after_comments", "prepend") and n.args and isinstance(n.args[0], ast.Call) and norm(n.args[0].func).endswith("Statement")]
        site = f"{f2.module.rel}:{br.lineno}"
        if cname == "Call":
            for dcall in defines:
                ni = common.kwarg(dcall, "no_inline")
                ok = ni is not None and isinstance(ni, ast.UnaryOp) and isinstance(ni.op, ast.Not) and "allow_inline_functions" in norm(ni)
                rep.add("C04.R5", f"{f2.qualname}:Call:no_inline", site, ok, f"no_inline={norm(ni) if ni is not None else '<default False>'}" + ("" if ok else ": results of arbitrary calls may be inlined and re-evaluated at every use"))
        if cname in ("CallInplace", "UpdateItem", "Assert"):
            ok = bool(appends) and bool(defines) and appends[0].lineno < defines[0].lineno
            rep.add("C04.R5", f"{f2.qualname}:{cname}:statement", site, ok, "a Statement is appended to the block before the output is defined as an alias" if ok else f"the {cname} branch defines its output without emitting a statement first: the side effect is lost or reordered")
            for dcall in defines:
                fi = common.kwarg(dcall, "force_inline")
                ok2 = isinstance(fi, ast.Constant) and fi.value is True
                rep.add("C04.R5", f"{f2.qualname}:{cname}:alias", site, ok2, "output is an alias of the mutated / asserted operand (force_inline=True)")
            # the statement's inputs cover every expression of the branch
            if appends:
                st_call = appends[0].args[0]
                inp = common.kwarg(st_call, "inputs")
                exprs = {t.id for s in br.body if isinstance(s, ast.Assign) and isinstance(s.value, (ast.Call, ast.ListComp, ast.DictComp)) and "_get_expression_for" in norm(s.value) for t in s.targets if isinstance(t, ast.Name)}
                if cname == "UpdateItem":
                    exprs |= {"inputs"}
                    exprs -= {"at_to_code"}
                used = {x.id for x in ast.walk(inp) if isinstance(x, ast.Name)} if inp is not None else set()
                missing = exprs - used
                rep.add("C04.R5", f"{f2.qualname}:{cname}:statement-inputs", site, not missing, f"Statement(inputs=...) lists {sorted(used)}" + ("" if not missing else f"; {sorted(missing)} missing: liveness / ordering ignores that dependency"))


def r6(p, rep):
    rep.rule("C04.R6", "name fusion only re-uses the name of an input variable that is dead and lives in the same block", "T-DER [S] (enumerated filter shapes)", floor=4)
    f = compile_func(p)
    fuse_calls = [n for n in walk_no_nested(f.node) if isinstance(n, ast.Call) and isinstance(n.func, ast.Name) and n.func.id == "fuse"]
    if len(fuse_calls) != 1:
        raise AnalysisError(f"unrecognised idiom: expected one fuse(...) call in compile(), found {len(fuse_calls)}")
    fc = fuse_calls[0]
    site = f"{f.module.rel}:{fc.lineno}"
    a0 = fc.args[0]
    if not isinstance(a0, ast.Name):
        raise AnalysisError("unrecognised idiom: fuse() first argument is not a name")
    # a0 <- X.pop()  ;  X <- chain of set comprehensions
    loop = enclosing(fc, ast.For)
    pops = [n for n in ast.walk(loop) if isinstance(n, ast.Assign) and any(isinstance(t, ast.Name) and t.id == a0.id for t in n.targets)]
    if len(pops) != 1 or not (isinstance(pops[0].value, ast.Call) and isinstance(pops[0].value.func, ast.Attribute) and pops[0].value.func.attr == "pop"):
        raise AnalysisError("unrecognised idiom: fused input variable is not obtained by <set>.pop()")
    setname = norm(pops[0].value.func.value)
    comps = [n for n in ast.walk(loop) if isinstance(n, ast.Assign) and any(norm(t) == setname for t in n.targets) and isinstance(n.value, ast.SetComp) and n.lineno < pops[0].lineno]
    conds = []
    for c in comps:
        g = c.value.generators[0]
        var = g.target.id if isinstance(g.target, ast.Name) else None
        for cond in g.ifs:
            conds.append((var, cond))
    texts = [norm(c) for _, c in conds]
    rep.info["fusion_filters"] = texts
    # (1) allow_reusing_name
    ok1 = any(isinstance(c, ast.Attribute) and c.attr == "allow_reusing_name" for _, c in conds)
    rep.add("C04.R6", f"{f.qualname}:fuse:allow_reusing_name", site, ok1, "candidates are filtered by allow_reusing_name" if ok1 else "imports / constants (allow_reusing_name=False) can lose their name to another value")

    def all_over_dependents(c):
        """all(<elt> for <s> in <dependents>[id(v)]) -> (elt, s) or None"""
        if isinstance(c, ast.Call) and isinstance(c.func, ast.Name) and c.func.id == "all" and c.args and isinstance(c.args[0], ast.GeneratorExp):
            ge = c.args[0]
            it = ge.generators[0].iter
            if isinstance(it, ast.Subscript) and "dependent" in norm(it.value) and not ge.generators[0].ifs and len(ge.generators) == 1:
                return ge.elt, ge.generators[0].target
        return None

    # (2) every dependent statement is in the same block
    ok2 = False
    for var, c in conds:
        r = all_over_dependents(c)
        if r and isinstance(r[0], ast.Compare) and isinstance(r[0].ops[0], ast.Eq) and ".block" in norm(r[0].left) and ".block" in norm(r[0].comparators[0]):
            ok2 = True
    rep.add("C04.R6", f"{f.qualname}:fuse:same-block-dependents", site, ok2, "all dependent statements of the candidate are in the statement's block" if ok2 else "the filter `every dependent statement lives in this block` is missing: a value still needed by a nested function (closure, late binding) can be overwritten")
    # (3) every dependent statement has already been emitted (dead afterwards)
    ok3 = False
    for var, c in conds:
        r = all_over_dependents(c)
        if r and isinstance(r[0], ast.Compare) and isinstance(r[0].ops[0], ast.In) and norm(r[0].left).startswith("id(") and "seen" in norm(r[0].comparators[0]):
            ok3 = True
    rep.add("C04.R6", f"{f.qualname}:fuse:dead-after", site, ok3, "all dependent statements of the candidate were already seen (the value is dead after this statement)" if ok3 else "the liveness filter is not `all(id(dependent) in seen ...)` over ALL dependents of the variable: a name can be re-used while its old value is still needed")
    # (4) guarded by equal blocks of the two variables
    cfg = CFG(f.node)
    facts = [norm(t) for t, pol in cfg.guards_of_ast(fc) if pol]
    ok4 = any(".block" in t and ("==" in t or " is " in t) for t in facts)
    rep.add("C04.R6", f"{f.qualname}:fuse:same-block-pair", site, ok4, "fuse() only when input and output variable live in the same block" if ok4 else "fuse() is not guarded by equal blocks of the two variables")
    # (5) exactly one candidate and exactly one output
    ok5 = sum(1 for t in facts if t.startswith("len(") and t.endswith("== 1")) >= 2
    rep.add("C04.R6", f"{f.qualname}:fuse:unique", site, ok5, "exactly one output and exactly one dead input" if ok5 else "fusion is not restricted to a unique output / unique dead input")


def r7(p, rep):
    rep.rule("C04.R7", "(informational) the unwired graph interpreter vs the code generator", "T-SIB", floor=0)
    try:
        f = p.func("CompilationCache._get_new", "tracer.compiler.run")
    except AnalysisError:
        return
    from sa.exh import class_domain

    for ch in find_chains(p, f):
        if ch.kind == "class":
            root, domain, covered, missing = class_domain(p, ch)
            rep.exempt("C04.R7", f"{f.qualname}:missing", f.loc, f"compiler/run.py is not wired to any backend; it lacks handlers for {[m.name for m in missing]} and is therefore not a complete reference interpreter")


def run(p, rep, tier):
    r1(p, rep)
    r2(p, rep)
    r3(p, rep)
    r4(p, rep)
    r5(p, rep)
    r6(p, rep)
    rep.rule("C06.R1", "IR nodes compare every field (graph equality drives inline decisions and pattern matching)", "T-SIB (__init__ vs __eq__)", floor=30)
    c06.r1(p, rep)
    if tier == "thorough":
        r7(p, rep)
    rep.info["undecided"] = "semantic equality of the emitted program and the graph for every graph (correctness of the liveness / scoping algorithms as algorithms)"
