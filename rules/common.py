"""Rule building blocks shared by several properties."""

from __future__ import annotations

import ast

from sa.core import register_cache  # noqa: E402

from sa.cfg import CFG, decompose
from sa.core import (
    AnalysisError,
    ClassInfo,
    attr_chain,
    enclosing,
    enclosing_function,
    kwarg,
    norm,
    parents,
    resolve_callee,
    src,
    walk_no_nested,
)
from sa.exh import class_domain, find_chains, literal_domain

INTERNAL_EXC = {"AssertionError", "NotImplementedError", "KeyError", "IndexError", "AttributeError", "NameError", "RecursionError", "UnboundLocalError"}

# Modules that no backend / public entry point reaches (checked by C04.R7 info only)
OFF_PATH_MODULES = ("einx._src.tracer.visualize", "einx._src.tracer.compiler.run")


def errors_classes(p):
    m = p.module("einx._src.frontend.errors")
    return {c.name: c for c in p.classes.values() if c.module is m}


def resolves_to_errors_class(p, module, node, scope=None):
    """Does expression `node` (callee of a raise) denote a class of einx._src.frontend.errors
    (or a classmethod/staticmethod constructor on one)?  Returns the class name or None."""
    r = p.resolve_expr(module, node, scope)
    if r is None:
        return None
    if r[0] == "class" and r[1].module.name.endswith("frontend.errors"):
        return r[1].name
    if r[0] == "func" and r[1].cls is not None and r[1].cls.module.name.endswith("frontend.errors"):
        return r[1].cls.name
    if r[0] == "attr" and r[1][0] == "class" and r[1][1].module.name.endswith("frontend.errors"):
        return r[1][1].name
    return None


def raised_class(p, module, raise_node, scope=None):
    """Classify a `raise`: ('reraise', None) | ('errors', name) | ('builtin', name) |
    ('project', qualname) | ('external', text) | ('unknown', text)."""
    exc = raise_node.exc
    if exc is None:
        return ("reraise", None)
    callee = exc.func if isinstance(exc, ast.Call) else exc
    if isinstance(callee, ast.Name):
        # `raise e` where e is the bound exception of an enclosing handler
        h = enclosing(raise_node, ast.ExceptHandler)
        if h is not None and h.name == callee.id and not isinstance(exc, ast.Call):
            return ("reraise", None)
    nm = resolves_to_errors_class(p, module, callee, scope)
    if nm:
        return ("errors", nm)
    r = p.resolve_expr(module, callee, scope)
    if (r is None or r[0] == "local") and isinstance(exc, ast.Call) and isinstance(callee, ast.Name):
        # `raise make_error(...)` with make_error a nested function of the enclosing scopes
        from sa.cfg import _lookup_def

        h = _lookup_def(exc)
        if h is not None:
            kinds = set()
            for v in [x.value for x in walk_no_nested(h) if isinstance(x, ast.Return) and x.value is not None]:
                c = v.func if isinstance(v, ast.Call) else v
                nm2 = resolves_to_errors_class(p, module, c, h)
                if nm2:
                    kinds.add(("errors", nm2))
                else:
                    rr = p.resolve_expr(module, c, h)
                    kinds.add(("builtin", rr[1]) if rr and rr[0] == "builtin" else ("unknown", src(c)))
            if len(kinds) == 1:
                return kinds.pop()
    if r is None:
        return ("unknown", src(callee))
    if r[0] == "builtin":
        return ("builtin", r[1])
    if r[0] == "class":
        return ("project", r[1].qualname)
    if r[0] == "func" and r[1].cls is not None:
        return ("project", r[1].cls.qualname)
    if r[0] == "func" and isinstance(exc, ast.Call):
        # `raise make_error(...)`: a helper that constructs and returns the exception
        rets = [x.value for x in walk_no_nested(r[1].node) if isinstance(x, ast.Return) and x.value is not None]
        kinds = set()
        for v in rets:
            c = v.func if isinstance(v, ast.Call) else v
            nm2 = resolves_to_errors_class(p, r[1].module, c, r[1].node)
            if nm2:
                kinds.add(("errors", nm2))
            else:
                rr = p.resolve_expr(r[1].module, c, r[1].node)
                kinds.add(("builtin", rr[1]) if rr and rr[0] == "builtin" else ("unknown", src(c)))
        if len(kinds) == 1:
            return kinds.pop()
    if r[0] == "external":
        return ("external", r[1])
    return ("unknown", src(callee))


def block_always_raises(stmts):
    """Every path through the statement list ends in `raise` (structural; no loops considered as exits)."""
    if not stmts:
        return False
    last = stmts[-1]
    if isinstance(last, ast.Raise):
        return True
    if isinstance(last, ast.If):
        return bool(last.orelse) and block_always_raises(last.body) and block_always_raises(last.orelse)
    if isinstance(last, ast.Try):
        ok_body = block_always_raises(last.body) or (last.orelse and block_always_raises(last.orelse))
        return ok_body and all(block_always_raises(h.body) for h in last.handlers)
    if isinstance(last, (ast.With,)):
        return block_always_raises(last.body)
    return False


def terminal_raises(stmts):
    """All `raise` statements that terminate paths through stmts (for class checks)."""
    out = []
    for st in stmts:
        for n in walk_no_nested(st, include_self=True):
            if isinstance(n, ast.Raise):
                out.append(n)
    return out


def handler_catches(p, module, handler, class_names, scope=None):
    """Which of the given exception class names (project SolveException family etc.) does
    this handler catch?  `except Exception`/bare catches all."""
    if handler.type is None:
        return set(class_names)
    types = handler.type.elts if isinstance(handler.type, ast.Tuple) else [handler.type]
    caught = set()
    for t in types:
        r = p.resolve_expr(module, t, scope)
        if r and r[0] == "builtin" and r[1] in ("Exception", "BaseException"):
            return set(class_names)
        if r and r[0] == "class":
            for cn, ci in class_names.items():
                if r[1] in p.mro(ci):
                    caught.add(cn)
    return caught


def enclosing_tries(node, stop=None):
    """Try statements whose *body* contains node (innermost first), not crossing function boundaries."""
    child = node
    for par in parents(node):
        if isinstance(par, (ast.FunctionDef, ast.AsyncFunctionDef, ast.Lambda)):
            return
        if isinstance(par, ast.Try) and any(child is s for s in par.body):
            yield par
        child = par


# --------------------------------------------------------------------------------------
# T-EXH gate used by C03.R1 / C12.R1 / C04.R4a / C17.R4
# --------------------------------------------------------------------------------------

# (module suffix, family root class, frozenset of missing members) -> (max number of such chains, reason).
# Keys are structural (module + which members are absent), not function names: renaming or splitting the
# function that contains the chain does not change them; a further chain with the same gap is still reported.
EXH_EXEMPT = {
    ("namedtensor.stage1.parse", "Expression", frozenset({"Op"})): (1, "the second hoisting pass is applied to the children of the single top-level Op produced by the first pass (asserted just before)"),
    ("namedtensor.stage1.transform", "Expression", frozenset({"Args", "Op"})): (1, "split_concatenated_axes is called per argument expression; Args/Op only exist above argument level"),
    ("namedtensor.stage2.solve", "Expression", frozenset({"Args", "Op"})): (2, "stage2 receives one stage1 expression per tensor/constraint (parse_arg result); Args/Op never occur below argument level"),
    ("util.solver", "Expression", frozenset({"Sum", "Product"})): (1, "values of the variable->solution map are constructed in the same function as Constant(...) or Variable(...) only"),
    ("util.solver", "Expression", frozenset({"Variable"})): (1, "the substitution map has an entry for every variable id that occurs in the equations (built from the same equations)"),
}
_EXH_USED = register_cache({})


def exh_exempt_reason(func, root, missing_names):
    for (suffix, rootname, members), (limit, reason) in EXH_EXEMPT.items():
        if func.module.name.endswith(suffix) and root.name == rootname and members == frozenset(missing_names):
            key = (suffix, rootname, members)
            used = _EXH_USED.setdefault(key, set())
            used.add(func.qualname + ":" + str(len(used)) if func.qualname in used else func.qualname)
            if len(used) <= limit:
                return reason
    return None


def exhaustiveness(p, rep, rid, funcs=None, modules=None, skip_modules=OFF_PATH_MODULES, internal_only=True):
    """Check every dispatch chain with an internal fall-through in the selected functions."""
    n = 0
    _EXH_USED.clear()
    for f in p.funcs.values():
        if funcs is not None and f not in funcs:
            continue
        if modules is not None and not any(f.module.name.endswith(m) for m in modules):
            continue
        if any(f.module.name == m for m in skip_modules):
            continue
        for ch in find_chains(p, f):
            internal = ch.fall_exc in INTERNAL_EXC or (ch.fall_exc == "TypeError")
            if internal_only and not internal:
                continue
            site = f"{f.module.rel}:{ch.lineno}"
            keybase = f"{f.qualname}:dispatch({ch.subject})"
            if ch.kind == "class":
                root, domain, covered, missing = class_domain(p, ch)
                if root is None:
                    continue  # chain over builtin value kinds: no closed project domain
                n += 1
                real_missing = []
                reason = exh_exempt_reason(f, root, [m.name for m in missing]) if missing else None
                for m in missing:
                    if reason:
                        rep.exempt(rid, f"{keybase}:missing:{m.name}", site, reason)
                    else:
                        real_missing.append(m)
                if real_missing:
                    for m in real_missing:
                        rep.violation(
                            rid,
                            f"{keybase}:missing:{m.name}",
                            site,
                            f"dispatch on {ch.subject} over the {root.qualname} family has no arm for {m.name}; the fall-through raises {ch.fall_exc} (internal exception type)",
                            extra={"domain": [c.name for c in domain], "covered": [c.name for c in covered]},
                        )
                else:
                    rep.ok(rid, keybase, site, f"{len(domain)} classes of {root.qualname} covered; fall-through {ch.fall_exc}")
            else:
                table, members = literal_domain(p, ch)
                if table is None:
                    continue
                n += 1
                handled = {l for a in ch.arms for l in a.literals}
                missing = [m for m in members if m not in handled]
                if missing:
                    for m in missing:
                        rep.violation(
                            rid,
                            f"{keybase}:missing:{m!r}",
                            site,
                            f"{ch.subject} ranges over {table} = {sorted(members, key=repr)} but {m!r} has no arm; the fall-through raises {ch.fall_exc}",
                        )
                else:
                    rep.ok(rid, keybase, site, f"all {len(members)} members of {table} handled")
    return n


# --------------------------------------------------------------------------------------
# Solver failures are mapped (C02.R2 == C03.R3)
# --------------------------------------------------------------------------------------


def solver_failures_mapped(p, rep, rid):
    solver_mod = p.module("einx._src.util.solver")
    base = p.cls("SolveException", "util.solver")
    family = {c.name: c for c in [base] + p.subclasses(base)}
    leafs = {n: c for n, c in family.items() if c is not base}
    if len(leafs) < 2:
        raise AnalysisError("SolveException family has fewer than 2 subclasses")
    errs = errors_classes(p)

    # functions that raise a SolveException themselves
    raisers = set()
    for f in p.funcs.values():
        if any(f.module.name == m for m in OFF_PATH_MODULES):
            continue
        for n in walk_no_nested(f.node):
            if isinstance(n, ast.Raise) and n.exc is not None:
                kind, nm = raised_class(p, f.module, n, f.node)
                if kind == "project" and any(nm == c.qualname for c in family.values()):
                    raisers.add(f)
    if not any(f.module is solver_mod for f in raisers):
        raise AnalysisError("anchor vanished: no function in util/solver.py raises SolveException*")

    # call sites of raisers (fixpoint: an un-protected caller becomes a raiser itself)
    sites = []
    changed = True
    checked = set()
    while changed:
        changed = False
        for f in list(p.funcs.values()):
            if any(f.module.name == m for m in OFF_PATH_MODULES):
                continue
            for call in [n for n in walk_no_nested(f.node) if isinstance(n, ast.Call)]:
                if id(call) in checked:
                    continue
                r = resolve_callee(p, call, f.module)
                if not (r and r[0] == "func" and r[1] in raisers):
                    continue
                checked.add(id(call))
                caught = set()
                handlers = []
                for t in enclosing_tries(call):
                    for h in t.handlers:
                        c = handler_catches(p, f.module, h, leafs, f.node)
                        if c - caught:
                            handlers.append((h, c - caught))
                        caught |= c
                if caught >= set(leafs):
                    sites.append((f, call, r[1], handlers))
                elif f.module is solver_mod or f in raisers:
                    pass  # inside the solver itself / already a raiser: propagation is intended
                else:
                    # unprotected (or partially protected) call: f propagates; its callers must catch
                    if f not in raisers:
                        raisers.add(f)
                        changed = True
                    sites.append((f, call, r[1], handlers, set(leafs) - caught))
    # evaluate
    public_boundary = ("einx._src.frontend.", "einx._src.adapter.einx_from_namedtensor")
    for s in sites:
        f, call, callee, handlers = s[:4]
        site = f"{f.module.rel}:{call.lineno}"
        key = f"{f.qualname}:call({callee.qualname.split('::')[1]})"
        if len(s) == 5:
            # propagating call: fine if some caller up the chain catches (checked as its own site)
            # it is a violation only if f has no caller inside the project that protects it
            callers = [x for x in sites if x[2] is f]
            if not callers and not f.module is solver_mod:
                rep.violation(rid, key, site, f"{', '.join(sorted(s[4]))} raised by {callee.qualname} is not caught here and {f.qualname} has no protected caller: the solver's internal exception escapes")
            else:
                rep.ok(rid, key + ":propagates", site, f"not caught here; every caller of {f.qualname} is checked separately", nontrivial=False)
            continue
        rep.ok(rid, key, site, f"inside try covering {sorted(leafs)}")
        for h, classes in handlers:
            hsite = f"{f.module.rel}:{h.lineno}"
            hkey = f"{key}:except({norm(h.type) if h.type is not None else '*'})"
            body = h.body
            if block_always_raises(body):
                bad = []
                for r in terminal_raises(body):
                    kind, nm = raised_class(p, f.module, r, f.node)
                    if not (kind == "errors" or (kind == "builtin" and nm in ("ValueError", "TypeError"))):
                        bad.append(f"{kind}:{nm}")
                if bad:
                    rep.violation(rid, hkey, hsite, f"handler converts the solver failure into {bad} instead of a documented einx error")
                else:
                    rep.ok(rid, hkey, hsite, "handler ends in raise of a documented error on every path")
            elif _inside_failing_handler(call):
                rep.ok(rid, hkey, hsite, "diagnostic probe: the call sits inside an outer handler whose every path ends in a raise (only the error message is being refined)")
            elif _is_probe_handler(body):
                rep.ok(rid, hkey, hsite, "probe: handler records a boolean and continues")
            elif _handler_returns_false(body):
                rep.ok(rid, hkey, hsite, "handler returns a constant")
            else:
                rep.violation(rid, hkey, hsite, "handler for a solver failure neither raises a documented error on every path nor is a boolean probe")
    return len(sites)


def _inside_failing_handler(node):
    """node lies (lexically, same function) inside an except-handler body that raises on every path"""
    for par in parents(node):
        if isinstance(par, (ast.FunctionDef, ast.AsyncFunctionDef, ast.Lambda)):
            return False
        if isinstance(par, ast.ExceptHandler) and block_always_raises(par.body):
            return True
    return False


def _is_probe_handler(body):
    return all(isinstance(st, ast.Assign) and isinstance(st.value, ast.Constant) and isinstance(st.value.value, bool) for st in body) and bool(body)


def _handler_returns_false(body):
    return len(body) == 1 and isinstance(body[0], ast.Return) and isinstance(body[0].value, ast.Constant)


# --------------------------------------------------------------------------------------
# generic helpers
# --------------------------------------------------------------------------------------


def cfg_of(f):
    c = getattr(f, "_cfg", None)
    if c is None:
        c = CFG(f.node)
        f._cfg = c
    return c


_SPECIALISED = register_cache({})


def specialised(p, cls, name, depth=3):
    """The method `name` as it runs for instances of `cls`: the definition found through the MRO, with calls of
    `self.<hook>(...)` replaced by the hook's returned expression when the hook (resolved for `cls`) is straight-line
    code ending in one `return E` (template-method classes read like the hand-written per-class code).  Returns a Func
    whose node is a structural copy (parents set) registered with the project, or None when cls has no such method."""
    from sa.cfg import _clone, _set_parents
    from sa.core import Func

    cache = p.__dict__.setdefault("_specialised_methods", {})  # per project object (ids of dead projects are re-used)
    key = (cls.qualname, name)
    if key in cache:
        return cache[key]
    m = p.lookup_method(cls, name)
    if m is None:
        cache[key] = None
        return None
    node = _clone(m.node)
    selfname = m.params[0] if m.params else "self"

    class Sub(ast.NodeTransformer):
        def __init__(self, mapping):
            self.mapping = mapping

        def visit_Name(self, n):
            if isinstance(n.ctx, ast.Load) and n.id in self.mapping:
                return ast.copy_location(_clone(self.mapping[n.id]), n)
            return n

    changed_any = False

    def expand(call, level):
        nonlocal changed_any
        if level > depth:
            return None
        if not (isinstance(call.func, ast.Attribute) and isinstance(call.func.value, ast.Name) and call.func.value.id == selfname):
            return None
        h = p.lookup_method(cls, call.func.attr)
        if h is None or h.node.args.vararg or h.node.args.kwarg or any(isinstance(a, ast.Starred) for a in call.args) or any(k.arg is None for k in call.keywords):
            return None
        body = [st for st in h.node.body if not (isinstance(st, ast.Expr) and isinstance(st.value, ast.Constant)) and not isinstance(st, (ast.Assert, ast.Pass))]
        if len(body) != 1 or not isinstance(body[0], ast.Return) or body[0].value is None:
            return None
        params = h.params[1:]
        mapping = {h.params[0]: ast.Name(id=selfname, ctx=ast.Load())}
        for i, a in enumerate(call.args):
            if i >= len(params):
                return None
            mapping[params[i]] = a
        for k in call.keywords:
            mapping[k.arg] = k.value
        defaults = dict(zip(params[len(params) - len(h.node.args.defaults) :], h.node.args.defaults))
        for q in params:
            if q not in mapping:
                if q not in defaults:
                    return None
                mapping[q] = defaults[q]
        if any(isinstance(y, ast.Name) and not isinstance(y.ctx, ast.Load) and y.id in mapping for y in ast.walk(body[0].value)):
            return None
        changed_any = True
        return Sub(mapping).visit(_clone(body[0].value))

    class Inl(ast.NodeTransformer):
        def __init__(self):
            self.level = 0

        def visit_Call(self, c):
            self.generic_visit(c)
            new = expand(c, self.level)
            if new is None:
                return c
            self.level += 1
            try:
                new = self.visit(new) if isinstance(new, ast.AST) else new
            finally:
                self.level -= 1
            return ast.copy_location(new, c)

    # dispatch on the class through a module-level table: `TABLE[type(self)](self, ..)` is, for instances of `cls`,
    # the row stored under `cls` (a lambda is applied in place)
    class TypeTable(ast.NodeTransformer):
        def visit_Call(self, c):
            nonlocal changed_any
            self.generic_visit(c)
            fn = c.func
            if not (isinstance(fn, ast.Subscript) and isinstance(fn.value, ast.Name) and isinstance(fn.slice, ast.Call) and isinstance(fn.slice.func, ast.Name) and fn.slice.func.id == "type" and len(fn.slice.args) == 1 and isinstance(fn.slice.args[0], ast.Name) and fn.slice.args[0].id == selfname):
                return c
            tabs = [a.value for a in m.module.tree.body if isinstance(a, ast.Assign) and any(isinstance(t, ast.Name) and t.id == fn.value.id for t in a.targets)]
            if len(tabs) != 1 or not isinstance(tabs[0], ast.Dict):
                return c
            row = None
            for k, v in zip(tabs[0].keys, tabs[0].values):
                r = p.resolve_expr(m.module, k, None) if k is not None else None
                if r and r[0] == "class" and r[1] is cls:
                    row = v
            if row is None or c.keywords or any(isinstance(a, ast.Starred) for a in c.args):
                return c
            if isinstance(row, ast.Lambda):
                la = row.args
                if la.vararg or la.kwarg or la.kwonlyargs or la.defaults or len(la.args) != len(c.args):
                    return c
                inner = {y.arg for y in ast.walk(row.body) if isinstance(y, ast.arg)} | {t.id for q in ast.walk(row.body) if isinstance(q, ast.comprehension) for t in ast.walk(q.target) if isinstance(t, ast.Name)}
                if inner & ({q.arg for q in la.args} | {y.id for a in c.args for y in ast.walk(a) if isinstance(y, ast.Name)}):
                    return c
                changed_any = True
                return ast.copy_location(Sub(dict(zip([q.arg for q in la.args], c.args))).visit(_clone(row.body)), c)
            if isinstance(row, (ast.Name, ast.Attribute)):
                changed_any = True
                return ast.copy_location(ast.Call(func=_clone(row), args=c.args, keywords=[]), c)
            return c

    node.body = [TypeTable().visit(st) for st in node.body]
    node.body = [Inl().visit(st) for st in node.body]

    # `return self._rewrite(x, transform)` with a multi-statement hook: the hook's statements take the place of the return.
    # `a, b = super()._rewrite(..)` / `a, b = self._hook(..)` with a hook that returns in several places: the hook's
    # statements take the place of the assignment, and what follows the assignment is continued at each of its returns
    # (with `a, b` known there - `if a: return a, b` folds away when the hook returned a constant flag).
    def resolve_hook(c, owner):
        """(Func, owner class of it) for `self.m(..)` (resolved for cls) or `super().m(..)` (next in the MRO after owner)"""
        f_ = c.func
        if not isinstance(f_, ast.Attribute) or c.keywords or any(isinstance(a_, ast.Starred) for a_ in c.args):
            return None
        if isinstance(f_.value, ast.Name) and f_.value.id == selfname:
            for k in p.mro(cls):
                if f_.attr in k.methods:
                    return k.methods[f_.attr], k
            return None
        if isinstance(f_.value, ast.Call) and isinstance(f_.value.func, ast.Name) and f_.value.func.id == "super" and not f_.value.args and owner is not None:
            mro = p.mro(cls)
            if owner in mro:
                for k in mro[mro.index(owner) + 1 :]:
                    if hasattr(k, "methods") and f_.attr in k.methods:
                        return k.methods[f_.attr], k
        return None

    def bind(h, c):
        """parameter mapping for inlining hook h at call c, or None: a parameter is either passed under its own name (it
        stays the same variable) or is not re-bound in the hook and is replaced by the argument (whose names the hook
        does not re-bind either)"""
        if h.node.args.vararg or h.node.args.kwarg or len(c.args) != len(h.params) - 1:
            return None
        params = h.params[1:]
        stored = {y.id for y in ast.walk(h.node) if isinstance(y, ast.Name) and not isinstance(y.ctx, ast.Load)}
        mapping = {h.params[0]: ast.Name(id=selfname, ctx=ast.Load())}
        for q, a_ in zip(params, c.args):
            if isinstance(a_, ast.Name) and a_.id == q:
                continue
            if q in stored or any(isinstance(y, ast.Name) and y.id in stored for y in ast.walk(a_)):
                return None
            mapping[q] = a_
        return mapping

    def hook_body(h, hk, mapping):
        body = [Sub(mapping).visit(_clone(b_)) for b_ in h.node.body if not (isinstance(b_, ast.Expr) and isinstance(b_.value, ast.Constant))]
        for b_ in body:
            for y in ast.walk(b_):
                y._owner_class = hk  # for super() inside the inlined statements
        return [Inl().visit(b_) for b_ in body]

    def terminates(ss):
        if not ss:
            return False
        last = ss[-1]
        if isinstance(last, (ast.Return, ast.Raise)):
            return True
        if isinstance(last, ast.If):
            return terminates(last.body) and terminates(last.orelse)
        return False

    def continue_at_returns(ss, k):
        """ss with every `return E` replaced by k(E); None when a return sits inside a loop / try / with"""
        out = []
        for i, st in enumerate(ss):
            if isinstance(st, ast.Return):
                out.extend(k(st.value))
                return out  # what follows a return is dead
            if isinstance(st, ast.If) and any(isinstance(y, ast.Return) for y in ast.walk(st)):
                rest = ss[i + 1 :]
                b1 = continue_at_returns(st.body + ([] if terminates(st.body) else rest), k)
                b2 = continue_at_returns((st.orelse if st.orelse else []) + ([] if st.orelse and terminates(st.orelse) else rest), k)
                if b1 is None or b2 is None:
                    return None
                new_if = ast.If(test=st.test, body=b1 or [ast.Pass()], orelse=b2)
                out.append(ast.copy_location(new_if, st))
                return out
            if any(isinstance(y, ast.Return) for y in ast.walk(st)) and not isinstance(st, (ast.FunctionDef, ast.Lambda)):
                return None
            out.append(st)
        out.extend(k(None))
        return out

    def splice(stmts, level, owner):
        out = []
        for i, st in enumerate(stmts):
            own = getattr(st, "_owner_class", owner)
            for fld in ("body", "orelse", "finalbody"):
                blk = getattr(st, fld, None)
                if isinstance(blk, list) and blk and isinstance(blk[0], ast.stmt) and not isinstance(st, (ast.FunctionDef, ast.ClassDef)):
                    setattr(st, fld, splice(blk, level, own))
            if isinstance(st, ast.Return) and isinstance(st.value, ast.Call) and level < depth:
                rh = resolve_hook(st.value, own)
                if rh is not None and rh[0].node is not m.node:
                    mapping = bind(rh[0], st.value)
                    if mapping is not None:
                        out.extend(splice(hook_body(rh[0], rh[1], mapping), level + 1, rh[1]))
                        continue
            if isinstance(st, ast.Assign) and len(st.targets) == 1 and isinstance(st.value, ast.Call) and level < depth:
                rh = resolve_hook(st.value, own)
                tgt = st.targets[0]
                names = [e.id for e in tgt.elts] if isinstance(tgt, ast.Tuple) and all(isinstance(e, ast.Name) for e in tgt.elts) else ([tgt.id] if isinstance(tgt, ast.Name) else None)
                if rh is not None and names and rh[0].node is not m.node and sum(1 for y in ast.walk(rh[0].node) if isinstance(y, ast.Return)) >= 2:
                    mapping = bind(rh[0], st.value)
                    rest = stmts[i + 1 :]
                    if mapping is not None and sum(len(list(ast.walk(r_))) for r_ in rest) < 400:
                        def k(E, names=names, rest=rest, st=st):
                            vals = None
                            if E is not None and len(names) > 1 and isinstance(E, ast.Tuple) and len(E.elts) == len(names):
                                vals = dict(zip(names, E.elts))
                            elif E is not None and len(names) == 1:
                                vals = {names[0]: E}
                            rest_c = [_clone(r_) for r_ in rest]
                            if vals is None:
                                return [ast.copy_location(ast.Assign(targets=[_clone(st.targets[0])], value=_clone(E) if E is not None else ast.Constant(value=None)), st)] + rest_c
                            assigns = [ast.copy_location(ast.Assign(targets=[ast.Name(id=n_, ctx=ast.Store())], value=_clone(v_)), st) for n_, v_ in vals.items()]
                            # `if flag: return flag, value` right behind the call: decided when the hook returned a constant flag
                            if rest_c and isinstance(rest_c[0], ast.If) and isinstance(rest_c[0].test, ast.Name) and isinstance(vals.get(rest_c[0].test.id), ast.Constant):
                                chosen = rest_c[0].body if vals[rest_c[0].test.id].value else rest_c[0].orelse
                                stored_later = {y.id for r_ in chosen for y in ast.walk(r_) if isinstance(y, ast.Name) and not isinstance(y.ctx, ast.Load)}
                                if not (stored_later & set(vals)) and all(isinstance(r_, (ast.Return, ast.Expr, ast.Pass)) for r_ in chosen):
                                    chosen = [Sub(vals).visit(r_) for r_ in chosen]
                                    return chosen if terminates(chosen) else assigns + chosen + rest_c[1:]
                                return assigns + chosen + ([] if terminates(chosen) else rest_c[1:])
                            return assigns + rest_c

                        new = continue_at_returns(hook_body(rh[0], rh[1], mapping), k)
                        if new is not None:
                            out.extend(splice(new, level + 1, rh[1]))
                            return out
            out.append(st)
        return out

    node.body = splice(node.body, 0, next((k for k in p.mro(cls) if hasattr(k, 'methods') and k.methods.get(name) is m), None))
    ast.fix_missing_locations(node)
    _set_parents(node)
    node._parent = getattr(m.node, "_parent", None)
    f = Func(qualname=f"{cls.module.name}::{cls.name}.{name}", module=m.module, node=node, cls=cls, parent=None)
    p.func_of_node[id(node)] = f
    # nested functions of the copy belong to it as well
    for x in ast.walk(node):
        if isinstance(x, (ast.FunctionDef, ast.Lambda)) and x is not node:
            p.func_of_node.setdefault(id(x), Func(qualname=f"{f.qualname}.<nested>", module=m.module, node=x, cls=None, parent=f))
    cache[key] = f
    return f


def zip_alignment(fnode):
    """Lockstep lists.  `zip(L, S)` pairs the i-th element of L with the i-th element of S; when L was built by appends in
    a `for v in S:` loop, that only lines up if every trip through the loop body appends exactly one element.
    Returns (number of such (L, S, loop) instances, [(zip call, L, S, loop, possible append counts)] for the bad ones).
    Undecidable shapes (appends inside nested loops, other mutations of L) are skipped, not reported."""
    cfg = None
    instances, bad = 0, []
    zips = [c for c in walk_no_nested(fnode) if isinstance(c, ast.Call) and isinstance(c.func, ast.Name) and c.func.id == "zip" and len(c.args) >= 2 and all(isinstance(a, ast.Name) for a in c.args)]
    if not zips:
        return 0, []
    for z in zips:
        for la in z.args:
            for sa in z.args:
                if la is sa:
                    continue
                if cfg is None:
                    cfg = CFG(fnode)
                # L: follow `coords = coords2` aliases back to the list that was built
                lname, at, hops = la.id, z, 0
                built = None
                while hops < 3:
                    v = single_reaching_value(cfg, at, lname)
                    if v is None:
                        break
                    if isinstance(v, ast.List) and not v.elts:
                        built = (lname, v)
                        break
                    if isinstance(v, ast.Name):
                        at, lname, hops = getattr(v, "_parent", None), v.id, hops + 1
                        continue
                    break
                if built is None:
                    continue
                lname, init = built
                init_stmt = getattr(init, "_parent", None)
                # the loop over S in which L is filled (S must be the very same name, never rebound in the function)
                if sum(1 for y in walk_no_nested(fnode) if isinstance(y, ast.Name) and y.id == sa.id and not isinstance(y.ctx, ast.Load)) > 0:
                    continue
                loops = [l for l in walk_no_nested(fnode) if isinstance(l, ast.For) and isinstance(l.iter, ast.Name) and l.iter.id == sa.id and l.lineno > getattr(init_stmt, "lineno", 0) and l.lineno < z.lineno and any(_is_append(c, lname) for c in ast.walk(l))]
                # nothing else may fill L
                others = [c for c in walk_no_nested(fnode) if isinstance(c, ast.Call) and isinstance(c.func, ast.Attribute) and isinstance(c.func.value, ast.Name) and c.func.value.id == lname and c.func.attr in ("append", "insert", "extend", "pop", "remove", "clear") and not any(c in list(ast.walk(l)) for l in loops) and getattr(init_stmt, "lineno", 0) < c.lineno < z.lineno]
                if len(loops) != 1 or others:
                    continue
                counts = _append_counts(loops[0].body, lname)
                if counts is None:
                    continue
                instances += 1
                if counts != {1}:
                    bad.append((z, lname, sa.id, loops[0], counts))
    return instances, bad


def _is_append(c, name):
    return isinstance(c, ast.Call) and isinstance(c.func, ast.Attribute) and c.func.attr in ("append", "insert") and isinstance(c.func.value, ast.Name) and c.func.value.id == name


def _append_counts(stmts, name):
    """possible numbers of `name.append(...)` along the paths through one loop iteration; None when not decidable;
    a path that leaves the loop early (`break`) counts as 0 appended for the remaining elements (reported as -1)"""
    done = set()  # counts of paths that ended the iteration early (continue)
    def seq(ss, acc):
        cur = set(acc)
        for st in ss:
            if not cur:
                break
            if isinstance(st, ast.Expr) and _is_append(st.value, name):
                cur = {c + 1 for c in cur}
            elif isinstance(st, ast.If):
                a = seq(st.body, cur)
                b = seq(st.orelse, cur)
                if a is None or b is None:
                    return None
                cur = a | b
            elif isinstance(st, ast.Continue):
                done.update(cur)
                cur = set()
            elif isinstance(st, ast.Break):
                done.add(-1)
                cur = set()
            elif isinstance(st, (ast.Raise, ast.Return)):
                cur = set()
            elif isinstance(st, (ast.For, ast.While, ast.Try, ast.With, ast.Match)):
                if any(_is_append(c, name) for c in ast.walk(st)) or any(isinstance(y, (ast.Continue, ast.Break)) for y in ast.walk(st)):
                    return None
            elif any(_is_append(c, name) for c in ast.walk(st)):
                return None  # an append inside an expression we do not model (comprehension, lambda)
        return cur

    out = seq(stmts, {0})
    if out is None:
        return None
    return out | done


def restarting_counters(outer):
    """Fresh names / numbers drawn from the size of a table (`T.setdefault(key, f"x.{len(T)}")`, `T[key] = len(T)`) must
    come from ONE table per job.  Hit: the table T is created inside a nested function g of `outer`, and g runs several
    times (called in a loop / comprehension of `outer`, or at two call sites): every run restarts at 0, so one key gets
    different numbers in different runs and different keys share a number.
    -> (numbering sites inspected, [(site, table name, g, how g is repeated)])"""
    n, hits = 0, []
    nested = [g for g in ast.walk(outer) if isinstance(g, ast.FunctionDef) and g is not outer]
    for g in nested:
        # tables local to g (bound to an empty dict / list / set directly in g's body, not declared nonlocal)
        locals_ = {}
        for st in g.body:
            if isinstance(st, ast.Assign) and len(st.targets) == 1 and isinstance(st.targets[0], ast.Name):
                v = st.value
                if (isinstance(v, (ast.Dict, ast.List, ast.Set)) and not (getattr(v, "keys", None) or getattr(v, "elts", None))) or (isinstance(v, ast.Call) and isinstance(v.func, ast.Name) and v.func.id in ("dict", "list", "set") and not v.args and not v.keywords):
                    locals_[st.targets[0].id] = st
        if not locals_:
            continue
        sites = []
        for c in ast.walk(g):
            tname = None
            if isinstance(c, ast.Call) and isinstance(c.func, ast.Attribute) and c.func.attr == "setdefault" and isinstance(c.func.value, ast.Name) and c.func.value.id in locals_ and len(c.args) == 2:
                tname, val = c.func.value.id, c.args[1]
            elif isinstance(c, ast.Assign) and len(c.targets) == 1 and isinstance(c.targets[0], ast.Subscript) and isinstance(c.targets[0].value, ast.Name) and c.targets[0].value.id in locals_:
                tname, val = c.targets[0].value.id, c.value
            if tname and any(isinstance(x, ast.Call) and isinstance(x.func, ast.Name) and x.func.id == "len" and x.args and isinstance(x.args[0], ast.Name) and x.args[0].id == tname for x in ast.walk(val)):
                sites.append((c, tname))
        if not sites:
            continue
        n += len(sites)
        # how often does g run per run of `outer`?  calls of g by name in the scopes between g and outer
        calls = [c for c in ast.walk(outer) if isinstance(c, ast.Call) and isinstance(c.func, ast.Name) and c.func.id == g.name and not any(c is y for y in ast.walk(g))]
        repeated = None
        if len(calls) >= 2:
            repeated = f"called at {len(calls)} places"
        for c in calls:
            cur = getattr(c, "_parent", None)
            while cur is not None and cur is not outer:
                if isinstance(cur, (ast.For, ast.While, ast.ListComp, ast.SetComp, ast.DictComp, ast.GeneratorExp)):
                    repeated = "called once per element of a loop / comprehension"
                cur = getattr(cur, "_parent", None)
        if repeated:
            hits += [(c, t, g, repeated) for c, t in sites]
    return n, hits


def walk_with_lambdas(fnode):
    """like walk_no_nested, but lambdas (which are no functions of their own in the project model) are descended into"""
    stack = list(ast.iter_child_nodes(fnode))
    while stack:
        n = stack.pop()
        yield n
        if isinstance(n, (ast.FunctionDef, ast.AsyncFunctionDef, ast.ClassDef)):
            continue
        stack.extend(ast.iter_child_nodes(n))


def lexical_facts(g, node, stop=None):
    """branch facts under which `node` (inside function g) runs, including the facts under which the closures that
    lexically contain it are defined (up to and including `stop`, or the outermost function)"""
    facts = []
    h, at = g, node
    while h is not None:
        facts += cfg_of(h).guards_of_ast(at)
        if h is stop:
            break
        at, h = h.node, h.parent
    return facts


def single_reaching_value(cfg, at_ast, name):
    """the value of the one assignment `name = <value>` that reaches `at_ast` (None when several / none do)"""
    at = cfg.node_for(at_ast)
    if at is None:
        return None
    defs = cfg._rd().defs_reaching(at, name)
    if len(defs) != 1:
        return None
    st = cfg.nodes[defs[0]].ast
    if isinstance(st, ast.Assign) and len(st.targets) == 1 and isinstance(st.targets[0], ast.Name) and st.targets[0].id == name:
        return st.value
    return None


def backend_call_of(p, f, depth=0):
    """The call a public wrapper ends in, written in terms of the wrapper's own parameters:
    (operation name or None, call node).  `return backend.N(...)`, `return getattr(backend, "N")(...)`, and the same
    reached through a module-level helper whose parameters are replaced by the arguments it is called with
    (`return _reduce("sum", backend, description, tensor, keepdims, parameters)`)."""
    from .elempreds import rename

    rets = [r for r in walk_no_nested(f.node) if isinstance(r, ast.Return) and isinstance(r.value, ast.Call)]
    if len(rets) != 1:
        return None, None
    return _resolve_backend_call(p, f.module, rets[0].value, rename, depth)


def _resolve_backend_call(p, module, call, rename, depth):
    fn = call.func
    if isinstance(fn, ast.Attribute) and isinstance(fn.value, ast.Name) and fn.value.id == "backend":
        return fn.attr, call
    if isinstance(fn, ast.Call) and isinstance(fn.func, ast.Name) and fn.func.id == "getattr" and len(fn.args) == 2 and isinstance(fn.args[0], ast.Name) and fn.args[0].id == "backend":
        nm = fn.args[1].value if isinstance(fn.args[1], ast.Constant) and isinstance(fn.args[1].value, str) else None
        return nm, call
    if depth >= 3:
        return None, call
    r = resolve_callee(p, call, module)
    if not (r and r[0] == "func" and r[1].parent is None and r[1].cls is None and isinstance(r[1].node, ast.FunctionDef)):
        return None, call
    h = r[1]
    a = h.node.args
    if a.vararg or a.kwarg or any(isinstance(x, ast.Starred) for x in call.args) or any(k.arg is None for k in call.keywords):
        return None, call
    params = [x.arg for x in a.posonlyargs + a.args]
    mapping = {}
    for i, x in enumerate(call.args):
        if i >= len(params):
            return None, call
        mapping[params[i]] = x
    for k in call.keywords:
        mapping[k.arg] = k.value
    defaults = dict(zip(params[len(params) - len(a.defaults):], a.defaults))
    for k_, d in zip(a.kwonlyargs, a.kw_defaults):
        if d is not None:
            defaults[k_.arg] = d
    for q in params + [k_.arg for k_ in a.kwonlyargs]:
        if q not in mapping:
            if q not in defaults:
                return None, call
            mapping[q] = defaults[q]
    rets = [x for x in walk_no_nested(h.node) if isinstance(x, ast.Return) and isinstance(x.value, ast.Call)]
    if len(rets) != 1:
        return None, call
    # parameters of the helper that are rebound inside it cannot be substituted
    if any(isinstance(x, ast.Name) and isinstance(x.ctx, ast.Store) and x.id in mapping for x in walk_no_nested(h.node)):
        return None, call
    inner = rename(rets[0].value, mapping)
    # f(*(a, b)) is f(a, b)
    flat = []
    for x in inner.args:
        if isinstance(x, ast.Starred) and isinstance(x.value, (ast.Tuple, ast.List)) and not any(isinstance(e, ast.Starred) for e in x.value.elts):
            flat.extend(x.value.elts)
        else:
            flat.append(x)
    inner.args = flat
    return _resolve_backend_call(p, h.module, inner, rename, depth + 1)


_NEGATED_OP = {ast.Eq: ast.NotEq, ast.NotEq: ast.Eq, ast.Lt: ast.GtE, ast.GtE: ast.Lt, ast.Gt: ast.LtE, ast.LtE: ast.Gt, ast.Is: ast.IsNot, ast.IsNot: ast.Is, ast.In: ast.NotIn, ast.NotIn: ast.In}


def expand_pure_call(p, module, call, scope=None):
    """`helper(a, k=b)` where helper is a project function that is just `return <expr>`: that expression with the
    parameters replaced by the arguments (defaults included) - for reading conditions through extracted helpers.
    None when the callee is anything else. The copy is detached (no CFG): use it for structure only."""
    from sa.canon import _Subst, _copy

    r = resolve_callee(p, call, module)
    if not (r and r[0] == "func"):
        return None
    g = r[1]
    body = [st for st in g.node.body if not (isinstance(st, ast.Expr) and isinstance(st.value, ast.Constant) and isinstance(st.value.value, str))]
    a = g.node.args
    if len(body) != 1 or not isinstance(body[0], ast.Return) or body[0].value is None or a.vararg or a.kwarg or g.cls is not None:
        return None
    if any(isinstance(x, (ast.Yield, ast.YieldFrom, ast.Await)) for x in ast.walk(body[0])) or any(isinstance(x, ast.Starred) for x in call.args) or any(k.arg is None for k in call.keywords):
        return None
    pos = [q.arg for q in a.posonlyargs + a.args]
    mapping = {}
    for q, d in zip(reversed(a.posonlyargs + a.args), reversed(a.defaults)):
        mapping[q.arg] = d
    for q, d in zip(a.kwonlyargs, a.kw_defaults):
        if d is not None:
            mapping[q.arg] = d
    if len(call.args) > len(pos):
        return None
    for q, v in zip(pos, call.args):
        mapping[q] = v
    for k in call.keywords:
        mapping[k.arg] = k.value
    if set(pos + [q.arg for q in a.kwonlyargs]) - set(mapping):
        return None
    return _Subst(mapping).visit(_copy(body[0].value))


def as_positive(t, pol):
    """a branch fact as one expression that is true: (`k in sol`, False) -> `k not in sol`; None when the negation of
    the test is not a single comparison"""
    if pol:
        return t
    if isinstance(t, ast.Compare) and len(t.ops) == 1 and type(t.ops[0]) in _NEGATED_OP:
        new = ast.Compare(left=t.left, ops=[_NEGATED_OP[type(t.ops[0])]()], comparators=t.comparators)
        return ast.copy_location(new, t)
    return None


def guard_facts_text(facts):
    return [(norm(t), pol) for t, pol in facts]


def calls_to(p, f, pred):
    """Call nodes directly in function f (not nested defs) whose resolved callee satisfies pred(resolution, call)."""
    out = []
    for n in walk_no_nested(f.node):
        if isinstance(n, ast.Call):
            r = resolve_callee(p, n, f.module)
            if pred(r, n):
                out.append(n)
    return out


def thorough_paths(rep, label, cfg, frm, to, via, dominator_verdict=None):
    """Thorough tier: enumerate all acyclic paths frm -> to (loops unrolled once) and count those that avoid every
    `via` node.  Cross-validates the dominator-based verdict; a disagreement is an engine error (no verdict)."""
    if rep.tier != "thorough" or frm is None or to is None:
        return None
    via_ids = {v.id for v in via if v is not None}
    paths = cfg.paths(frm, {to.id}, limit=200000)
    skipping = [pth for pth in paths if not (set(pth) & via_ids)]
    info = rep.info.setdefault("paths_enumerated", {})
    ex = None
    if skipping:
        ex = [getattr(cfg.nodes[i].ast, "lineno", None) for i in skipping[0] if cfg.nodes[i].kind in ("stmt", "test", "loop")]
    info[label] = {"paths": len(paths), "avoiding_checkpoint": len(skipping), "example_lines": ex}
    if dominator_verdict is not None and bool(skipping) == bool(dominator_verdict) and paths:
        raise AnalysisError(f"engine self-check failed ({label}): dominator verdict {dominator_verdict} but {len(skipping)} of {len(paths)} enumerated paths avoid the checkpoint")
    return len(skipping)


def len_bounds(facts, vartext):
    """(lo, hi) bounds on len(<vartext>) implied by dominating branch facts [(test, polarity)]:
    understands len(v) <op> k, k <op> len(v), truthiness `v` / `not v` (hi None = unbounded)."""
    lo, hi = 0, None

    def upd(op, k, pol):
        nonlocal lo, hi
        # normalise to a statement about n = len(v)
        if not pol:
            op = {ast.Eq: ast.NotEq, ast.NotEq: ast.Eq, ast.Lt: ast.GtE, ast.LtE: ast.Gt, ast.Gt: ast.LtE, ast.GtE: ast.Lt}[type(op)]()
        if isinstance(op, ast.Eq):
            lo, hi = max(lo, k), (k if hi is None else min(hi, k))
        elif isinstance(op, ast.Lt):
            hi = k - 1 if hi is None else min(hi, k - 1)
        elif isinstance(op, ast.LtE):
            hi = k if hi is None else min(hi, k)
        elif isinstance(op, ast.Gt):
            lo = max(lo, k + 1)
        elif isinstance(op, ast.GtE):
            lo = max(lo, k)
        elif isinstance(op, ast.NotEq):
            if k == lo:
                lo = k + 1
            if hi is not None and k == hi:
                hi = k - 1

    def is_len(n):
        return isinstance(n, ast.Call) and isinstance(n.func, ast.Name) and n.func.id == "len" and len(n.args) == 1 and norm(n.args[0]) == vartext

    flip = {ast.Lt: ast.Gt, ast.LtE: ast.GtE, ast.Gt: ast.Lt, ast.GtE: ast.LtE, ast.Eq: ast.Eq, ast.NotEq: ast.NotEq}
    # apply twice so that NotEq facts see bounds established by later facts
    for _ in range(2):
        for t, pol in facts:
            if isinstance(t, ast.Compare) and len(t.ops) == 1 and type(t.ops[0]) in flip:
                l, r = t.left, t.comparators[0]
                if is_len(l) and isinstance(r, ast.Constant) and isinstance(r.value, int):
                    upd(t.ops[0], r.value, pol)
                elif is_len(r) and isinstance(l, ast.Constant) and isinstance(l.value, int):
                    upd(flip[type(t.ops[0])](), l.value, pol)
            elif norm(t) == vartext:
                upd(ast.GtE() if pol else ast.Eq(), 1 if pol else 0, True)
    return lo, hi


def with_helpers(p, f, depth=2, same_module_only=True):
    """f plus the project functions it calls (methods of its own class via self.<m>(), module-level functions of
    the same module, nested defs), transitively up to `depth`: lets rules see through extracted helpers."""
    out, seen = [f], {f}
    frontier = [f]
    for _ in range(depth):
        nxt = []
        for g in frontier:
            selfname = g.node.args.args[0].arg if g.cls is not None and g.node.args.args else None
            for n in walk_no_nested(g.node):
                if not isinstance(n, ast.Call):
                    continue
                tgt = None
                if selfname and isinstance(n.func, ast.Attribute) and isinstance(n.func.value, ast.Name) and n.func.value.id == selfname:
                    tgt = p.lookup_method(g.cls, n.func.attr)
                else:
                    r = resolve_callee(p, n, g.module)
                    if r and r[0] == "func":
                        tgt = r[1]
                    elif r and r[0] == "class" and (not same_module_only or r[1].module is f.module) and len(r[1].methods) <= 8:
                        # a small helper class built here (`_SympySystem(equations).solve()`): its methods run on behalf of g
                        for mth in r[1].methods.values():
                            if mth not in seen:
                                seen.add(mth)
                                out.append(mth)
                                nxt.append(mth)
                if tgt is not None and tgt not in seen and (not same_module_only or tgt.module is f.module):
                    seen.add(tgt)
                    out.append(tgt)
                    nxt.append(tgt)
        frontier = nxt
    return out


def nodes_of(funcs):
    for g in funcs:
        yield from walk_no_nested(g.node)


def scatter_combinator_inner(p):
    """the closure returned by adapter/numpy/classical_from_numpy.update_at (whatever it is called)"""
    outer = p.func("update_at", "adapter.numpy.classical_from_numpy")
    inners = [g for g in p.funcs.values() if g.parent is outer]
    rets = [norm(r.value) for r in walk_no_nested(outer.node) if isinstance(r, ast.Return) and r.value is not None]
    inners = [g for g in inners if g.name in rets] or inners
    if len(inners) != 1:
        raise AnalysisError(f"unrecognised idiom: update_at combinator has {len(inners)} candidate closures")
    return outer, inners[0]


def origin_params(f, e, depth=0):
    """parameters of f that the value `e` is (a rebinding of): follows `v = g(v, ...)` rebinding chains and
    position-preserving tuple unpacking `a, b, c = to_tensor(x, y, z)`."""
    if depth > 10 or e is None:
        return set()
    if isinstance(e, ast.Name):
        out = set()
        if e.id in f.params:
            out.add(e.id)
        for n in walk_no_nested(f.node):
            if isinstance(n, ast.Assign):
                for t in n.targets:
                    if isinstance(t, ast.Name) and t.id == e.id:
                        if isinstance(n.value, ast.Call) and n.value.args and not (isinstance(n.value.args[0], ast.Name) and n.value.args[0].id == e.id and e.id not in f.params and False):
                            a0 = n.value.args[0]
                            if isinstance(a0, ast.Name) and a0.id == e.id:
                                continue  # v = g(v, ...): same value lineage
                            out |= origin_params(f, a0, depth + 1)
                        elif isinstance(n.value, ast.Name):
                            out |= origin_params(f, n.value, depth + 1)
                    elif isinstance(t, ast.Tuple) and isinstance(n.value, ast.Call):
                        names = [x.id if isinstance(x, ast.Name) else None for x in t.elts]
                        if e.id in names:
                            i = names.index(e.id)
                            if i < len(n.value.args) and not isinstance(n.value.args[i], ast.Starred):
                                a = n.value.args[i]
                                if isinstance(a, ast.Name) and a.id == e.id:
                                    continue
                                out |= origin_params(f, a, depth + 1)
        return out
    return set()


import copy as _copy


class _SubstNames(ast.NodeTransformer):
    def __init__(self, mapping):
        self.mapping = mapping

    def visit_Name(self, node):
        if isinstance(node.ctx, ast.Load) and node.id in self.mapping:
            return _copy.deepcopy(self.mapping[node.id])
        return node


def expand_local_helper_calls(stmts, localfns, depth=0):
    """Statement list in which every statement `helper(args...)` (helper = a function of `localfns`: name ->
    FunctionDef) is replaced by the helper's body with parameters substituted by the arguments (one or two levels).
    Lets block-structure rules treat `emit_with_side_effect(out, to_code, inputs, alias)` like the written-out code."""
    from sa.core import set_parents

    out = []
    for st in stmts:
        call = st.value if isinstance(st, ast.Expr) and isinstance(st.value, ast.Call) else None
        fn = localfns.get(call.func.id) if call is not None and isinstance(call.func, ast.Name) else None
        if fn is None or depth > 1:
            out.append(st)
            continue
        params = [a.arg for a in fn.args.args]
        mapping = {}
        for i, a in enumerate(call.args):
            if i < len(params) and not isinstance(a, ast.Starred):
                mapping[params[i]] = a
        for k in call.keywords:
            if k.arg in params:
                mapping[k.arg] = k.value
        body = []
        for b in fn.body:
            if isinstance(b, ast.Expr) and isinstance(b.value, ast.Constant):
                continue
            nb = _SubstNames(mapping).visit(_copy.deepcopy(b))
            ast.copy_location(nb, st)
            for x in ast.walk(nb):
                if not hasattr(x, "lineno"):
                    x.lineno = st.lineno
                    x.col_offset = 0
            set_parents(nb)
            nb._parent = getattr(st, "_parent", None)
            body.append(nb)
        out += expand_local_helper_calls(body, localfns, depth + 1)
    return out


def names_feeding(stmts, expr):
    """names occurring in `expr`; if expr is a local name, the names occurring in everything assigned /
    appended / extended to it within stmts"""
    if not isinstance(expr, ast.Name):
        return {x.id for x in ast.walk(expr) if isinstance(x, ast.Name)} if expr is not None else set()
    out = set()
    found = False
    for st in stmts:
        for n in ast.walk(st):
            if isinstance(n, ast.Assign) and any(isinstance(t, ast.Name) and t.id == expr.id for t in n.targets):
                found = True
                out |= {x.id for x in ast.walk(n.value) if isinstance(x, ast.Name)}
            elif isinstance(n, ast.AugAssign) and isinstance(n.target, ast.Name) and n.target.id == expr.id:
                out |= {x.id for x in ast.walk(n.value) if isinstance(x, ast.Name)}
            elif isinstance(n, ast.Call) and isinstance(n.func, ast.Attribute) and n.func.attr in ("append", "extend") and norm(n.func.value) == expr.id:
                for a in n.args:
                    out |= {x.id for x in ast.walk(a) if isinstance(x, ast.Name)}
    return out if found else {expr.id}


# --------------------------------------------------------------------------------------
# guard-after-use (Engler-style contradiction): `v = S[i]...` is evaluated unconditionally, and a later test
# `len(S) <cmp> k or f(v)` / `not S or f(v)` short-circuits on S before it looks at v.  The short-circuit says "v is
# only meaningful when S is long enough", but the subscript that produced v already ran.
def _len_test_subject(t):
    """`len(S) <op> k`, `not S`, `S` (emptiness) -> name of S"""
    if isinstance(t, ast.UnaryOp) and isinstance(t.op, ast.Not):
        t = t.operand
        if isinstance(t, ast.Name):
            return t.id
    if isinstance(t, ast.Compare) and len(t.ops) == 1:
        for side in (t.left, t.comparators[0]):
            if isinstance(side, ast.Call) and isinstance(side.func, ast.Name) and side.func.id == "len" and side.args and isinstance(side.args[0], ast.Name):
                return side.args[0].id
    return None


def guard_after_use(fnode):
    """-> (number of short-circuit tests inspected, [(If/While test node, S, v, defining Assign)])"""
    from sa.cfg import CFG, ReachingDefs

    tests = [n for n in walk_no_nested(fnode) if isinstance(n, ast.BoolOp) and len(n.values) >= 2 and _len_test_subject(n.values[0]) is not None]
    if not tests:
        return 0, []
    cfg = CFG(fnode)
    rd = ReachingDefs(cfg)
    byid = {x.id: x for x in cfg.nodes}
    out = []
    for b in tests:
        S = _len_test_subject(b.values[0])
        node = cfg.node_for(b)
        if node is None:
            continue
        later = {x.id for v in b.values[1:] for x in ast.walk(v) if isinstance(x, ast.Name)}
        for v in sorted(later):
            defs = rd.defs_reaching(node, v)
            if len(defs) != 1:
                continue
            d = byid[defs[0]]
            st = d.ast
            if not isinstance(st, ast.Assign) or d.kind != "stmt":
                continue
            subs = [x for x in ast.walk(st.value) if isinstance(x, ast.Subscript) and isinstance(x.value, (ast.Name, ast.Subscript)) and chain_root_name(x) == S]
            extra_depth = 0
            if not subs:
                # one hop through an element bound to a local first: `group = S[-1]` / `group = S.pop()`; `opener = group[0]`
                for x in ast.walk(st.value):
                    if isinstance(x, ast.Subscript) and isinstance(x.value, (ast.Name, ast.Subscript)):
                        R = chain_root_name(x)
                        rdefs = rd.defs_reaching(d, R) if R else []
                        if len(rdefs) == 1 and isinstance(byid[rdefs[0]].ast, ast.Assign) and byid[rdefs[0]].kind == "stmt":
                            v2 = byid[rdefs[0]].ast.value
                            elem_of_S = (isinstance(v2, ast.Subscript) and chain_root_name(v2) == S) or (isinstance(v2, ast.Call) and isinstance(v2.func, ast.Attribute) and v2.func.attr == "pop" and isinstance(v2.func.value, ast.Name) and v2.func.value.id == S)
                            if elem_of_S and not any(t is not None and S in {y.id for y in ast.walk(t) if isinstance(y, ast.Name)} for t, pol in cfg.guards(byid[rdefs[0]])):
                                subs.append(x)
                                extra_depth = 1
            if not subs:
                continue
            # the subscript can actually fail: the function itself creates `S` (depth 1) / an element of `S`
            # (depth 2) as an empty list, so "long enough" is not guaranteed by construction
            depth = extra_depth
            x = subs[0]
            while isinstance(x, ast.Subscript):
                depth += 1
                x = x.value
            if not _may_be_empty(fnode, S, min(depth, 2)):
                continue
            # the subscript ran unconditionally w.r.t. S: no dominating fact of the definition mentions S
            if any(t is not None and S in {y.id for y in ast.walk(t) if isinstance(y, ast.Name)} for t, pol in cfg.guards(d)):
                continue
            # same S at both places
            if rd.defs_reaching(d, S) != rd.defs_reaching(node, S) and not extra_depth:
                continue
            out.append((b, S, v, st))
    return len(tests), out


def chain_root_name(x):
    while isinstance(x, (ast.Subscript, ast.Attribute)):
        x = x.value
    return x.id if isinstance(x, ast.Name) else None


def _is_empty_list(e):
    return (isinstance(e, (ast.List, ast.Tuple)) and not e.elts) or (isinstance(e, ast.Call) and isinstance(e.func, ast.Name) and e.func.id == "list" and not e.args)


def _may_be_empty(fnode, S, depth):
    for n in walk_no_nested(fnode):
        if isinstance(n, ast.Assign) and any(isinstance(t, ast.Name) and t.id == S for t in n.targets):
            if depth == 1 and _is_empty_list(n.value):
                return True
            if depth == 2 and isinstance(n.value, ast.List) and any(_is_empty_list(e) for e in n.value.elts):
                return True
        if depth == 2 and isinstance(n, ast.Call) and isinstance(n.func, ast.Attribute) and n.func.attr in ("append", "insert") and isinstance(n.func.value, ast.Name) and n.func.value.id == S and n.args and _is_empty_list(n.args[-1]):
            return True
    return False


# --------------------------------------------------------------------------------------
# statement-level inlining of small lexical helpers (so that path rules see `a, b = helper(a, b)` as the helper's
# own statements)
def project_resolver(p, module, prefix=None):
    """for inline_lexical_helpers: a call that is not lexically a local def but resolves (imports followed) to a
    module-level function of the project (optionally only below the package `prefix`) -> its FunctionDef"""

    def resolve(call):
        r = resolve_callee(p, call, module)
        if r and r[0] == "func" and r[1].cls is None and r[1].parent is None and isinstance(r[1].node, ast.FunctionDef) and (prefix is None or r[1].module.name.startswith(prefix)):
            r[1].node._defining_module = r[1].module
            return r[1].node
        return None

    return resolve


def _mark_home(nodes, h, args=()):
    """statements copied out of helper `h` that lives in another module: names in them are looked up in that module
    (the argument expressions substituted into them stay with the caller)"""
    home = getattr(h, "_defining_module", None)
    if home is None:
        return
    keep = {id(x) for a in args for x in ast.walk(a)}
    for nb in nodes:
        for x in ast.walk(nb):
            if id(x) not in keep and not hasattr(x, "_home_module"):
                x._home_module = home


def inline_lexical_helpers(fnode, depth=2, resolver=None, skip=None):
    """A structural copy of function `fnode` in which statements of the forms `helper(args)`, `x = helper(args)` and
    `x, y = helper(args)` - helper being a function defined lexically around the statement (enclosing function or
    module) whose body is straight-line code ending in at most one `return` - are replaced by the helper's statements
    with parameters substituted and helper locals renamed.  The copy keeps line numbers of the call statement."""
    from sa.cfg import _clone, _lookup_def, _set_parents

    counter = [0]

    def straight(h):
        body = [st for st in h.body if not (isinstance(st, ast.Expr) and isinstance(st.value, ast.Constant))]
        if not body:
            return None
        for st in body[:-1]:
            if not isinstance(st, (ast.Assign, ast.AugAssign, ast.Expr, ast.For, ast.If, ast.Assert, ast.Pass)) or any(isinstance(x, (ast.Return, ast.Yield, ast.YieldFrom)) for x in ast.walk(st)):
                return None
        last = body[-1]
        if isinstance(last, ast.Return):
            return body[:-1], last.value
        if any(isinstance(x, (ast.Return, ast.Yield, ast.YieldFrom)) for x in ast.walk(last)):
            return None
        return body, None

    def expand_block(stmts, d):
        out = []
        for st in stmts:
            call = None
            if isinstance(st, ast.Expr) and isinstance(st.value, ast.Call):
                call = st.value
            elif isinstance(st, ast.Assign) and isinstance(st.value, ast.Call):
                call = st.value
            # a tail call `return helper(args)`: the whole body of the helper (whatever its control flow) takes the place of
            # the return statement - its returns are the returns of this function
            if isinstance(st, ast.Return) and isinstance(st.value, ast.Call) and d > 0:
                tc = st.value
                th = _lookup_def(tc) or (resolver(tc) if resolver is not None else None)
                if th is not None and skip is not None and skip(th):
                    th = None
                if th is not None and th is not fnode and not th.decorator_list and not th.args.vararg and not th.args.kwarg and not any(isinstance(a, ast.Starred) for a in tc.args) and not any(k.arg is None for k in tc.keywords) and not any(isinstance(x, (ast.Yield, ast.YieldFrom, ast.Global, ast.Nonlocal)) for x in ast.walk(th)):
                    tparams = [a.arg for a in th.args.posonlyargs + th.args.args + th.args.kwonlyargs]
                    tmap = {}
                    for i, a in enumerate(tc.args):
                        if i < len(tparams):
                            tmap[tparams[i]] = a
                    for k in tc.keywords:
                        tmap[k.arg] = k.value
                    pos = [a.arg for a in th.args.posonlyargs + th.args.args]
                    for prm, dflt in zip(pos[len(pos) - len(th.args.defaults) :], th.args.defaults):
                        tmap.setdefault(prm, dflt)
                    for prm, dflt in zip([a.arg for a in th.args.kwonlyargs], th.args.kw_defaults):
                        if dflt is not None:
                            tmap.setdefault(prm, dflt)
                    tbody = [b for b in th.body if not (isinstance(b, ast.Expr) and isinstance(b.value, ast.Constant))]
                    if not (set(tparams) - set(tmap)) and tbody:
                        counter[0] += 1
                        tstored = {x.id for b in tbody for x in ast.walk(b) if isinstance(x, ast.Name) and isinstance(x.ctx, ast.Store)}
                        tren = {nm: f"{nm}__h{counter[0]}" for nm in tstored}
                        tpre = [ast.Assign(targets=[ast.Name(id=tren[nm], ctx=ast.Store())], value=_clone(tmap[nm])) for nm in sorted(tstored & set(tparams))]

                        class TS(ast.NodeTransformer):
                            def visit_Name(self, n):
                                if n.id in tren:
                                    return ast.copy_location(ast.Name(id=tren[n.id], ctx=n.ctx), n)
                                if isinstance(n.ctx, ast.Load) and n.id in tmap:
                                    return ast.copy_location(_clone(tmap[n.id]), n)
                                return n

                            def visit_ExceptHandler(self, n):
                                self.generic_visit(n)
                                return n

                        tcl = [_clone(b) for b in tbody]
                        _mark_home(tcl, th)
                        tnew = tpre + [TS().visit(b) for b in tcl]
                        if not isinstance(tnew[-1], (ast.Return, ast.Raise)) :
                            tnew.append(ast.Return(value=None))
                        for nb in tnew:
                            for x in ast.walk(nb):
                                if not hasattr(x, "lineno") or isinstance(x, (ast.stmt, ast.expr)):
                                    x.lineno = getattr(x, "lineno", None) or getattr(st, "lineno", 1)
                                    x.col_offset = getattr(x, "col_offset", 0)
                                    x.end_lineno = getattr(x, "end_lineno", None) or x.lineno
                                    x.end_col_offset = getattr(x, "end_col_offset", 0)
                        tmp = ast.Module(body=tnew, type_ignores=[])
                        _set_parents(tmp)
                        for nb in tnew:
                            nb._parent = getattr(st, "_parent", None)
                        out += expand_block(tnew, d - 1)
                        continue
            h = (_lookup_def(call) or (resolver(call) if resolver is not None else None)) if call is not None and d > 0 else None
            if h is not None and skip is not None and skip(h):
                h = None
            sb = straight(h) if h is not None and h is not fnode and not h.decorator_list and not h.args.vararg and not h.args.kwarg else None
            if sb is None or any(isinstance(a, ast.Starred) for a in call.args) or any(k.arg is None for k in call.keywords):
                # recurse into compound statements
                for fld in ("body", "orelse", "finalbody"):
                    sub = getattr(st, fld, None)
                    if isinstance(sub, list) and sub and isinstance(sub[0], ast.stmt):
                        setattr(st, fld, expand_block(sub, d))
                for hd in getattr(st, "handlers", []) or []:
                    hd.body = expand_block(hd.body, d)
                out.append(st)
                continue
            body, retval = sb
            params = [a.arg for a in h.args.posonlyargs + h.args.args]
            mapping = {}
            for i, a in enumerate(call.args):
                if i < len(params):
                    mapping[params[i]] = a
            for k in call.keywords:
                mapping[k.arg] = k.value
            for prm, dflt in zip(params[len(params) - len(h.args.defaults):], h.args.defaults):
                mapping.setdefault(prm, dflt)
            if set(params) - set(mapping):
                out.append(st)
                continue
            counter[0] += 1
            stored = {x.id for b in body for x in ast.walk(b) if isinstance(x, ast.Name) and isinstance(x.ctx, ast.Store)} - set(params)
            # a parameter that the helper re-binds becomes a fresh local initialised with the argument
            rebound = {x.id for b in body for x in ast.walk(b) if isinstance(x, ast.Name) and isinstance(x.ctx, ast.Store)} & set(params)
            ren = {nm: f"{nm}__h{counter[0]}" for nm in stored | rebound}
            pre = []
            for nm in sorted(rebound):
                a_ = ast.Assign(targets=[ast.Name(id=ren[nm], ctx=ast.Store())], value=_clone(mapping[nm]))
                pre.append(a_)

            class S(ast.NodeTransformer):
                def visit_Name(self, n):
                    if n.id in ren:
                        return ast.copy_location(ast.Name(id=ren[n.id], ctx=n.ctx), n)
                    if isinstance(n.ctx, ast.Load) and n.id in mapping:
                        return ast.copy_location(_clone(mapping[n.id]), n)
                    return n

            bcl = [_clone(b) for b in body]
            rcl = _clone(retval) if retval is not None else None
            _mark_home(bcl + ([rcl] if rcl is not None else []), h)
            new = pre + [S().visit(b) for b in bcl]
            if isinstance(st, ast.Assign):
                rv = S().visit(rcl) if rcl is not None else ast.Constant(value=None)
                new.append(ast.Assign(targets=[_clone(t) for t in st.targets], value=rv))
            for nb in new:
                for x in ast.walk(nb):
                    x.lineno = getattr(st, "lineno", 1)
                    x.col_offset = getattr(st, "col_offset", 0)
                    x.end_lineno = getattr(st, "end_lineno", x.lineno)
                    x.end_col_offset = getattr(st, "end_col_offset", 0)
            tmp = ast.Module(body=new, type_ignores=[])
            _set_parents(tmp)
            for nb in new:
                nb._parent = getattr(st, "_parent", None)
            out += expand_block(new, d - 1)
        return out

    new_f = _clone(fnode)
    _set_parents(new_f)
    new_f._parent = getattr(fnode, "_parent", None)
    new_f.body = expand_block(new_f.body, depth)
    _set_parents(new_f)
    new_f._parent = getattr(fnode, "_parent", None)
    return new_f


# --------------------------------------------------------------------------------------
# late-binding closures (flake8-bugbear B023, disabled in the project's ruff.toml): a lambda / def created in a loop
# that reads a variable the loop re-binds and that outlives the iteration sees the value of the LAST iteration
STORING_CALLS = {"setattr", "append", "add", "insert", "extend", "update", "setdefault", "register", "register_on_import", "partial"}


def late_binding_closures(fnode):
    """-> (closures in loops inspected, [(closure node, sorted captured loop names, how it escapes)])"""
    n, out = 0, []
    for loop in [x for x in walk_no_nested(fnode) if isinstance(x, (ast.For, ast.While))]:
        assigned = {y.id for y in ast.walk(loop.target) if isinstance(y, ast.Name)} if isinstance(loop, ast.For) else set()
        for st in ast.walk(loop):
            if isinstance(st, (ast.Assign, ast.AugAssign)):
                for t in (st.targets if isinstance(st, ast.Assign) else [st.target]):
                    for y in ast.walk(t):
                        if isinstance(y, ast.Name):
                            assigned.add(y.id)
        for fn in ast.walk(loop):
            if fn is loop or not isinstance(fn, (ast.Lambda, ast.FunctionDef)):
                continue
            a = fn.args
            params = {q.arg for q in a.args + a.kwonlyargs + a.posonlyargs} | ({a.vararg.arg} if a.vararg else set()) | ({a.kwarg.arg} if a.kwarg else set())
            body = fn.body if isinstance(fn, ast.Lambda) else fn
            nodes = list(ast.walk(body)) if isinstance(fn, ast.Lambda) else [y for st in fn.body for y in ast.walk(st)]
            local = {y.id for y in nodes if isinstance(y, ast.Name) and isinstance(y.ctx, ast.Store)}
            free = {y.id for y in nodes if isinstance(y, ast.Name) and isinstance(y.ctx, ast.Load)} - params - local
            # defaults bind at definition time (`lambda x, i=i: ...`): those names are parameters already
            hit = free & assigned
            if not hit:
                continue
            n += 1
            escape = None
            if isinstance(fn, ast.FunctionDef):
                # a def in a loop escapes if its name is stored / returned / handed to a storing call
                uses = [y for y in ast.walk(loop) if isinstance(y, ast.Name) and y.id == fn.name and isinstance(y.ctx, ast.Load)]
                cands = uses
            else:
                cands = [fn]
            for c in cands:
                q, child = getattr(c, "_parent", None), c
                while q is not None and q is not loop:
                    if isinstance(q, ast.Call) and child is not q.func:
                        nm = norm(q.func).split(".")[-1]
                        if nm in STORING_CALLS:
                            escape = f"handed to {nm}(...)"
                            break
                    if isinstance(q, ast.Assign) and any(isinstance(t, (ast.Attribute, ast.Subscript)) for t in q.targets):
                        escape = f"stored by `{norm(q.targets[0])} = ...`"
                        break
                    if isinstance(q, (ast.Return, ast.Yield, ast.YieldFrom)):
                        escape = "returned / yielded from inside the loop"
                        break
                    if isinstance(q, (ast.Dict, ast.List, ast.Tuple, ast.Set)) and isinstance(getattr(q, "_parent", None), ast.Assign):
                        pass
                    if isinstance(q, ast.stmt):
                        break
                    child, q = q, getattr(q, "_parent", None)
                if escape:
                    break
            if escape:
                out.append((fn, sorted(hit), escape))
    return n, out


# --------------------------------------------------------------------------------------
# one mutable object created before a loop, changed inside it and handed to something that is stored per iteration:
# all stored results share (and see the later changes of) that one object
LOOP_MUTATORS = {"append", "extend", "add", "update", "setdefault", "pop", "remove", "insert", "clear", "discard", "popitem", "sort"}


def loop_shared_mutables(fnode):
    """-> [(store statement, shared name)]"""
    out = []
    for loop in [x for x in walk_no_nested(fnode) if isinstance(x, ast.For)]:
        rebound = {t.id for st in ast.walk(loop) if isinstance(st, ast.Assign) for t in st.targets if isinstance(t, ast.Name)}
        rebound |= {y.id for y in ast.walk(loop.target) if isinstance(y, ast.Name)}
        mutated = set()
        for c in ast.walk(loop):
            if isinstance(c, ast.Call) and isinstance(c.func, ast.Attribute) and c.func.attr in LOOP_MUTATORS and isinstance(c.func.value, ast.Name):
                mutated.add(c.func.value.id)
            if isinstance(c, ast.Assign):
                for t in c.targets:
                    if isinstance(t, ast.Subscript) and isinstance(t.value, ast.Name):
                        mutated.add(t.value.id)
        cands = mutated - rebound
        for st in ast.walk(loop):
            if isinstance(st, ast.Assign) and any(isinstance(t, (ast.Subscript, ast.Attribute)) for t in st.targets) and isinstance(st.value, ast.Call):
                into = {norm(t.value) for t in st.targets if isinstance(t, (ast.Subscript, ast.Attribute))}
                for a in list(st.value.args) + [k.value for k in st.value.keywords]:
                    if isinstance(a, ast.Name) and a.id in cands and a.id not in into:
                        out.append((st, a.id))
    return out


def _unwrap_seq(e):
    while isinstance(e, ast.Call) and isinstance(e.func, ast.Name) and e.func.id in ("tuple", "list") and len(e.args) == 1 and not e.keywords:
        e = e.args[0]
    return e


def selection_identity_tests(p, modules, expand=None):
    """`[A[i] for i in P] == A` ("A permuted by P is A again") used where `P is the identity` is meant: the test also
    holds for every P that only exchanges equal elements of A (a transposition of two axes of the same length).
    Looks at equality tests directly and through one-expression helpers (`_same_shape(x, [x.shape[i] for i in perm])`).
    -> (equality tests inspected, [(node, module, text of A, text of P)])"""
    n, hits = 0, []
    for f in modules:
        for node in ast.walk(f.tree):
            cmp_ = None
            if isinstance(node, ast.Compare) and len(node.ops) == 1 and isinstance(node.ops[0], (ast.Eq, ast.NotEq)):
                cmp_ = node
            elif isinstance(node, ast.Call):
                e = expand(f, node) if expand is not None else expand_pure_call(p, f, node)
                if isinstance(e, ast.Compare) and len(e.ops) == 1 and isinstance(e.ops[0], (ast.Eq, ast.NotEq)):
                    cmp_ = e
            if cmp_ is None:
                continue
            n += 1
            a, b = _unwrap_seq(cmp_.left), _unwrap_seq(cmp_.comparators[0])
            for sel, whole in ((a, b), (b, a)):
                if isinstance(sel, (ast.ListComp, ast.GeneratorExp)) and len(sel.generators) == 1 and not sel.generators[0].ifs and isinstance(sel.generators[0].target, ast.Name) and isinstance(sel.elt, ast.Subscript) and isinstance(sel.elt.slice, ast.Name) and sel.elt.slice.id == sel.generators[0].target.id:
                    if norm(_unwrap_seq(sel.elt.value)) == norm(whole):
                        hits.append((node, f, norm(whole), norm(sel.generators[0].iter)))
    return n, hits


def take_one_sites(fnode):
    """places where ONE element is taken out of a collection named by a plain variable - which element that is depends on
    the collection's order when it has several: `S.pop()`, `next(iter(S)[, d])`, `list(S)[0]` / `sorted(S)[-1]`,
    `(x,) = S` / `[x] = S`.  -> [(node, Name of S, form)]"""
    out = []
    for node in walk_no_nested(fnode):
        sel, form = None, None
        if isinstance(node, ast.Call) and isinstance(node.func, ast.Name) and node.func.id == "next" and node.args and isinstance(node.args[0], ast.Call) and isinstance(node.args[0].func, ast.Name) and node.args[0].func.id == "iter" and node.args[0].args:
            sel, form = node.args[0].args[0], "next(iter())"
        elif isinstance(node, ast.Call) and isinstance(node.func, ast.Attribute) and node.func.attr == "pop" and not node.args and not node.keywords:
            sel, form = node.func.value, "pop()"
        elif isinstance(node, ast.Subscript) and isinstance(node.ctx, ast.Load) and isinstance(node.slice, ast.Constant) and node.slice.value in (0, -1) and isinstance(node.value, ast.Call) and isinstance(node.value.func, ast.Name) and node.value.func.id in ("list", "tuple", "sorted") and node.value.args:
            sel, form = node.value.args[0], "list()[0]"
        elif isinstance(node, ast.Assign) and len(node.targets) == 1 and isinstance(node.targets[0], (ast.Tuple, ast.List)) and len(node.targets[0].elts) == 1 and isinstance(node.value, ast.Name):
            sel, form = node.value, "(x,) = S"
        # the values of a dict: `(x,) = D.values()`, `next(iter(D.values()))`
        if isinstance(sel, ast.Call) and isinstance(sel.func, ast.Attribute) and sel.func.attr == "values" and not sel.args and isinstance(sel.func.value, ast.Name):
            sel, form = sel.func.value, form + " over .values()"
        elif isinstance(node, ast.Assign) and len(node.targets) == 1 and isinstance(node.targets[0], (ast.Tuple, ast.List)) and len(node.targets[0].elts) == 1 and isinstance(node.value, ast.Call) and isinstance(node.value.func, ast.Attribute) and node.value.func.attr == "values" and not node.value.args and isinstance(node.value.func.value, ast.Name):
            sel, form = node.value.func.value, "(x,) = D.values()"
        if isinstance(sel, ast.Name):
            out.append((node, sel, form))
    return out


def expand_pure_calls(p, module, expr, depth=2):
    """a detached copy of `expr` in which calls of one-expression project functions are written out (see
    expand_pure_call), `depth` levels deep: for rules that read what an expression is made of"""
    from sa.canon import _copy

    class X(ast.NodeTransformer):
        def __init__(self, d):
            self.d = d

        def visit_Call(self, c):
            self.generic_visit(c)
            if self.d <= 0:
                return c
            e = expand_pure_call(p, module, c)
            if e is None:
                return c
            r = resolve_callee(p, c, module)
            return X(self.d - 1).visit(e) if r else e

    return X(depth).visit(_copy(expr))


def inlined_view(p, f, prefix=None, depth=2, keep_loops=False):
    """f as it runs: straight-line helpers it calls (local ones, and module-level functions of the project below package
    `prefix`) are written out in place.  A registered Func copy; cached per project."""
    from sa.core import Func

    cache = p.__dict__.setdefault("_inlined_views", {})
    key = (f.qualname, prefix, depth, keep_loops)
    if key not in cache:
        # keep_loops: helpers that loop (a fold of assert_ over a list of checks) stay calls - rules know them as such
        skip = (lambda h: any(isinstance(x, (ast.For, ast.While)) for x in ast.walk(h))) if keep_loops else None
        node = inline_lexical_helpers(f.node, depth=depth, resolver=project_resolver(p, f.module, prefix), skip=skip)
        g = Func(qualname=f.qualname, module=f.module, node=node, cls=f.cls, parent=f.parent)
        p.func_of_node[id(node)] = g
        cache[key] = g
    return cache[key]


def slice_field_reads(fnode):
    """a slice object taken apart: variables of which `.start` and `.stop` are read in one function.  A slice has three
    components; code that handles two of them silently treats `x[::k]` like `x[:]`.
    -> [(variable text, fields read, first node)]"""
    by = {}
    for n in walk_with_lambdas(fnode):
        if isinstance(n, ast.Attribute) and isinstance(n.ctx, ast.Load) and n.attr in ("start", "stop", "step") and isinstance(n.value, ast.Name):
            by.setdefault(n.value.id, {}).setdefault(n.attr, n)
    return [(v, set(fs), min(fs.values(), key=lambda x: x.lineno)) for v, fs in by.items() if {"start", "stop"} <= set(fs)]


FRESH_VALUE_CALLS = ("uuid.uuid1", "uuid.uuid4", "uuid4", "uuid1", "random.random", "random.randint", "random.getrandbits", "time.time", "time.monotonic", "time.perf_counter", "itertools.count", "count", "next", "id", "object")


def calls_in_defaults(fnode):
    """default values are evaluated ONCE, when the `def` runs: a default that is meant to be a fresh value per call (a new
    uuid, a counter tick, a new mutable container that the function then fills) is one value shared by all calls.
    -> (defaults inspected, [(parameter, default node, why)])"""
    a = fnode.args
    pairs = list(zip((a.posonlyargs + a.args)[len(a.posonlyargs + a.args) - len(a.defaults):], a.defaults)) + [(q, d) for q, d in zip(a.kwonlyargs, a.kw_defaults) if d is not None]
    hits = []
    for q, d in pairs:
        for c in ast.walk(d):
            if isinstance(c, ast.Lambda):
                break
            if isinstance(c, ast.Call) and norm(c.func) in FRESH_VALUE_CALLS:
                hits.append((q.arg, d, f"`{norm(c)}` is called once, at definition time"))
                break
    return len(pairs), hits


def cursor_advances(fnode):
    """A cursor into a parallel list: `k = 0` in front of a loop, `L[k]` / `L[k + i]` read in the arms of an if/elif
    chain of the loop body, `k += n` at the end of an arm.  Every arm that consumes entries at the cursor has to advance
    it; an arm that reads `L[k ..]` and leaves k where it was makes every later iteration read the entries of an earlier
    one.  -> (cursors inspected, [(cursor name, loop, arm statements that read but do not advance)])"""
    n, hits = 0, []
    for loop in [x for x in walk_no_nested(fnode) if isinstance(x, (ast.For, ast.While))]:
        augs = {}
        for a in ast.walk(loop):
            if isinstance(a, ast.AugAssign) and isinstance(a.op, ast.Add) and isinstance(a.target, ast.Name):
                augs.setdefault(a.target.id, []).append(a)
        for k, incs in augs.items():
            # initialised once before the loop, never re-assigned inside it
            if any(isinstance(a, ast.Assign) and any(isinstance(t, ast.Name) and t.id == k for t in a.targets) for a in ast.walk(loop)):
                continue
            if isinstance(loop, ast.For) and any(isinstance(t, ast.Name) and t.id == k for t in ast.walk(loop.target)):
                continue

            def leaves(stmts):
                """leaf arms of the if/elif nest at the end of a block (an arm = its statement list)"""
                out = []
                ifs = [st for st in stmts if isinstance(st, ast.If)]
                if not ifs:
                    return [stmts]
                plain = [st for st in stmts if not isinstance(st, ast.If)]
                for iff in ifs:
                    out += [plain + arm for arm in leaves(iff.body)]
                    if iff.orelse:
                        out += [plain + arm for arm in leaves(iff.orelse)]
                return out

            def reads_at_cursor(arm):
                for st in arm:
                    for x in ast.walk(st):
                        if isinstance(x, ast.Subscript) and isinstance(x.ctx, ast.Load) and any(isinstance(y, ast.Name) and y.id == k for y in ast.walk(x.slice)):
                            return True
                return False

            def advances(arm):
                return any(isinstance(x, ast.AugAssign) and isinstance(x.target, ast.Name) and x.target.id == k for st in arm for x in ast.walk(st))

            arms = [a for a in leaves(loop.body) if reads_at_cursor(a) and not block_always_raises(a)]
            if len(arms) < 2 or sum(1 for a in arms if advances(a)) < 1:
                continue
            n += 1
            bad = [a for a in arms if not advances(a)]
            if bad:
                hits.append((k, loop, bad))
    return n, hits
