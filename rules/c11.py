"""C11 - backend selection follows the documented precedence and is stable.

Decided clauses:
 R1 precedence is the order of the guards in the lookup (object > name > innermost `with` > tensor types)
 R2 a failing backend hurts only when selected (factory isolated, InvalidBackend never matches tensors,
    import failure is raised right after selection and before any use)
 R3 names and priorities across the 7 factory modules (unique names, naming scheme, default > specialised,
    numpy defers to every framework but not to arrayapi)
 R4 error classes of the lookup (unknown name -> ValueError, 0 or >1 candidates -> BackendResolutionError)
 R5 memo discipline (cache only unique answers; priority filter by max/==; candidates = union over all tensors;
    scalars alone -> numpy)
 R6 late imports are detected by membership in the seen-set, never by counting
"""

from __future__ import annotations

import ast

from sa.cfg import CFG
from sa.core import AnalysisError, attr_chain, enclosing, norm, parents, resolve_callee, walk_no_nested

from . import backends, c03, common


def _facts(cfg, node):
    return [(norm(t), pol) for t, pol in cfg.guards(node)]


def r1(p, rep):
    rep.rule("C11.R1", "precedence is the order of the guards", "T-DOM (path conditions)", floor=4)
    f = p.func("BackendRegistryState._get", "frontend.backend")
    cfg = CFG(f.node)
    bparam = f.params[1]

    def is_obj(t):
        return t.startswith(f"isinstance({bparam},") and "Backend" in t and "str" not in t.split(",", 1)[1]

    def is_name(t):
        return t.startswith(f"isinstance({bparam},") and t.split(",", 1)[1].strip().startswith("str")

    def is_stack(t):
        return "use_stack" in t and ("len(" in t or t.endswith("use_stack"))

    found = set()
    for n in walk_no_nested(f.node):
        if isinstance(n, ast.Return) and n.value is not None:
            v = norm(n.value)
            facts = _facts(cfg, cfg.node_for(n))
            site = f"{f.module.rel}:{n.lineno}"
            if v == bparam:
                found.add("object")
                ok = any(is_obj(t) and pol for t, pol in facts) and not any(is_stack(t) and pol for t, pol in facts)
                rep.add("C11.R1", f"{f.qualname}:return-object", site, ok, "a backend object is returned as given, before the use_stack is consulted" if ok else f"guards {facts}")
            elif "_get_by_name(" in v:
                found.add("name")
                ok = any(is_name(t) and pol for t, pol in facts) and not any(is_stack(t) and pol for t, pol in facts)
                rep.add("C11.R1", f"{f.qualname}:return-name", site, ok, "a backend name is looked up before the use_stack is consulted" if ok else f"a name is resolved under guards {facts}")
            elif "use_stack[-1]" in v:
                found.add("stack")
                ok = any(is_obj(t) and not pol for t, pol in facts) and any(is_name(t) and not pol for t, pol in facts) and any(is_stack(t) and pol for t, pol in facts)
                rep.add("C11.R1", f"{f.qualname}:return-with-backend", site, ok, "the innermost `with backend:` is used only when neither an object nor a name was given" if ok else f"the `with` backend is returned under {facts}: an explicit backend= argument can be overridden by an enclosing with-block")
        if isinstance(n, ast.Call) and norm(n.func).endswith("_get_by_tensors"):
            found.add("tensors")
            facts = _facts(cfg, cfg.node_for(n))
            ok = any(is_obj(t) and not pol for t, pol in facts) and any(is_name(t) and not pol for t, pol in facts) and any(is_stack(t) and not pol for t, pol in facts) and any(t == f"{bparam} is not None" and not pol for t, pol in facts)
            rep.add("C11.R1", f"{f.qualname}:by-tensors", f"{f.module.rel}:{n.lineno}", ok, "tensor types decide only when no object, no name and no active with-block exist" if ok else f"tensor-type resolution runs under {facts}")
    missing = {"object", "name", "stack", "tensors"} - found
    if missing:
        raise AnalysisError(f"unrecognised idiom: _get lacks the {sorted(missing)} arm(s)")


def _registered_later(call):
    """`b = pending.create()` ... `self._register(b)` in the same block"""
    st = next((x for x in parents(call) if isinstance(x, ast.stmt)), None)
    if not (isinstance(st, ast.Assign) and len(st.targets) == 1 and isinstance(st.targets[0], ast.Name)):
        return False
    nm = st.targets[0].id
    fn = next((x for x in parents(call) if isinstance(x, (ast.FunctionDef, ast.AsyncFunctionDef))), None)
    return fn is not None and any(isinstance(c, ast.Call) and norm(c.func).endswith("._register") and any(isinstance(a, ast.Name) and a.id == nm for a in c.args) for c in ast.walk(fn))


def r2(p, rep):
    rep.rule("C11.R2", "a failing backend hurts only when it is selected", "T-DOM", floor=5)
    # where a registered factory is run (by role, wherever that code lives): a `try` whose handler catches every
    # Exception and builds an InvalidBackend; its body holds the factory call
    bm = p.module("frontend.backend")
    rm = p.cls("BackendRegistryState", "frontend.backend").module  # the registry classes may live in a module of their own
    sites = []
    for f in p.funcs.values():
        if not (f.module is bm or f.module is rm) or not isinstance(f.node, (ast.FunctionDef, ast.AsyncFunctionDef)):
            continue
        for t in walk_no_nested(f.node):
            if isinstance(t, ast.Try):
                for h in t.handlers:
                    catches = h.type is None or (isinstance(h.type, ast.Name) and h.type.id in ("Exception", "BaseException"))
                    builds = any(isinstance(x, ast.Call) and norm(x.func).endswith("InvalidBackend") for st in h.body for x in ast.walk(st))
                    if catches and builds:
                        sites.append((f, t, h))
    if not sites:
        raise AnalysisError("unrecognised idiom: no `try: <factory>() except Exception: InvalidBackend(...)` in frontend/backend.py")
    for f, t, h in sites:
        calls = [c for st in t.body for c in ast.walk(st) if isinstance(c, ast.Call)]
        ok = bool(calls) and not common.block_always_raises(h.body)
        rep.add("C11.R2", f"{f.qualname}:factory-isolated", f"{f.module.rel}:{t.lineno}", ok, "a failing factory is caught and replaced by an InvalidBackend" if ok else "the handler re-raises: one failing factory makes every lookup fail")
        cfg = CFG(f.node)
        regs = [n for n in walk_no_nested(f.node) if isinstance(n, ast.Call) and norm(n.func).endswith("._register")]
        pdom = cfg.postdominators(exits=[cfg.exit])
        ok = any(cfg.node_for(r) is not None and cfg.node_for(r).id in pdom[cfg.entry.id] for r in regs)
        if not ok and not regs:
            # the function hands the (valid or invalid) backend back: every caller registers what it gets
            rets_all = [r for r in walk_no_nested(f.node) if isinstance(r, ast.Return)]
            returns_value = bool(rets_all) and all(r.value is not None for r in rets_all) and any(isinstance(r, ast.Return) for st in h.body for r in ast.walk(st))
            users = [c for g in p.funcs.values() if g.module is bm for c in walk_no_nested(g.node) if isinstance(c, ast.Call) and isinstance(c.func, ast.Attribute) and c.func.attr == f.name]
            registered = bool(users) and all(any(isinstance(par, ast.Call) and norm(par.func).endswith("._register") for par in parents(c)) or _registered_later(c) for c in users)
            ok = returns_value and registered
        rep.add("C11.R2", f"{f.qualname}:registered-either-way", f.loc, ok, "the (valid or invalid) backend is registered on every path" if ok else "a failing factory leaves its backend unregistered: its name is then unknown instead of raising ImportBackendError when selected")
    inv = p.cls("InvalidBackend", "frontend.backend")
    m = inv.methods.get("is_supported_tensor")
    rets = [r for r in walk_no_nested(m.node) if isinstance(r, ast.Return)] if m else []
    ok = bool(rets) and all(isinstance(r.value, ast.Constant) and r.value.value is False for r in rets)
    rep.add("C11.R2", f"{inv.qualname}.is_supported_tensor", m.loc if m else inv.loc, ok, "an invalid backend never claims a tensor type" if ok else "an invalid backend can be selected by tensor type")
    ga = inv.methods.get("__getattr__")
    ro = inv.methods.get("raise_on_import_failure")
    for meth in (ga, ro):
        if meth is None:
            rep.violation("C11.R2", f"{inv.qualname}:missing-method", inv.loc, "InvalidBackend lacks __getattr__/raise_on_import_failure")
            continue
        kinds = [common.raised_class(p, meth.module, r, meth.node) for r in walk_no_nested(meth.node) if isinstance(r, ast.Raise)]
        ok = bool(kinds) and all(k == ("errors", "ImportBackendError") for k in kinds) and common.block_always_raises(meth.node.body)
        rep.add("C11.R2", f"{inv.qualname}.{meth.name}:raises", meth.loc, ok, "raises ImportBackendError" if ok else f"raises {kinds}")
    # api: raise_on_import_failure dominates every use of the resolved backend
    g = p.func("_api_withoutbackend.inner", "frontend.api")
    cfgg = CFG(g.node)

    def selects(fn):
        """assignments `b = registry.get(...)` in fn"""
        return [n for n in walk_no_nested(fn.node) if isinstance(n, ast.Assign) and isinstance(n.value, ast.Call) and norm(n.value.func).endswith("registry.get")]

    def checked_in(fn, sel):
        """does `<b>.raise_on_import_failure()` dominate every later use of b in fn?  returns (ok, n_uses, bad_line)"""
        c = CFG(fn.node)
        bname = norm(sel.targets[0])
        chk = [n for n in walk_no_nested(fn.node) if isinstance(n, ast.Expr) and isinstance(n.value, ast.Call) and norm(n.value.func) == f"{bname}.raise_on_import_failure"]
        if not chk:
            return False, 0, None
        cnode = c.node_for(chk[0])
        uses = [n for n in walk_no_nested(fn.node) if isinstance(n, ast.Name) and n.id == bname and isinstance(n.ctx, ast.Load) and n.lineno > sel.lineno and not any(x is n for x in ast.walk(chk[0]))]
        bad = [u for u in uses if c.node_for(u) is not None and not c.dominates(cnode, c.node_for(u))]
        return not bad, len(uses), (bad[0].lineno if bad else None)

    sel = selects(g)
    if sel:
        ok, n_uses, bad = checked_in(g, sel[0])
        rep.add("C11.R2", f"{g.qualname}:raise_on_import_failure", f"{g.module.rel}:{sel[0].lineno}", ok, f"`raise_on_import_failure()` dominates all {n_uses} later uses of the selected backend" if ok else (f"the backend is used at line {bad} before / without the import-failure check" if bad else "the selected backend is never checked for a failed import before it is used"))
    else:
        # selection extracted into a helper that returns the checked backend
        helpers = [h for h in common.with_helpers(p, g)[1:] if selects(h)]
        if not helpers:
            rep.violation("C11.R2", f"{g.qualname}:raise_on_import_failure", g.loc, "the api wrapper does not resolve its backend through registry.get(...)")
        for h in helpers:
            ok, n_uses, bad = checked_in(h, selects(h)[0])
            rep.add("C11.R2", f"{g.qualname}:raise_on_import_failure", h.loc, ok, f"backend selection and `raise_on_import_failure()` live in helper {h.name}; the check dominates its return" if ok else f"helper {h.name} returns the selected backend without the import-failure check")


def _fold(m, n, env=None):
    """constant value of an expression built from literals, module-level string/int constants and f-strings; else None"""
    env = env or {}
    if isinstance(n, ast.Constant):
        return n.value
    if isinstance(n, ast.UnaryOp) and isinstance(n.op, ast.USub):
        v = _fold(m, n.operand, env)
        return -v if isinstance(v, (int, float)) else None
    if isinstance(n, ast.Name):
        if n.id in env:
            return _fold(m, env[n.id], {})
        vals = [st.value for st in m.tree.body if isinstance(st, ast.Assign) and len(st.targets) == 1 and isinstance(st.targets[0], ast.Name) and st.targets[0].id == n.id]
        return _fold(m, vals[0], {}) if len(vals) == 1 else None
    if isinstance(n, ast.JoinedStr):
        out = ""
        for v in n.values:
            if isinstance(v, ast.Constant):
                out += str(v.value)
            elif isinstance(v, ast.FormattedValue) and v.format_spec is None and v.conversion == -1:
                x = _fold(m, v.value, env)
                if x is None:
                    return None
                out += str(x)
            else:
                return None
        return out
    if isinstance(n, ast.BinOp) and isinstance(n.op, ast.Add):
        a, b = _fold(m, n.left, env), _fold(m, n.right, env)
        return a + b if isinstance(a, str) and isinstance(b, str) else None
    return None


class _Folded(ast.Constant):
    pass


def _as_const(m, n, env=None):
    """the expression itself, or an ast.Constant standing for its folded value"""
    v = _fold(m, n, env)
    if v is None or isinstance(n, ast.Constant):
        return n
    c = ast.Constant(value=v)
    return ast.copy_location(c, n)


def backend_tables(p):
    """per impl module: registrations [(module_name, backend_name, factory, call)] and Backend(...) constructions;
    names written through module constants / f-strings are folded, registrations made in a loop over a literal
    table of tuples are unrolled"""
    out = {}
    for fw, m in backends.impl_modules(p).items():
        regs, ctors = [], []
        for n in ast.walk(m.tree):
            if isinstance(n, ast.Call):
                if norm(n.func).endswith("registry.register_on_import") and len(n.args) == 3:
                    loop = enclosing(n, ast.For)
                    if loop is not None and isinstance(loop.iter, (ast.Tuple, ast.List)) and all(isinstance(r, (ast.Tuple, ast.List)) for r in loop.iter.elts):
                        tg = [e.id for e in loop.target.elts] if isinstance(loop.target, ast.Tuple) else [loop.target.id]
                        for row in loop.iter.elts:
                            env = dict(zip(tg, row.elts))
                            args = [env.get(a.id, a) if isinstance(a, ast.Name) else a for a in n.args]
                            regs.append((_as_const(m, args[0]), _as_const(m, args[1]), args[2], n))
                    else:
                        regs.append((_as_const(m, n.args[0]), _as_const(m, n.args[1]), n.args[2], n))
                r = resolve_callee(p, n, m)
                if r and r[0] == "class" and r[1].name == "Backend":
                    for k in n.keywords:
                        if k.arg == "name":
                            k.value = _as_const(m, k.value)
                    ctors.append(n)
                # the same two things done through a small shared helper of another module (`_make_backend(ops, name,
                # kwargs, priority=-1)`, `_register_on_import("numpy", {"numpy": create_backend, ...})`)
                if r and r[0] == "func" and r[1].module is not m and r[1].parent is None and isinstance(r[1].node, ast.FunctionDef) and not n.args == [] and not any(isinstance(a, ast.Starred) for a in n.args):
                    h = r[1]
                    hbody = [st for st in h.node.body if not (isinstance(st, ast.Expr) and isinstance(st.value, ast.Constant))]
                    amap = {}
                    for i_, a in enumerate(n.args):
                        if i_ < len(h.params):
                            amap[h.params[i_]] = a
                    for k in n.keywords:
                        if k.arg:
                            amap[k.arg] = k.value
                    pos = [a.arg for a in h.node.args.posonlyargs + h.node.args.args]
                    for q, d in zip(pos[len(pos) - len(h.node.args.defaults) :], h.node.args.defaults):
                        amap.setdefault(q, d)
                    from .elempreds import rename

                    # a factory of factories: `create_backend = _default_backend_creator("numpy", ..., priority=-1)`; the
                    # helper defines the real factory as a closure and returns it
                    if len(hbody) == 2 and isinstance(hbody[0], ast.FunctionDef) and isinstance(hbody[1], ast.Return) and isinstance(hbody[1].value, ast.Name) and hbody[1].value.id == hbody[0].name:
                        for c0 in ast.walk(hbody[0]):
                            if isinstance(c0, ast.Call):
                                rr = resolve_callee(p, c0, h.module)
                                if rr and rr[0] == "class" and rr[1].name == "Backend":
                                    c2 = rename(c0, amap)
                                    for x in ast.walk(c2):
                                        if hasattr(x, "lineno"):
                                            x.lineno = n.lineno
                                    c2._parent = getattr(n, "_parent", None)
                                    for k in c2.keywords:
                                        if k.arg == "name":
                                            k.value = _as_const(m, k.value)
                                    ctors.append(c2)
                    if len(hbody) == 1 and isinstance(hbody[0], ast.Return) and isinstance(hbody[0].value, ast.Call):
                        rr = resolve_callee(p, hbody[0].value, h.module)
                        if rr and rr[0] == "class" and rr[1].name == "Backend":
                            c2 = rename(hbody[0].value, amap)
                            for x in ast.walk(c2):
                                if hasattr(x, "lineno"):
                                    x.lineno = n.lineno
                            c2._parent = getattr(n, "_parent", None)
                            for k in c2.keywords:
                                if k.arg == "name":
                                    k.value = _as_const(m, k.value)
                            ctors.append(c2)
                    if len(hbody) == 1 and isinstance(hbody[0], ast.For) and len(hbody[0].body) == 1 and isinstance(hbody[0].body[0], ast.Expr) and isinstance(hbody[0].body[0].value, ast.Call) and norm(hbody[0].body[0].value.func).endswith("register_on_import"):
                        loop_ = hbody[0]
                        inner_call = loop_.body[0].value
                        it = loop_.iter
                        if isinstance(it, ast.Call) and isinstance(it.func, ast.Attribute) and it.func.attr == "items" and isinstance(it.func.value, ast.Name) and isinstance(amap.get(it.func.value.id), ast.Dict) and isinstance(loop_.target, ast.Tuple) and len(loop_.target.elts) == 2:
                            kname, vname = (e.id for e in loop_.target.elts)
                            d = amap[it.func.value.id]
                            for k_, v_ in zip(d.keys, d.values):
                                env = dict(amap)
                                env[kname], env[vname] = k_, v_
                                args = [env.get(a.id, a) if isinstance(a, ast.Name) else a for a in inner_call.args]
                                if len(args) == 3:
                                    regs.append((_as_const(m, args[0]), _as_const(m, args[1]), args[2], n))
        out[fw] = (m, regs, ctors)
    return out


def _const(n):
    if isinstance(n, ast.Constant):
        return n.value
    if isinstance(n, ast.UnaryOp) and isinstance(n.op, ast.USub) and isinstance(n.operand, ast.Constant):
        return -n.operand.value
    return None


def r3(p, rep):
    rep.rule("C11.R3", "backend names and priorities across the factory modules", "T-TAB / T-SIB", floor=30)
    tables = backend_tables(p)
    names = {}
    defaults = {}
    n_regs = 0
    for fw, (m, regs, ctors) in tables.items():
        if not regs or not ctors:
            raise AnalysisError(f"anchor vanished: {m.name} has {len(regs)} register_on_import calls and {len(ctors)} Backend(...) constructions")
        default_prio, special_prio = None, []
        for c in ctors:
            nm = common.kwarg(c, "name")
            pr = _const(common.kwarg(c, "priority"))
            f = p.func_containing(c)
            if pr is None:
                rep.violation("C11.R3", f"{f.qualname}:priority", f"{m.rel}:{c.lineno}", f"priority is not a literal: {norm(common.kwarg(c, 'priority')) if common.kwarg(c, 'priority') is not None else None}")
                continue
            if isinstance(nm, ast.Constant):
                default_prio = pr
                defaults[fw] = (pr, nm.value, c)
            else:
                special_prio.append((pr, c))
        for mod, bname, fac, call in regs:
            n_regs += 1
            bn = _const(bname)
            site = f"{m.rel}:{call.lineno}"
            key = f"{m.name}:register({bn})"
            dup = names.get(bn)
            names[bn] = site
            rep.add("C11.R3", key + ":unique", site, dup is None, "name is unique" if dup is None else f"backend name {bn!r} is also registered at {dup}: the later registration silently replaces the earlier one in name lookups")
            # the factory registered under a label returns that very name (the returned name is what ends up in
            # name_to_backend; the label is only used for the placeholder of a failed import)
            if isinstance(fac, ast.Name):
                facs = [g for g in p.funcs.values() if g.module is m and g.parent is None and g.name == fac.id]
                for g in facs:
                    rnames = {_fold(m, r.value.elts[-1]) for r in walk_no_nested(g.node) if isinstance(r, ast.Return) and isinstance(r.value, ast.Tuple) and r.value.elts and isinstance(_fold(m, r.value.elts[-1]), str)}
                    bnames = {_fold(m, common.kwarg(c, "name")) for c in walk_no_nested(g.node) if isinstance(c, ast.Call) and common.kwarg(c, "name") is not None and isinstance(_fold(m, common.kwarg(c, "name")), str) and norm(c.func).split(".")[-1] == "Backend"}
                    got = rnames | bnames
                    if got:
                        ok = got == {bn}
                        rep.add("C11.R3", key + ":factory-returns-label", site, ok, f"{fac.id} builds the backend named {bn!r}" if ok else f"{fac.id} is registered under {bn!r} but builds the backend named {sorted(got)}: the name table is rebound to another backend once this factory runs (later lookups of {sorted(got)} resolve differently than in a fresh process)")
            dname = defaults.get(fw, (None, None, None))[1]
            if dname is not None:
                scheme = bn == dname or (isinstance(bn, str) and bn.startswith(dname + "."))
                rep.add("C11.R3", key + ":scheme", site, scheme, f"{bn!r} follows <{dname}>[.<kind>]" if scheme else f"{bn!r} does not follow the naming scheme of module {fw}")
        if fw in defaults:
            dpr, dname, c = defaults[fw]
            ok_name = dname == fw
            rep.add("C11.R3", f"{m.name}:default-name", f"{m.rel}:{c.lineno}", ok_name, f"default backend of {fw}.py is named {dname!r}")
            for pr, c2 in special_prio:
                rep.add("C11.R3", f"{m.name}:default>specialised({pr})", f"{m.rel}:{c2.lineno}", dpr > pr, f"default priority {dpr} > specialised priority {pr}" if dpr > pr else f"specialised backends (priority {pr}) are not below the default backend (priority {dpr}): tensor-type resolution becomes ambiguous or picks the specialised one")
    if "numpy" not in defaults:
        raise AnalysisError("anchor vanished: numpy default backend")
    npr = defaults["numpy"][0]
    for fw, (pr, dname, c) in defaults.items():
        if fw == "numpy":
            continue
        if fw == "arrayapi":
            ok = npr > pr
            rep.add("C11.R3", f"numpy>arrayapi", f"{tables[fw][0].rel}:{c.lineno}", ok, f"numpy ({npr}) outranks the generic array-api backend ({pr})" if ok else f"array-api backend ({pr}) is not below numpy ({npr}): plain numpy arrays resolve ambiguously")
        else:
            ok = npr < pr
            rep.add("C11.R3", f"numpy<{fw}", f"{tables[fw][0].rel}:{c.lineno}", ok, f"numpy ({npr}) defers to {fw} ({pr})" if ok else f"numpy ({npr}) does not defer to {fw} ({pr}): mixing numpy arrays / scalars with {fw} tensors raises BackendResolutionError or picks numpy")
    if n_regs < 20:
        raise AnalysisError(f"only {n_regs} register_on_import calls found")


def r4(p, rep):
    rep.rule("C11.R4", "error classes of the lookup", "raise-class discipline", floor=4)
    expect = {
        "BackendRegistryState._get_by_name": {("builtin", "ValueError")},
        "BackendRegistryState._get": {("builtin", "ValueError"), ("errors", "BackendResolutionError")},
        "BackendRegistryState._register": {("builtin", "ValueError")},
    }
    for q, allowed in expect.items():
        f = p.func(q, "frontend.backend")
        # raises of the function itself and of the helpers it calls (a `_raise_...()` helper is the same raise)
        kinds = [(common.raised_class(p, g.module, r, g.node), r) for g in common.with_helpers(p, f) for r in walk_no_nested(g.node) if isinstance(r, ast.Raise)]
        if not kinds:
            rep.violation("C11.R4", f"{f.qualname}:raises", f.loc, "no raise left: failures fall through")
        for k, r in kinds:
            rep.add("C11.R4", f"{f.qualname}:raise:{k[1]}:{c03._raise_ctx(r)}", f"{f.module.rel}:{r.lineno}", k in allowed, f"raises {k[1]}" if k in allowed else f"raises {k} (documented: {sorted(a[1] for a in allowed)})")
    # zero and several candidates both raise BackendResolutionError; exactly one is returned
    f = p.func("BackendRegistryState._get", "frontend.backend")
    cfg = CFG(f.node)
    cands = [n for n in walk_no_nested(f.node) if isinstance(n, ast.Assign) and isinstance(n.value, ast.Call) and norm(n.value.func).endswith("_get_by_tensors") and isinstance(n.targets[0], ast.Name)]
    if not cands:
        raise AnalysisError("unrecognised idiom: _get does not bind the result of _get_by_tensors to a name")
    v = cands[0].targets[0].id
    res = [r for r in walk_no_nested(f.node) if isinstance(r, ast.Raise) and common.raised_class(p, f.module, r, f.node) == ("errors", "BackendResolutionError")]
    bounds = [common.len_bounds(cfg.guards(cfg.node_for(r)), v) for r in res]
    rets = [r for r in walk_no_nested(f.node) if isinstance(r, ast.Return) and r.value is not None and norm(r.value) == f"{v}[0]"]
    rb = [common.len_bounds(cfg.guards(cfg.node_for(r)), v) for r in rets]
    def _not_one(r):
        for t, pol in cfg.guards(cfg.node_for(r)):
            if isinstance(t, ast.Compare) and len(t.ops) == 1 and norm(t.left) == f"len({v})" and isinstance(t.comparators[0], ast.Constant) and t.comparators[0].value == 1:
                if (isinstance(t.ops[0], ast.Eq) and not pol) or (isinstance(t.ops[0], ast.NotEq) and pol):
                    return True
        return False

    covers = (any(hi == 0 for lo, hi in bounds) and any(lo >= 2 for lo, hi in bounds)) or any(_not_one(r) for r in res)
    ok = covers and bool(rb) and all(b == (1, 1) for b in rb)
    rep.add("C11.R4", f"{f.qualname}:zero-or-many", f.loc, ok, f"no candidate and several candidates raise BackendResolutionError; `{v}[0]` is returned only when len({v}) == 1" if ok else f"candidate-count handling: raises under len bounds {bounds}, returns {v}[0] under {rb}")


def r5(p, rep):
    rep.rule("C11.R5", "memo and candidate discipline in tensor-type resolution", "T-DOM", floor=4)
    f = p.func("BackendRegistryState._get_by_tensors", "frontend.backend")
    cfg = CFG(f.node)
    writes = [n for n in walk_no_nested(f.node) if isinstance(n, ast.Assign) and any(isinstance(t, ast.Subscript) and "tensortypes_to_backend" in norm(t.value) for t in n.targets)]
    if not writes:
        raise AnalysisError("unrecognised idiom: no memo write in _get_by_tensors")
    for w in writes:
        facts = _facts(cfg, cfg.node_for(w))
        val = w.value
        vname = norm(val.value) if isinstance(val, ast.Subscript) else None
        ok = vname is not None and common.len_bounds(cfg.guards(cfg.node_for(w)), vname) == (1, 1)
        rep.add("C11.R5", f"{f.qualname}:memo-write", f"{f.module.rel}:{w.lineno}", ok, "only a unique answer is memoised" if ok else f"the memo is written under {facts}: an ambiguous or empty answer would be frozen for later lookups")
        ok2 = isinstance(val, ast.Subscript) and isinstance(val.slice, ast.Constant) and val.slice.value == 0
        rep.add("C11.R5", f"{f.qualname}:memo-value", f"{f.module.rel}:{w.lineno}", ok2, f"memoised value {norm(w.value)}")
    # priority filter: max + ==
    filt = [n for n in walk_no_nested(f.node) if isinstance(n, ast.Assign) and isinstance(n.value, ast.ListComp) and "priority" in norm(n.value)]
    mx = [n for n in walk_no_nested(f.node) if isinstance(n, ast.Assign) and isinstance(n.value, ast.Call) and isinstance(n.value.func, ast.Name) and n.value.func.id in ("max", "min") and "priority" in norm(n.value)]
    ok = bool(filt) and bool(mx) and mx[0].value.func.id == "max" and any(isinstance(c, ast.Compare) and isinstance(c.ops[0], ast.Eq) for g in filt[0].value.generators for c in g.ifs)
    rep.add("C11.R5", f"{f.qualname}:priority-filter", f"{f.module.rel}:{(filt[0].lineno if filt else f.node.lineno)}", ok, "keeps exactly the backends whose priority equals the maximum" if ok else "the priority filter is not `priority == max(priorities)`")
    # candidates: union over all tensors
    loops = [n for n in walk_no_nested(f.node) if isinstance(n, ast.For) and norm(n.iter) == f.params[1]]
    ok = any(any(isinstance(x, ast.Call) and isinstance(x.func, ast.Attribute) and x.func.attr in ("update", "extend", "add") for x in ast.walk(l)) and not any(isinstance(x, (ast.Break, ast.Return)) for x in ast.walk(l)) for l in loops)
    if not ok:
        # collected in one go: `{b for tensor in tensors for b in self.backends if b.is_supported_tensor(tensor)}`, in the
        # function itself or in a method it hands all the tensors to
        scopes = [(f, f.params[1])]
        for c in walk_no_nested(f.node):
            if isinstance(c, ast.Call) and any(isinstance(a, ast.Name) and a.id == f.params[1] for a in c.args):
                r = resolve_callee(p, c, f.module)
                h = r[1] if r and r[0] == "func" else (p.lookup_method(f.cls, c.func.attr) if isinstance(c.func, ast.Attribute) and isinstance(c.func.value, ast.Name) and c.func.value.id == f.params[0] and f.cls is not None else None)
                if h is not None:
                    idx = next(i for i, a in enumerate(c.args) if isinstance(a, ast.Name) and a.id == f.params[1])
                    off = 1 if h.cls is not None else 0
                    if idx + off < len(h.params):
                        scopes.append((h, h.params[idx + off]))
        for h, tp in scopes:
            for comp in [x for x in ast.walk(h.node) if isinstance(x, (ast.SetComp, ast.ListComp))]:
                gens = comp.generators
                over = [g_ for g_ in gens if norm(g_.iter) == tp]
                if over and len(gens) >= 2 and "is_supported_tensor" in norm(comp):
                    ok = True
    rep.add("C11.R5", f"{f.qualname}:union-over-tensors", f.loc, ok, "candidates are collected from every tensor argument (no early exit)" if ok else "candidate collection stops early or ignores some tensor arguments: the choice depends on argument order")
    # scalars alone select numpy
    def _all_isinstance(t):
        return (
            isinstance(t, ast.Call)
            and isinstance(t.func, ast.Name)
            and t.func.id == "all"
            and t.args
            and isinstance(t.args[0], ast.GeneratorExp)
            and isinstance(t.args[0].elt, ast.Call)
            and norm(t.args[0].elt.func) == "isinstance"
            and norm(t.args[0].generators[0].iter) == f.params[1]
        )

    cfg5 = CFG(f.node)

    def _written_out(t, at):
        """the test with a locally bound predicate lambda applied: `is_scalar = lambda t: isinstance(t, ...)`"""
        t = cfg5.expand(t, at)
        if isinstance(t, ast.Call) and isinstance(t.func, ast.Name) and t.func.id == "all" and t.args and isinstance(t.args[0], ast.GeneratorExp) and isinstance(t.args[0].elt, ast.Call) and isinstance(t.args[0].elt.func, ast.Name) and len(t.args[0].elt.args) == 1:
            lam = common.single_reaching_value(cfg5, n_if, t.args[0].elt.func.id) if (n_if := getattr(at, "ast", None)) is not None else None
            if isinstance(lam, ast.Lambda) and len(lam.args.args) == 1 and isinstance(lam.body, ast.Call) and norm(lam.body.func) == "isinstance":
                from .elempreds import rename

                new_elt = rename(lam.body, {lam.args.args[0].arg: t.args[0].elt.args[0]})
                t2 = ast.Call(func=t.func, args=[ast.GeneratorExp(elt=new_elt, generators=t.args[0].generators)], keywords=[])
                return ast.copy_location(t2, t)
        return t

    sc = [n for n in walk_no_nested(f.node) if isinstance(n, ast.If) and cfg5.node_for(n) is not None and _all_isinstance(_written_out(n.test, cfg5.node_for(n)))]
    ok = bool(sc) and any('_get_by_name("numpy")' in norm(s).replace("'", '"') for s in sc[0].body)
    rep.add("C11.R5", f"{f.qualname}:scalars-select-numpy", f.loc, ok, "Python/numpy scalars alone select the numpy backend by name")


def r6(p, rep):
    rep.rule("C11.R6", "late imports are detected by membership in the seen-set", "T-DOM [S]", floor=1)
    f = p.func("BackendRegistryState._check_new_imports", "frontend.backend")
    # how is "a module is new" decided?  accepted: membership `name not in self.seen_module_names` while iterating sys.modules
    member = [x for x in ast.walk(f.node) if isinstance(x, ast.Compare) and isinstance(x.ops[0], (ast.NotIn, ast.In)) and "seen_module_names" in norm(x.comparators[0])]
    iterates = [x for x in ast.walk(f.node) if isinstance(x, (ast.comprehension, ast.For)) and "sys.modules" in norm(x.iter)]
    by_len = [x for x in ast.walk(f.node) if isinstance(x, ast.Compare) and "len(" in norm(x) and ("sys.modules" in norm(x) or "seen_module_names" in norm(x))]
    if not member and not by_len:
        raise AnalysisError("unrecognised idiom: _check_new_imports neither tests membership in seen_module_names nor compares sizes")
    ok = bool(member) and bool(iterates) and not by_len
    site = f"{f.module.rel}:{(member[0].lineno if member else by_len[0].lineno)}"
    rep.add("C11.R6", f"{f.qualname}:new-module-test", site, ok, "a module is new iff its name is not in seen_module_names (checked for every entry of sys.modules)" if ok else f"`{norm(by_len[0])[:80] if by_len else '?'}` decides by counting: the seen-set only grows, so after any module leaves sys.modules a freshly imported framework is never noticed and its lazily registered backends stay unavailable")
    # every new module is recorded and its factories run exactly once (entry deleted)
    fs = common.with_helpers(p, f)
    adds = [n for n in common.nodes_of(fs) if isinstance(n, ast.Call) and (norm(n.func).endswith("seen_module_names.add") or norm(n.func).endswith("seen_module_names.update"))]
    dels = [n for n in common.nodes_of(fs) if (isinstance(n, ast.Delete) and "uninitialized_backends" in norm(n.targets[0])) or (isinstance(n, ast.Call) and norm(n.func).endswith("uninitialized_backends.pop"))]
    rep.add("C11.R6", f"{f.qualname}:record-and-consume", f.loc, bool(adds) and bool(dels), "each new module is recorded as seen and its pending factories are consumed")


def r7(p, rep):
    rep.rule("C11.R7", "the by-name lookup returns a backend only after the name is known to be registered (else ValueError)", "T-MPT over enumerated paths (last membership fact before each return)", floor=1)
    from sa.cfg import decompose

    f = p.func("BackendRegistryState._get_by_name", "frontend.backend")
    cfg = CFG(f.node)
    byid = {n.id: n for n in cfg.nodes}
    name = f.params[1] if len(f.params) > 1 else None
    if name is None:
        raise AnalysisError("unrecognised idiom: _get_by_name has no name parameter")

    def membership(t, pol):
        if isinstance(t, ast.Compare) and len(t.ops) == 1 and isinstance(t.ops[0], (ast.In, ast.NotIn)) and isinstance(t.left, ast.Name) and t.left.id == name and "name_to_backend" in norm(t.comparators[0]):
            return pol if isinstance(t.ops[0], ast.In) else not pol
        return None

    rets = [r for r in walk_no_nested(f.node) if isinstance(r, ast.Return) and r.value is not None]
    if not rets:
        raise AnalysisError("unrecognised idiom: _get_by_name returns nothing")
    for r in rets:
        rn = cfg.node_for(r)
        bad = None
        n_paths = 0
        for path in cfg.paths(cfg.entry, {rn.id}, limit=5000):
            n_paths += 1
            known = None
            locals_ = {}  # boolean locals assigned on this path: a later `if not v:` speaks about their definition
            for nid in path:
                nd = byid[nid]
                if nd.kind == "stmt" and isinstance(nd.ast, ast.Assign) and len(nd.ast.targets) == 1 and isinstance(nd.ast.targets[0], ast.Name):
                    locals_[nd.ast.targets[0].id] = nd.ast.value
                if nd.kind in ("stmt", "test") and nd.ast is not None and nd is not rn:
                    e = nd.test if nd.kind == "test" and nd.test is not None else nd.ast
                    if not isinstance(e, (ast.If, ast.While, ast.For, ast.Try, ast.With)):
                        for c in ast.walk(e):
                            if isinstance(c, ast.Call) and isinstance(c.func, ast.Attribute) and isinstance(c.func.value, ast.Name) and c.func.value.id == f.params[0] and c.func.attr not in ("_invalid_backend_reasons",):
                                known = None  # a method of the state object may register backends: earlier facts are stale
                if nd.kind == "edge" and nd.test is not None and nd.polarity is not None:
                    todo = list(decompose(nd.test, nd.polarity))
                    while todo:
                        t, pol = todo.pop(0)
                        if isinstance(t, ast.Name) and t.id in locals_:
                            todo += decompose(locals_[t.id], pol)
                            continue
                        m = membership(t, pol)
                        if m is not None:
                            known = m
            if known is not True:
                bad = path
                break
        site = f"{f.module.rel}:{r.lineno}"
        rep.add("C11.R7", f"{f.qualname}:return:{norm(r.value)[:40]}", site, bad is None, f"on all {n_paths} paths the last fact before the return is `{name} in name_to_backend`" if bad is None else f"a path reaches `return {norm(r.value)[:40]}` without having established that `{name}` is registered (after the import scan the name is not looked up again): the lookup returns None / raises KeyError instead of the documented ValueError, depending on what was imported before")


# reviewed deviations of one factory module from its siblings: (function, callee or nested helper, framework) -> reason
# keywords that the backend modules passed to einx building blocks when the sibling rule was reviewed (generated from the
# pinned tree).  The majority comparison is made over these: an optional keyword that a later feature adds for the backends
# that can support it (and the building blocks it adds) is outside what the review could say anything about
REVIEWED_KEYWORDS = {
 "adapter.classical_from_torch.ops": [
  "get_device"
 ],
 "adapter.decomposednamedtensor_from_classical.elementwise": [
  "expected_type"
 ],
 "adapter.decomposednamedtensor_from_classical.reduce": [
  "expected_type"
 ],
 "adapter.decomposednamedtensor_from_vmap.op": [
  "allow_squeeze_unsqueeze",
  "classical",
  "expected_type"
 ],
 "adapter.einsum_from_torch": [
  "get_device"
 ],
 "adapter.einx_from_namedtensor.elementwise": [
  "iskwarg"
 ],
 "adapter.einx_from_namedtensor.op": [
  "el_op",
  "implicit_output",
  "iskwarg"
 ],
 "adapter.einx_from_namedtensor.reduce": [
  "iskwarg"
 ],
 "adapter.namedtensor_calltensorfactory.op": [
  "context",
  "expected_type"
 ],
 "adapter.namedtensor_calltensorfactory.ops": [
  "context",
  "expected_type"
 ],
 "adapter.vmap_from_torch": [
  "get_device"
 ],
 "tracer.signature.python.import_": [
  "as_"
 ]
}

SIBLING_DEVIATIONS = {
    ("_backend_creator", "adapter.namedtensor_calltensorfactory.ops", "arrayapi"): "array-api tensors are created inside the namespace context of the call (context=...): the namespace is only known from the arguments",
    ("adapt_numpylike_elementwise", "adapter.namedtensor_calltensorfactory.op", "arrayapi"): "same namespace context as _backend_creator",
    ("adapt_numpylike_reduce", "adapter.namedtensor_calltensorfactory.op", "arrayapi"): "same namespace context as _backend_creator",
    ("_get_backend_kwargs", "tracer.signature.python.import_", "torch"): "`import torch` needs no alias",
    ("_get_backend_kwargs", "tracer.signature.python.import_", "tinygrad"): "`import tinygrad` needs no alias",
    ("_get_backend_kwargs", "is_supported_tensor", "arrayapi"): "array-api has no tensor class: support is decided by array_namespace() accepting the object",
    ("_get_backend_kwargs", "get_shape", "arrayapi"): "array-api also accepts Python / numpy scalars (shape ())",
}


def _normalised_body(fnode, ns_names):
    """structure of a small helper with parameter names and framework-specific names abstracted"""
    params = [a.arg for a in fnode.args.posonlyargs + fnode.args.args]

    class N(ast.NodeTransformer):
        def visit_Name(self, n):
            if n.id in params:
                return ast.copy_location(ast.Name(id=f"_p{params.index(n.id)}", ctx=n.ctx), n)
            if n.id in ns_names:
                return ast.copy_location(ast.Name(id="_NS", ctx=n.ctx), n)
            return n

        def visit_Attribute(self, n):
            ch = attr_chain(n)
            if ch and ch[0] in ns_names:
                return ast.copy_location(ast.Name(id="_NS", ctx=ast.Load()), n)
            return self.generic_visit(n)

    from sa.cfg import _clone

    body = [N().visit(_clone(st)) for st in fnode.body if not (isinstance(st, ast.Expr) and isinstance(st.value, ast.Constant))]
    # local comprehension variables are irrelevant to the structure
    return "\n".join(ast.dump(b, annotate_fields=False).replace("'x'", "'_v'").replace("'i'", "'_v'").replace("'s'", "'_v'") for b in body)


def r8(p, rep):
    rep.rule("C11.R8", "the factory modules of the seven frameworks are written to one pattern: the same einx building blocks are called with the same options, and the per-backend helpers (tensor test, shape query) have the same form", "T-SIB (majority form across sibling modules, reviewed deviations)", floor=30)
    import collections

    mods = backends.impl_modules(p)
    byname = collections.defaultdict(dict)
    for fw, m in mods.items():
        for f in p.funcs.values():
            if f.module is m and f.parent is None and f.cls is None:
                byname[f.name][fw] = f
    for name, fws in sorted(byname.items()):
        if len(fws) < 3:
            continue
        # (A) calls of einx building blocks: keyword sets
        sk = {}
        for fw, f in fws.items():
            d = collections.defaultdict(set)
            for c in ast.walk(f.node):
                if isinstance(c, ast.Call):
                    ch = attr_chain(c.func)
                    if ch and ch[0] in ("adapter", "tracer") and len(ch) >= 2:
                        if ".".join(ch) in REVIEWED_KEYWORDS or not any(k.arg for k in c.keywords):
                            d[".".join(ch)].add(frozenset(k.arg for k in c.keywords if k.arg and k.arg in REVIEWED_KEYWORDS.get(".".join(ch), ())))
            sk[fw] = d
        callees = {c for d in sk.values() for c in d}
        for callee in sorted(callees):
            users = [fw for fw in sk if callee in sk[fw]]
            if len(users) < 3:
                continue
            forms = collections.Counter(ks for fw in users for ks in sk[fw][callee])
            maj, cnt = forms.most_common(1)[0]
            if cnt < 2 or list(forms.values()).count(cnt) > 1:
                continue  # no clear majority form
            for fw in users:
                for ks in sk[fw][callee]:
                    key = f"{fws[fw].qualname}:{callee}:keywords"
                    site = fws[fw].loc
                    if ks == maj:
                        rep.ok("C11.R8", key, site, f"{callee}(...) is called with {sorted(ks)} like its siblings")
                    elif (name, callee, fw) in SIBLING_DEVIATIONS:
                        rep.exempt("C11.R8", key, site, SIBLING_DEVIATIONS[(name, callee, fw)])
                    else:
                        miss, extra = sorted(maj - ks), sorted(ks - maj)
                        rep.violation("C11.R8", key, site, f"{fw}.{name} calls {callee}(...) " + (f"without {miss} " if miss else "") + (f"with extra {extra} " if extra else "") + f"while {cnt} of {len(users)} sibling modules pass {sorted(maj)}: this backend alone behaves differently for the cases those options exist for")
        # (B) nested helpers of the same name: same structure
        nested = collections.defaultdict(dict)
        for fw, f in fws.items():
            ns = set(backends_ns_names(p, mods[fw]))
            for g in p.funcs.values():
                if g.parent is f and isinstance(g.node, ast.FunctionDef):
                    nested[g.name][fw] = (g, _normalised_body(g.node, ns))
        for hname, impls in sorted(nested.items()):
            if len(impls) < 4:
                continue
            forms = collections.Counter(b for g, b in impls.values())
            maj, cnt = forms.most_common(1)[0]
            if cnt < 3:
                continue
            for fw, (g, b) in impls.items():
                key = f"{g.qualname}:form"
                if b == maj:
                    rep.ok("C11.R8", key, g.loc, f"{hname} has the form shared by {cnt} of {len(impls)} backends")
                elif (name, hname, fw) in SIBLING_DEVIATIONS:
                    rep.exempt("C11.R8", key, g.loc, SIBLING_DEVIATIONS[(name, hname, fw)])
                else:
                    rep.violation("C11.R8", key, g.loc, f"{fw}.{name}.{hname} is written differently from the {cnt} sibling backends that agree (`{norm(g.node.body[-1])[:80]}`): tensors are accepted / shapes are reported by another rule on this backend only (e.g. array-likes of other frameworks accepted, unknown dimensions mapped to a sentinel)")


def backends_ns_names(p, module):
    """names that stand for the framework in a factory module: its imports other than einx / stdlib helpers, and
    locals derived from them at module or function level"""
    names = set()
    for st in ast.walk(module.tree):
        if isinstance(st, ast.Import):
            for a in st.names:
                nm = a.asname or a.name.split(".")[0]
                if not a.name.startswith("einx") and a.name.split(".")[0] not in ("functools", "types", "inspect", "threading", "importlib", "sys", "os"):
                    names.add(nm)
        elif isinstance(st, ast.ImportFrom) and st.module and not st.module.startswith("einx") and st.level == 0:
            for a in st.names:
                names.add(a.asname or a.name)
    changed = True
    while changed:
        changed = False
        for a in ast.walk(module.tree):
            if isinstance(a, ast.Assign) and len(a.targets) == 1 and isinstance(a.targets[0], ast.Name) and a.targets[0].id not in names:
                ch = attr_chain(a.value) if isinstance(a.value, (ast.Attribute, ast.Name)) else None
                roots = {x.id for x in ast.walk(a.value) if isinstance(x, ast.Name)}
                if (ch and ch[0] in names) or (isinstance(a.value, (ast.Tuple, ast.BinOp)) and roots and roots <= names):
                    names.add(a.targets[0].id)
                    changed = True
    return names


def r9(p, rep):
    rep.rule("C11.R9", "a tensor no registered backend supports triggers the check for newly imported frameworks, whatever the other arguments are", "T-DOM (the retry is guarded per tensor, not by emptiness of the candidates of all tensors)", floor=1)
    f = p.func("BackendRegistryState._get_by_tensors", "frontend.backend")
    tparam = f.params[1]
    n = 0
    scopes = [g for g in p.funcs.values() if g is f or g.parent is f]
    # ... and the methods of the class it calls on self (`self._get_by_tensor(tensor, ...)`): per-tensor helpers
    for c in walk_no_nested(f.node):
        if isinstance(c, ast.Call) and isinstance(c.func, ast.Attribute) and isinstance(c.func.value, ast.Name) and c.func.value.id == f.params[0] and f.cls is not None:
            h = p.lookup_method(f.cls, c.func.attr)
            if h is not None and h not in scopes and h.name != "_check_new_imports":
                scopes.append(h)
    for g in scopes:
        cfg = common.cfg_of(g)
        for c in common.walk_with_lambdas(g.node):
            if not (isinstance(c, ast.Call) and isinstance(c.func, ast.Attribute) and c.func.attr == "_check_new_imports"):
                continue
            n += 1
            facts = common.lexical_facts(g, c, stop=f)
            bad = None
            for t, pol in facts:
                lo_hi = None
                # an emptiness test `len(X) == 0` / `not X` / `X` on a collection X
                names = [y.id for y in ast.walk(t) if isinstance(y, ast.Name)]
                for X in names:
                    lo, hi = common.len_bounds([(t, pol)], X)
                    if hi == 0:
                        v = common.single_reaching_value(cfg, c, X) if g is f else None
                        if g is not f and g.parent is not f:
                            # a method called per tensor: its collections are per tensor, unless it was handed all of them
                            handed_all = any(isinstance(cc, ast.Call) and isinstance(cc.func, ast.Attribute) and cc.func.attr == g.name and any(isinstance(a, ast.Name) and a.id == tparam for a in cc.args) for cc in walk_no_nested(f.node))
                            if handed_all:
                                bad = X
                        src = v
                        if isinstance(v, ast.Call) and v.args:
                            # candidates computed by a helper from all tensors
                            if any(isinstance(a, ast.Name) and a.id == tparam for a in v.args):
                                bad = X
                        if isinstance(src, (ast.SetComp, ast.ListComp)) and any(norm(gen.iter) == tparam for gen in src.generators):
                            bad = X
            rep.add("C11.R9", f"{g.qualname}:new-imports-per-tensor", f"{g.module.rel}:{c.lineno}", bad is None, "the check for new imports is reached whenever some tensor has no supporting backend" if bad is None else f"the check for new imports only runs when `{bad}` - the candidates of ALL tensors together - is empty: a numpy array next to a tensor of a framework imported after einx selects numpy and memoises that answer, so the result depends on which lookups happened before")
    if n == 0:
        raise AnalysisError("unrecognised idiom: _get_by_tensors never checks for newly imported frameworks")


_DEFERRED = "uninitialized_backends"


def _own_exprs(n):
    """The expressions evaluated AT a CFG node (not the bodies nested under it)."""
    a = n.ast
    if a is None or n.kind in ("edge", "join", "entry", "exit", "raise"):
        return []
    if n.kind == "loop":
        return [a.iter]
    if n.kind == "test":
        return [n.test] if n.test is not None else []
    if isinstance(a, (ast.With, ast.AsyncWith)):
        return [i.context_expr for i in a.items]
    if isinstance(a, (ast.If, ast.For, ast.While, ast.Try, ast.FunctionDef, ast.AsyncFunctionDef, ast.ClassDef, ast.Match)):
        return []
    return [a]


def _direct_kinds(expr):
    """Which of DEFER / RUN / CONSUME does this expression do itself?"""
    kinds = set()
    for x in ast.walk(expr):
        if isinstance(x, ast.Delete) and any(_DEFERRED in norm(t) for t in x.targets):
            kinds.add("consume")
        elif isinstance(x, ast.Call) and isinstance(x.func, ast.Attribute):
            recv = norm(x.func.value)
            if x.func.attr in ("pop", "popitem", "clear") and recv.endswith(_DEFERRED):
                kinds.add("consume")
            elif x.func.attr in ("append", "extend", "insert") and _DEFERRED in recv:
                kinds.add("defer")
            elif x.func.attr == "_run_factory":
                kinds.add("run")
        elif isinstance(x, (ast.Assign, ast.AugAssign, ast.AnnAssign)):
            tg = x.targets if isinstance(x, ast.Assign) else [x.target]
            v = x.value
            empty = isinstance(v, (ast.List, ast.Tuple, ast.Dict, ast.Set)) and not (v.elts if not isinstance(v, ast.Dict) else v.keys)
            if v is not None and not empty and any(isinstance(t, ast.Subscript) and norm(t.value).endswith(_DEFERRED) for t in tg):
                kinds.add("defer")
            if any(isinstance(t, ast.Attribute) and t.attr == _DEFERRED for t in tg):
                # the whole table is rebuilt (e.g. a dict comprehension that leaves entries out): counts as a removal
                kinds.add("consume")
    return kinds


def r10(p, rep):
    title = "a lazily registered factory runs at most once: no path runs a factory and leaves an entry for it waiting"
    f0 = p.func("BackendRegistryState._check_new_imports", "frontend.backend")
    cls = f0.cls
    if "_run_factory" not in cls.methods:
        # The rule is written for the shape "factories are run by BackendRegistryState._run_factory".  A tree that runs them some other
        # way (e.g. a pending-backend object with its own create()) is not decided by it - said here rather than guessed at.
        rep.rule("C11.R10", title, "T-PATH [S]", floor=0)
        rep.info["C11.R10"] = "not decided on this tree: BackendRegistryState has no _run_factory method, the run sites of deferred factories are not identified"
        return
    rep.rule("C11.R10", title, "T-PATH [S]", floor=2)
    methods = [m for m in cls.methods.values()]
    summary = {}  # method name -> kinds its body does directly (one level of self.<helper>() is seen through)
    for m in methods:
        ks = set()
        for st in m.node.body:
            ks |= _direct_kinds(st)
        summary[m.node.name] = ks
    runs_total = 0
    for m in methods:
        selfname = m.node.args.args[0].arg if m.node.args.args else None
        cfg = CFG(m.node)
        reach = cfg.reachable()
        kinds_at = {}
        for n in cfg.nodes:
            if n.id not in reach:
                continue
            ks = set()
            for e in _own_exprs(n):
                ks |= _direct_kinds(e)
                for c in ast.walk(e):
                    if isinstance(c, ast.Call) and isinstance(c.func, ast.Attribute) and isinstance(c.func.value, ast.Name) and c.func.value.id == selfname and c.func.attr in summary and c.func.attr != "_run_factory":
                        ks |= summary[c.func.attr] - {"run"}
            if ks:
                kinds_at[n.id] = ks
        runs = [cfg.nodes[i] for i, k in kinds_at.items() if "run" in k]
        defers = [cfg.nodes[i] for i, k in kinds_at.items() if "defer" in k]
        consumes = [cfg.nodes[i] for i, k in kinds_at.items() if "consume" in k]
        runs_total += len(runs)
        for r in runs:
            site = f"{m.module.rel}:{getattr(r.ast, 'lineno', m.node.lineno)}"
            # (a) the factory that runs here was put aside earlier on the same path: the entry must be taken back
            bad = None
            for d in defers:
                if d is r or not cfg.can_reach(d, r, avoid=[c for c in consumes if c is not d and c is not r]):
                    continue
                if r in consumes or not cfg.can_reach(r, cfg.exit, avoid=[c for c in consumes if c is not r]):
                    continue
                bad = d
                break
            ok = bad is None
            rep.add("C11.R10", f"{m.qualname}:run-after-defer", site, ok, "no path puts a factory aside and then runs it without taking the entry back" if ok else f"a path through line {getattr(bad.ast, 'lineno', '?')} stores the factory under a module that is not imported yet, reaches this `_run_factory` call and returns with the stored entry still waiting: when that module is imported later the factory runs a second time and two backends of the same name and priority are registered, so selection by tensor type then fails with 'Multiple registered backends'")
            # Not a clause: "an entry whose factories ran is removed".  _check_new_imports visits a module name once (it is put into
            # seen_module_names first), so an entry left behind under a seen name never runs again; demanding the `del` would alarm
            # on an edit that keeps the behaviour.
    if runs_total == 0:
        raise AnalysisError("anchor lost: BackendRegistryState._run_factory exists but none of the class's methods calls it")


def run(p, rep, tier):
    r1(p, rep)
    r2(p, rep)
    r3(p, rep)
    r4(p, rep)
    r5(p, rep)
    r6(p, rep)
    r7(p, rep)
    r8(p, rep)
    r9(p, rep)
    r10(p, rep)
    from . import c06, c10

    rep.rule("C06.R5", "no hidden state survives a lookup: no mutable default arguments", "inventory", floor=50)
    c06.r5(p, rep)
    lockinfo = c10.r1(p, rep)
    c10.r2(p, rep, lockinfo)  # a lookup that fails must leave the committed registry as it was (copy-on-write snapshots)
    rep.info["undecided"] = "behaviour over all registry populations, registration orders and import histories"
