"""C16 - results are reproducible across processes, hash seeds and repeated calls.

Decided clauses:
 R1 no hash-iteration order reaches an ordered result: every order-sensitive consumption of a
    set-typed value is sanitised (sorted / order-free reducer / set-to-set), guarded by a
    singleton test, confined to a `raise`, a per-element commutative loop, or a reviewed table entry
 R2 fresh identifiers (uuid4, id()) only name things: never ordered, never sorted on
 R3 no other entropy source on the call path (random, time, os.urandom, hash() of strings, environ)
 R4 generated code runs in its own fresh namespace per compilation (no state shared between compiled functions)
"""

from __future__ import annotations

import ast

from sa.cfg import CFG, ReachingDefs
from sa.core import AnalysisError, attr_chain, enclosing, norm, parents, resolve_callee, src, walk_no_nested
from sa.sets import ORDER_FREE_CALLS, SetTypes

from . import common
from .common import block_always_raises

# (module suffix, kind, structural shape of the consumer) -> reason.  Keys are structural (module + how the
# set is consumed), not names: renaming locals or extracting a helper inside the module does not change them.
R1_TABLE = {
    ("util.solver", "list", "list(set(X))"): "de-duplicated equation list handed to the solver; the solution set of an equation system does not depend on equation order (assumption)",
    ("util.solver", "iter", "next(iter(S))"): "next(iter(class_constants)) is only used when the class has exactly one constant; with more than one the function raises SolveExceptionNoSolution before returning",
    ("util.solver", "list", "list(S) in raise-argument"): "argument of the SolveExceptionNoSolution that is raised (message only)",
    ("util.solver", "pop", "{k: S.pop() for k, S in D.items()}"): "dict comprehension over sets that were just checked to have exactly one element (`len(values) != 1` raises above)",
    ("namedtensor.stage2.solve", "list", "return list(S)"): "result is only compared with a one-element list ([axis_name] != ...); for one element order is irrelevant",
    ("frontend.backend", "list", "T = list(S)"): "with more than one element the list only reaches the priority filter (max and ==, order-free) and then either a singleton or the BackendResolutionError text",
    ("functorchdim.namedtensor_from_functorchdim", "dictcomp", "{k: D[k] for k in S}"): "dict is only used by key lookup (axes[axis.name])",
}


# class in which a table entry was reviewed (where the code is a method): keeps the entry attached when the class is
# moved to another module unchanged
R1_OWNER = {
    ("frontend.backend", "list", "T = list(S)"): "BackendRegistryState",
}


def consumer_shape(kind, e, node):
    """structural description of how the set-typed expression `e` is consumed at `node`"""
    par = getattr(node, "_parent", None)
    st = _stmt_of(node)
    if kind == "listcomp" and isinstance(node, ast.ListComp) and isinstance(node.elt, ast.Subscript) and isinstance(node.elt.slice, ast.Name) and isinstance(node.generators[0].target, ast.Name) and node.elt.slice.id == node.generators[0].target.id:
        return "[D[k] for k in S]"
    if kind == "dictcomp" and isinstance(node, ast.DictComp) and isinstance(node.value, ast.Subscript) and isinstance(node.key, ast.Name) and norm(node.value.slice) == node.key.id:
        return "{k: D[k] for k in S}"
    if kind == "list" and isinstance(e, ast.Call) and isinstance(e.func, ast.Name) and e.func.id == "set":
        return "list(set(X))"
    if kind == "iter" and isinstance(par, ast.Call) and isinstance(par.func, ast.Name) and par.func.id == "next":
        return "next(iter(S))"
    if kind == "pop":
        dc = enclosing(node, ast.DictComp)
        if dc is not None and dc.value is node and isinstance(dc.generators[0].iter, ast.Call) and norm(dc.generators[0].iter.func).endswith(".items"):
            return "{k: S.pop() for k, S in D.items()}"
    if kind == "list":
        if isinstance(st, ast.Return) and st.value is node:
            return "return list(S)"
        if isinstance(st, ast.Assign) and st.value is node and len(st.targets) == 1 and isinstance(st.targets[0], ast.Name):
            return "T = list(S)"
        if isinstance(par, ast.Call) and isinstance(getattr(par, "_parent", None), ast.Raise):
            return "list(S) in raise-argument"
        if isinstance(st, ast.Raise):
            return "list(S) in raise-argument"
    return None


def _table(f, kind, e, node=None):
    shape = consumer_shape(kind, e, node) if node is not None else None
    top = f
    while top.parent is not None:
        top = top.parent
    for (suffix, k, sh), reason in R1_TABLE.items():
        if k != kind or sh != shape:
            continue
        if f.module.name.endswith(suffix):
            return reason
        # the reviewed code moved as a whole: the entry follows the class it was reviewed in
        owner = R1_OWNER.get((suffix, k, sh))
        if owner is not None and top.cls is not None and top.cls.name == owner:
            return reason
    return None


def _len_of(t, expr_text):
    return isinstance(t, ast.Call) and isinstance(t.func, ast.Name) and t.func.id == "len" and len(t.args) == 1 and norm(t.args[0]) == expr_text


def singleton_guard(facts, expr_text):
    """Do the dominating branch facts imply len(expr) <= 1 ?"""
    lo, hi = common.len_bounds(facts, expr_text)
    return hi is not None and hi <= 1


def _stmt_of(n):
    while n is not None and not isinstance(n, ast.stmt):
        n = getattr(n, "_parent", None)
    return n


def confined_to_raise(node, fnode):
    """The node lies inside a raise statement, or inside a block every path of which ends in raise."""
    st = _stmt_of(node)
    if isinstance(st, ast.Raise):
        return True
    if isinstance(fnode, (ast.FunctionDef, ast.AsyncFunctionDef)) and block_always_raises(fnode.body):
        return True  # a helper that never returns normally (only builds and raises an error)
    child = st
    for par in parents(st):
        if par is fnode:
            break
        for fld in ("body", "orelse"):
            blk = getattr(par, fld, None)
            if isinstance(blk, list) and child in blk and isinstance(par, (ast.If, ast.ExceptHandler, ast.With)):
                if block_always_raises(blk):
                    return True
        child = par
    return False


def _names_loaded(node):
    return {n.id for n in ast.walk(node) if isinstance(n, ast.Name) and isinstance(n.ctx, ast.Load)}


def only_feeds_raise(f, name, after_stmt):
    """Every load of `name` in function f outside the loop `after_stmt` is an argument of len(),
    inside a Raise statement, or inside a block that always raises."""
    for n in walk_no_nested(f.node):
        if isinstance(n, ast.Name) and n.id == name and isinstance(n.ctx, ast.Load):
            if any(p is after_stmt for p in parents(n)):
                continue
            par = getattr(n, "_parent", None)
            if isinstance(par, ast.Call) and isinstance(par.func, ast.Name) and par.func.id in ("len", "bool", "any", "all", "sorted", "set"):
                continue
            if confined_to_raise(n, f.node):
                continue
            return False
    # also not captured by a nested function
    for g in ast.walk(f.node):
        if isinstance(g, (ast.FunctionDef, ast.Lambda)) and g is not f.node:
            if name in _names_loaded(g):
                return False
    return True


def commutative_loop(f, loop):
    """A `for x in <set>` loop whose body cannot make the iteration order observable in a result:
    only loop-local temporaries, counters, set.add, per-key container updates keyed by the loop
    variable, lists that only feed a raise, nested loops/ifs of the same kind, raise/assert/continue.
    `break` and `return` are order-sensitive (first match)."""
    loopvars = {n.id for n in ast.walk(loop.target) if isinstance(n, ast.Name)}
    assigned = set()
    reasons = []

    def keyed_by_loopvar(sub):
        return bool(_names_loaded(sub) & (loopvars | assigned))

    def ok_stmt(st):
        if isinstance(st, (ast.Pass, ast.Continue, ast.Raise, ast.Assert)):
            return True
        if isinstance(st, ast.Assign):
            for t in st.targets:
                if isinstance(t, ast.Name):
                    assigned.add(t.id)
                elif isinstance(t, ast.Subscript) and keyed_by_loopvar(t.slice):
                    pass
                else:
                    reasons.append(f"assignment to {norm(t)}")
                    return False
            return True
        if isinstance(st, ast.AugAssign):
            if isinstance(st.target, ast.Name) and isinstance(st.op, (ast.Add, ast.BitOr, ast.Mult)) and not isinstance(st.value, (ast.List, ast.Tuple, ast.JoinedStr)) and not (isinstance(st.value, ast.Constant) and isinstance(st.value.value, str)):
                assigned.add(st.target.id)
                return True
            reasons.append(f"augmented assignment {norm(st)[:40]}")
            return False
        if isinstance(st, ast.Expr) and isinstance(st.value, ast.Call) and isinstance(st.value.func, ast.Attribute):
            c = st.value
            m = c.func.attr
            base = c.func.value
            if m in ("add", "discard", "update") and not isinstance(base, ast.Subscript):
                return True  # set-like accumulation
            if m in ("append", "extend") and isinstance(base, ast.Subscript) and keyed_by_loopvar(base.slice):
                return True  # per-key slot indexed by the loop variable
            if m in ("append", "extend") and isinstance(base, ast.Name):
                if base.id in assigned or only_feeds_raise(f, base.id, loop):
                    return True
                reasons.append(f"{norm(c.func)} builds an ordered list that is used outside a raise")
                return False
            reasons.append(f"call {norm(c.func)}")
            return False
        if isinstance(st, ast.If):
            return all(ok_stmt(s) for s in st.body + st.orelse)
        if isinstance(st, (ast.For, ast.While)):
            if any(isinstance(x, ast.Break) for x in ast.walk(st)):
                # a break of an *inner* loop is fine if the inner loop iterates something ordered
                pass
            return all(ok_stmt(s) for s in st.body + st.orelse)
        if isinstance(st, ast.Break):
            # break inside an inner loop only (checked by caller: top-level break is rejected)
            return True
        reasons.append(f"statement {type(st).__name__}")
        return False

    # top-level break/return of the outer loop are order-sensitive
    for st in loop.body:
        for x in walk_no_nested(st, include_self=True):
            if isinstance(x, ast.Return):
                return False, "return inside the loop (first match wins)"
            if isinstance(x, ast.Break) and enclosing(x, (ast.For, ast.While)) is loop:
                return False, "break inside the loop (first match wins)"
    ok = all(ok_stmt(s) for s in loop.body + loop.orelse)
    # temporaries assigned in the loop must not be read after it (last-iteration value would leak)
    if ok:
        for nm in assigned:
            for n in walk_no_nested(f.node):
                if isinstance(n, ast.Name) and n.id == nm and isinstance(n.ctx, ast.Load) and n.lineno > loop.end_lineno:
                    if not confined_to_raise(n, f.node) and not _redefined_between(f, nm, loop, n):
                        return False, f"{nm} (assigned in the loop) is read after the loop"
    return ok, "; ".join(reasons)


def _redefined_between(f, name, loop, use):
    for n in walk_no_nested(f.node):
        if isinstance(n, ast.Name) and n.id == name and isinstance(n.ctx, ast.Store) and loop.end_lineno < n.lineno <= use.lineno and not any(p is loop for p in parents(n)):
            return True
    return False


def _def_is_set(st, a, f):
    if isinstance(a, ast.Assign):
        return st.is_set(a.value, f)
    return True


def r1(p, rep):
    rep.rule("C16.R1", "no hash-iteration order reaches an ordered result", "T-TAINT (set-typed values -> order-sensitive consumers)", floor=15)
    st = SetTypes(p)
    rep.info["set_returning_functions"] = sorted(f.qualname for f, v in st.returns_set.items() if v)
    n_sets = 0
    for f in p.funcs.values():
        if any(f.module.name == m for m in common.OFF_PATH_MODULES):
            continue
        cons = st.consumptions(f)
        if not cons:
            continue
        cfg = CFG(f.node)
        rd = None
        for kind, e, node in cons:
            # free variable of a nested function: use the definitions reaching the nested `def` in the parent
            if isinstance(e, ast.Name) and e.id not in p.local_names(f.node) and f.parent is not None and e.id in p.local_names(f.parent.node):
                pcfg = common.cfg_of(f.parent)
                prd = getattr(f.parent, "_rd", None) or ReachingDefs(pcfg)
                f.parent._rd = prd
                dn = pcfg.node_of_stmt.get(id(f.node))
                if dn is not None:
                    defs = set(d[1] for d in prd.OUT[dn.id] if d[0] == e.id)
                    if defs and not any(_def_is_set(st, pcfg.nodes[d].ast, f.parent) for d in defs):
                        continue
            # flow-sensitive refinement for plain names bound in this function
            if isinstance(e, ast.Name) and e.id in p.local_names(f.node):
                rd = rd or ReachingDefs(cfg)
                cn = cfg.node_for(node)
                if cn is not None:
                    defs = rd.defs_reaching(cn, e.id)
                    if defs:
                        anyset = False
                        for d in defs:
                            dn = cfg.nodes[d]
                            a = dn.ast
                            if isinstance(a, ast.Assign):
                                if st.is_set(a.value, f):
                                    anyset = True
                            elif isinstance(a, ast.AugAssign):
                                anyset = anyset or st.is_set(a.value, f) or True
                            elif isinstance(a, (ast.For,)):
                                anyset = True  # loop target bound to a set element (dict-of-sets values)
                            else:
                                anyset = True
                        if not anyset:
                            continue
            n_sets += 1
            site = f"{f.module.rel}:{node.lineno}"
            etext = norm(e)
            key = f"{f.qualname}:{kind}({etext[:50]})"
            par = getattr(node, "_parent", None)
            # (a) order-free by construction
            if kind == "setcomp":
                rep.ok("C16.R1", key, site, "set-to-set comprehension")
                continue
            if kind == "sorted":
                if any(k.arg == "key" for k in node.keywords):
                    rep.violation("C16.R1", key, site, f"sorted({etext}, key=...) keeps hash order among elements with equal keys")
                else:
                    rep.ok("C16.R1", key, site, "sorted() without key")
                continue
            if kind in ("genexp", "listcomp", "list", "tuple") and isinstance(par, ast.Call) and isinstance(par.func, ast.Name) and ((par.func.id in ORDER_FREE_CALLS and not (par.func.id in ("max", "min") and any(k.arg == "key" for k in par.keywords))) or (par.func.id == "sorted" and not par.keywords)):
                rep.ok("C16.R1", key, site, f"consumed by order-free {par.func.id}()")
                continue
            # (a') handed to a helper that only looks at its argument in order-free ways
            if kind in ("genexp", "listcomp", "list", "tuple") and isinstance(par, ast.Call) and _order_free_argument(par, node):
                rep.ok("C16.R1", key, site, f"handed to {norm(par.func)}(), which consumes that argument only through set-building / len / membership")
                continue
            # (b) singleton guard
            facts = cfg.guards_of_ast(node)
            if singleton_guard(facts, etext):
                rep.ok("C16.R1", key, site, f"dominated by a test implying len({etext}) <= 1")
                continue
            # (c) confined to raise
            if confined_to_raise(node, f.node):
                rep.ok("C16.R1", key, site, "only reaches a raise (exception text); the exception class does not depend on it")
                continue
            if kind in ("listcomp", "list", "tuple", "join") and isinstance(_stmt_of(node), ast.Assign):
                a = _stmt_of(node)
                if len(a.targets) == 1 and isinstance(a.targets[0], ast.Name) and a.value is node and only_feeds_raise(f, a.targets[0].id, a):
                    rep.ok("C16.R1", key, site, f"{a.targets[0].id} only feeds a raise")
                    continue
            # (c') the ordered copy is only measured, or read under a test that it has exactly one element
            if kind in ("listcomp", "list", "tuple") and isinstance(_stmt_of(node), ast.Assign):
                a = _stmt_of(node)
                if len(a.targets) == 1 and isinstance(a.targets[0], ast.Name) and a.value is node and _only_singleton_reads(f, cfg, a.targets[0].id, a):
                    rep.ok("C16.R1", key, site, f"{a.targets[0].id} is only measured with len() or read where len({a.targets[0].id}) == 1 holds: the order of one element is not observable")
                    continue
            # (d) commutative loop
            if kind == "for":
                ok, why = commutative_loop(f, node)
                if ok:
                    rep.ok("C16.R1", key, site, "loop body is per-element / commutative or only feeds a raise")
                    continue
                detail = why
            else:
                detail = ""
            # (e) table
            reason = _table(f, kind, e, node)
            if reason:
                rep.exempt("C16.R1", key, site, reason)
                continue
            rep.violation(
                "C16.R1",
                key,
                site,
                f"iteration order of the set `{etext}` (depends on PYTHONHASHSEED for strings/objects) is observable through `{kind}`: {norm(node)[:90]}" + (f" [{detail}]" if detail else ""),
            )
    if n_sets < 10:
        raise AnalysisError(f"only {n_sets} set-typed consumptions found; the set-type inference no longer sees the code")
    rep.assume("the solution set of an equation system does not depend on the order of its equations (sympy)")
    rep.assume("dict iteration order is insertion order (Python >= 3.7); only set/frozenset iteration depends on hashing")


def _only_singleton_reads(f, cfg, name, assign):
    """every read of the local `name` (bound once, by `assign`) is `len(name)`, a membership test, or happens under a
    dominating fact that bounds len(name) to exactly one"""
    stores = [x for x in walk_no_nested(f.node) if isinstance(x, ast.Name) and x.id == name and not isinstance(x.ctx, ast.Load)]
    if len(stores) != 1:
        return False
    loads = [x for x in walk_no_nested(f.node) if isinstance(x, ast.Name) and x.id == name and isinstance(x.ctx, ast.Load)]
    if not loads:
        return False
    for x in loads:
        par = getattr(x, "_parent", None)
        if isinstance(par, ast.Call) and isinstance(par.func, ast.Name) and par.func.id == "len":
            continue
        if isinstance(par, ast.Compare) and x in par.comparators and all(isinstance(o, (ast.In, ast.NotIn)) for o in par.ops):
            continue
        facts = cfg.guards_of_ast(x)
        lo, hi = common.len_bounds(facts, name)
        if lo == 1 and hi == 1:
            continue
        return False
    return True


def _order_free_argument(call, arg):
    """`call` denotes a lexical helper and the parameter receiving `arg` is only iterated into a set, measured,
    tested for membership or fed to an order-free builtin inside it"""
    from sa.cfg import _lookup_def

    h = _lookup_def(call)
    if h is None or h.args.vararg or h.args.kwarg:
        return False
    params = [a.arg for a in h.args.posonlyargs + h.args.args]
    pname = None
    for i, a in enumerate(call.args):
        if a is arg and i < len(params):
            pname = params[i]
    for k in call.keywords:
        if k.value is arg:
            pname = k.arg
    if pname is None:
        return False
    for n in ast.walk(h):
        if isinstance(n, ast.Name) and n.id == pname and isinstance(n.ctx, ast.Store):
            return False
    for n in ast.walk(h):
        if not (isinstance(n, ast.Name) and n.id == pname and isinstance(n.ctx, ast.Load)):
            continue
        par = getattr(n, "_parent", None)
        if isinstance(par, ast.comprehension) and par.iter is n:
            comp = getattr(par, "_parent", None)
            if isinstance(comp, ast.SetComp):
                continue
            outer = getattr(comp, "_parent", None)
            if isinstance(comp, ast.GeneratorExp) and isinstance(outer, ast.Call) and isinstance(outer.func, ast.Name) and outer.func.id in ORDER_FREE_CALLS:
                continue
            return False
        if isinstance(par, ast.Call) and isinstance(par.func, ast.Name) and par.func.id in (ORDER_FREE_CALLS | {"len", "set", "frozenset"}) and n in par.args:
            continue
        if isinstance(par, ast.Compare) and n in par.comparators and all(isinstance(o, (ast.In, ast.NotIn)) for o in par.ops):
            continue
        return False
    return True


FRESH_CALLS = ("uuid.uuid4", "uuid.uuid1")


def r2(p, rep):
    rep.rule("C16.R2", "fresh identifiers (uuid4, id()) only name things", "T-TAINT (FRESHID -> ordering sinks)", floor=8)
    for f in p.funcs.values():
        if any(f.module.name == m for m in common.OFF_PATH_MODULES):
            continue
        for n in walk_no_nested(f.node):
            if not isinstance(n, ast.Call):
                continue
            r = p.resolve_expr(f.module, n.func, f.node)
            is_uuid = r and r[0] == "external" and r[1] in FRESH_CALLS
            is_id = isinstance(n.func, ast.Name) and n.func.id == "id" and not p.is_local(f.node, "id") and "id" not in p.module_namespace(f.module.name)
            if not (is_uuid or is_id):
                continue
            # climb through attribute/.int/str()/f-string to the consuming context
            cur = n
            ctx = "name"
            bad = None
            for par in parents(n):
                if isinstance(par, ast.Subscript) and par.slice is cur:
                    break  # used as a key
                if isinstance(par, (ast.Dict, ast.Tuple, ast.List, ast.Set)):
                    break  # part of a key / container
                if isinstance(par, ast.Call) and cur in par.args and not (isinstance(par.func, ast.Name) and par.func.id in ("str", "int", "repr", "sorted", "min", "max")):
                    break  # handed on as an argument
                if isinstance(par, ast.Call) and isinstance(par.func, ast.Name) and par.func.id == "sorted" and is_id:
                    break  # canonical ordering of identities inside one process, used as a key
                if isinstance(par, ast.Compare):
                    if any(isinstance(o, (ast.Lt, ast.LtE, ast.Gt, ast.GtE)) for o in par.ops):
                        bad = f"ordering comparison {norm(par)}"
                    break
                if isinstance(par, ast.Call) and isinstance(par.func, ast.Name) and par.func.id in ("sorted", "min", "max") and cur in par.args:
                    bad = f"{par.func.id}() over fresh identifiers"
                    break
                if isinstance(par, ast.Lambda):
                    gp = getattr(par, "_parent", None)
                    if isinstance(gp, ast.keyword) and gp.arg == "key":
                        bad = "sort key derived from a fresh identifier"
                    break
                if isinstance(par, ast.BinOp) and isinstance(par.op, (ast.Mod, ast.FloorDiv, ast.BitAnd, ast.RShift)):
                    bad = f"arithmetic on a fresh identifier: {norm(par)}"
                    break
                if isinstance(par, ast.stmt):
                    break
                cur = par
            if is_uuid or bad:
                key = f"{f.qualname}:{'uuid4' if is_uuid else 'id'}:{norm(_stmt_of(n))[:60]}"
                rep.add("C16.R2", key, f"{f.module.rel}:{n.lineno}", bad is None, bad or "fresh identifier flows into a name / key / equality only", nontrivial=is_uuid)
    rep.ok("C16.R2", "summary:id()", "", "every id() call is used as a dict key / identity comparison")


ENTROPY = ("random.", "time.", "os.urandom", "secrets.", "numpy.random", "datetime.")


def r3(p, rep):
    rep.rule("C16.R3", "no other entropy source on the call path", "T-EFF (who may reference)", floor=3)
    hits = 0
    for m in p.modules.values():
        if any(m.name == x for x in common.OFF_PATH_MODULES):
            continue
        for n in ast.walk(m.tree):
            if isinstance(n, (ast.Attribute, ast.Name)) and isinstance(getattr(n, "ctx", None), ast.Load):
                if isinstance(getattr(n, "_parent", None), ast.Attribute):
                    continue  # only maximal chains
                f = p.func_containing(n)
                r = p.resolve_expr(m, n, f.node if f else None)
                if r and r[0] == "external" and (any(r[1].startswith(e) for e in ENTROPY)):
                    hits += 1
                    rep.violation("C16.R3", f"{f.qualname if f else m.name}:{r[1]}", f"{m.rel}:{n.lineno}", f"entropy source {r[1]} referenced on the call path")
                if r and r[0] == "external" and r[1].startswith("os.environ"):
                    where = f.qualname if f else m.name + "::<module>"
                    ok = f is None  # module level: read once when einx is imported - declared configuration of the process, like EINX_CACHE_SIZE
                    rep.add("C16.R3", f"{where}:os.environ", f"{m.rel}:{n.lineno}", ok, "import-time configuration read (an EINX_* setting of the process)" if ok else "environment read at call time: two calls of one process can see different settings")
            if isinstance(n, ast.Call) and isinstance(n.func, ast.Name) and n.func.id == "hash":
                f = p.func_containing(n)
                in_hash = f is not None and f.name == "__hash__"
                if not in_hash and f is not None and f.parent is None and f.cls is None:
                    # a module-level helper that is only ever called from __hash__ methods
                    callers = [g for g in p.funcs.values() if g.module is m and any(isinstance(c_, ast.Call) and isinstance(c_.func, ast.Name) and c_.func.id == f.name for c_ in ast.walk(g.node)) and g is not f]
                    in_hash = bool(callers) and all(g.name == "__hash__" for g in callers)
                rep.add("C16.R3", f"{f.qualname if f else m.name}:hash():{norm(n)[:40]}", f"{m.rel}:{n.lineno}", in_hash, "hash() inside __hash__ (only used for dict/set membership)" if in_hash else "hash() value used outside __hash__ (string hashes vary per process)")
    rep.ok("C16.R3", "summary", "", f"no reference to random/time/urandom/secrets/datetime in {len(p.modules)} modules")


def r4(p, rep):
    rep.rule("C16.R4", "generated code is executed in a namespace created for that compilation only", "T-EFF (exec namespace ownership)", floor=1)
    from . import c04

    f, g, ex, ev, mapping = c04.exec_site(p)
    for c in [x for x in (ex, ev) if x is not None]:
        if len(c.args) < 2:
            rep.violation("C16.R4", f"{f.qualname}:{c.func.id}:namespace", f"{g.module.rel}:{c.lineno}", f"{c.func.id}() runs in the compiler module's own globals")
            continue
        ns = c.args[1]
        key = f"{f.qualname}:{c.func.id}:namespace"
        site = f"{g.module.rel}:{c.lineno}"
        if not isinstance(ns, ast.Name):
            rep.add("C16.R4", key, site, isinstance(ns, ast.Dict), f"namespace expression {norm(ns)}")
            continue
        local = ns.id in p.local_names(g.node) and ns.id not in g.params
        assigns = [a for a in walk_no_nested(g.node) if isinstance(a, ast.Assign) and any(isinstance(t, ast.Name) and t.id == ns.id for t in a.targets)]
        fresh = bool(assigns) and all(isinstance(a.value, (ast.Dict, ast.DictComp)) or (isinstance(a.value, ast.Call) and isinstance(a.value.func, ast.Name) and a.value.func.id == "dict") for a in assigns)
        rep.add(
            "C16.R4",
            key,
            site,
            local and fresh,
            f"{c.func.id}() namespace `{ns.id}` is a dict created inside {g.name} for this compilation" if local and fresh else f"{c.func.id}() namespace `{ns.id}` is not a fresh local dict: constants (const1, ...) of later compilations overwrite those of earlier compiled functions",
        )


def run(p, rep, tier):
    r1(p, rep)
    r2(p, rep)
    r3(p, rep)
    r4(p, rep)
    rep.info["undecided"] = "bit-identity of numerical results and floating-point re-association inside the frameworks"
