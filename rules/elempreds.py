"""Element predicates: which filter conditions is a value known to satisfy, given how it was obtained?

    xs = {v for v in items if v.ok}          every element of xs satisfies `_v.ok` (plus what elements of items satisfy)
    xs = {v for v in xs if pred(v, s)}       ... and the inlined body of pred
    x  = xs.pop() / next(iter(xs)) / xs[0]   x satisfies the element predicates of xs   (a *selection*)
    x  = helper(xs)                          what every non-None return of helper satisfies (parameters mapped)
    a if c else None                         what a satisfies

Conditions are returned as ASTs in which the element is the name `_v`; helper bodies are written out with the cfg
expansion (one-line / straight-line predicate helpers, boolean and alias locals).  Used by C04.R6 (which variable may
lose its name) so that the rule does not depend on whether the filters are written inline, as named predicates, or
inside small selection helpers.  Anything not understood contributes no predicate (the rule then reports that it
cannot establish the filter, never that the filter is absent when it merely moved)."""

from __future__ import annotations

import ast

from sa.cfg import CFG, _clone, _lookup_def, _set_parents
from sa.core import norm, walk_no_nested


class _Rename(ast.NodeTransformer):
    def __init__(self, mapping):
        self.mapping = mapping

    def visit_Name(self, n):
        if n.id in self.mapping:
            new = _clone(self.mapping[n.id]) if isinstance(self.mapping[n.id], ast.AST) else ast.Name(id=self.mapping[n.id], ctx=ast.Load())
            return ast.copy_location(new, n)
        return n


def rename(expr, mapping):
    new = _Rename(mapping).visit(_clone(expr))
    ast.fix_missing_locations(new)
    _set_parents(new)
    return new


class Result:
    def __init__(self, preds=None, selections=None, unknown=False):
        self.preds = preds or []  # [ast expr over `_v`]
        self.selections = selections or []  # [(selection expr node, fnode)]
        self.unknown = unknown

    def texts(self):
        return [norm(x) for x in self.preds]


class ElemPreds:
    def __init__(self):
        self._cfgs = {}

    def cfg(self, fnode):
        if id(fnode) not in self._cfgs:
            self._cfgs[id(fnode)] = CFG(fnode)
        return self._cfgs[id(fnode)]

    def _built_by_loop(self, name, defnode, fnode, env, depth):
        """`S = set(); for v in X: <guards with continue>; S.add(v)`: elements satisfy what guards the add"""
        cfg = self.cfg(fnode)
        adds = []
        for c in walk_no_nested(fnode):
            if isinstance(c, ast.Call) and isinstance(c.func, ast.Attribute) and c.func.attr in ("add", "append") and isinstance(c.func.value, ast.Name) and c.func.value.id == name and len(c.args) == 1:
                nd = cfg.node_for(c)
                if nd is not None and defnode.id in cfg._rd().defs_reaching(nd, name):
                    adds.append(c)
        if not adds:
            return Result(unknown=True)
        results = []
        for c in adds:
            loop = c
            while loop is not None and not isinstance(loop, ast.For):
                loop = getattr(loop, "_parent", None)
            if loop is None or not (isinstance(loop.target, ast.Name) and isinstance(c.args[0], ast.Name) and c.args[0].id == loop.target.id):
                return Result(unknown=True)
            v = loop.target.id
            base = self.of(loop.iter, fnode, env, depth + 1)
            preds = list(base.preds)
            for t, pol in cfg.guards_of_ast(c):
                if t is None or not any(isinstance(y, ast.Name) and y.id == v for y in ast.walk(t)):
                    continue
                t2 = rename(t, {k: e[0] for k, e in env.items() if k != v})
                t2 = rename(t2, {v: "_v"})
                if not pol:
                    t2 = ast.UnaryOp(op=ast.Not(), operand=t2)
                    ast.fix_missing_locations(t2)
                preds.append(t2)
            results.append(Result(preds, base.selections, base.unknown))
        common = None
        for r in results:
            ts = {norm(x): x for x in r.preds}
            common = ts if common is None else {k: v_ for k, v_ in common.items() if k in ts}
        return Result(list((common or {}).values()), [s_ for r in results for s_ in r.selections], any(r.unknown for r in results))

    # env: {param name: (expr, fnode, env)} for the helper currently being looked into
    def of(self, expr, fnode, env=None, depth=0):
        env = env or {}
        if depth > 8 or expr is None:
            return Result(unknown=True)
        cfg = self.cfg(fnode)
        if isinstance(expr, ast.Name):
            if expr.id in env:
                e2, f2, env2 = env[expr.id]
                return self.of(e2, f2, env2, depth + 1)
            at = cfg.node_for(expr)
            if at is None:
                return Result(unknown=True)
            defs = cfg._rd().defs_reaching(at, expr.id)
            if len(defs) != 1:
                return Result(unknown=True)
            d = cfg.nodes[defs[0]]
            st = d.ast
            if d.kind == "stmt" and isinstance(st, ast.Assign) and len(st.targets) == 1 and isinstance(st.targets[0], ast.Name):
                v = st.value
                empty = (isinstance(v, ast.Call) and norm(v.func) in ("set", "list") and not v.args) or (isinstance(v, (ast.List, ast.Set)) and not v.elts)
                if empty:
                    return self._built_by_loop(expr.id, d, fnode, env, depth)
                return self.of(st.value, fnode, env, depth + 1)
            return Result(unknown=True)
        if isinstance(expr, (ast.SetComp, ast.ListComp, ast.GeneratorExp)) and len(expr.generators) == 1:
            g = expr.generators[0]
            if not (isinstance(g.target, ast.Name) and isinstance(expr.elt, ast.Name) and expr.elt.id == g.target.id):
                return Result(unknown=True)
            base = self.of(g.iter, fnode, env, depth + 1)
            preds = list(base.preds)
            at = cfg.node_for(expr)
            for cond in g.ifs:
                c2 = cfg.expand(cond, at) if at is not None else cond
                # parameters of the enclosing helper stand for the caller's expressions
                c2 = rename(c2, {k: v[0] for k, v in env.items() if k != g.target.id})
                preds.append(rename(c2, {g.target.id: "_v"}))
            return Result(preds, base.selections, base.unknown)
        if isinstance(expr, ast.Call):
            fn = norm(expr.func)
            if isinstance(expr.func, ast.Attribute) and expr.func.attr == "pop" and not expr.args:
                r = self.of(expr.func.value, fnode, env, depth + 1)
                return Result(r.preds, r.selections + [(expr, fnode)], r.unknown)
            if fn == "next" and expr.args:
                inner = expr.args[0]
                if isinstance(inner, ast.Call) and norm(inner.func) == "iter" and inner.args:
                    inner = inner.args[0]
                r = self.of(inner, fnode, env, depth + 1)
                return Result(r.preds, r.selections + [(expr, fnode)], r.unknown)
            if fn in ("set", "list", "tuple", "frozenset", "sorted") and len(expr.args) == 1:
                return self.of(expr.args[0], fnode, env, depth + 1)
            h = _lookup_def(expr)
            if h is not None and not h.args.vararg and not h.args.kwarg:
                params = [a.arg for a in h.args.posonlyargs + h.args.args]
                env2 = {}
                for i, a in enumerate(expr.args):
                    if i < len(params) and not isinstance(a, ast.Starred):
                        env2[params[i]] = (a, fnode, env)
                for k in expr.keywords:
                    if k.arg:
                        env2[k.arg] = (k.value, fnode, env)
                rets = [r for r in walk_no_nested(h) if isinstance(r, ast.Return) and r.value is not None and not (isinstance(r.value, ast.Constant) and r.value.value is None)]
                if not rets:
                    return Result(unknown=True)
                results = [self.of(r.value, h, env2, depth + 1) for r in rets]
                common = None
                for r in results:
                    ts = {norm(x): x for x in r.preds}
                    common = ts if common is None else {k: v for k, v in common.items() if k in ts}
                return Result(list((common or {}).values()), [s for r in results for s in r.selections], any(r.unknown for r in results))
            return Result(unknown=True)
        if isinstance(expr, ast.Subscript) and isinstance(expr.slice, ast.Constant) and isinstance(expr.slice.value, int):
            r = self.of(expr.value, fnode, env, depth + 1)
            return Result(r.preds, r.selections + [(expr, fnode)], r.unknown)
        if isinstance(expr, ast.IfExp):
            none = lambda x: isinstance(x, ast.Constant) and x.value is None  # noqa: E731
            if none(expr.orelse):
                return self.of(expr.body, fnode, env, depth + 1)
            if none(expr.body):
                return self.of(expr.orelse, fnode, env, depth + 1)
            a, b = self.of(expr.body, fnode, env, depth + 1), self.of(expr.orelse, fnode, env, depth + 1)
            tb = {norm(x) for x in b.preds}
            return Result([x for x in a.preds if norm(x) in tb], a.selections + b.selections, a.unknown or b.unknown)
        if isinstance(expr, ast.Attribute):
            return Result()  # a plain collection (`statement.input_variables`): nothing known about its elements
        return Result(unknown=True)
