"""C01 - every built-in operation computes exactly its loop-notation meaning.

The value semantics of the lowering are out of reach of static analysis.  Decided (a small part):
 R1 op-table closure: public wrappers, family lists, backend tables and signature tables all line up
 R2 name <-> primitive agreement in all 7 classical tables and signature classes
 R3 an unsupported operation raises the documented error class
 R4 [S] the alignment permutation iterates the output axes and indexes the input axes
 R6 no lowering returns without applying the elementary operation (no shortcut around `op`)
 R7 the un-bracketed reduction shorthand marks exactly the axes missing from the output (shape clause)
"""

from __future__ import annotations

import ast

from sa.core import register_cache  # noqa: E402

from sa.cfg import CFG
from sa.core import AnalysisError, LiteralEvaluator, NotLiteral, attr_chain, enclosing, norm, parents, resolve_callee, walk_no_nested

from . import backends, common

# table name -> accepted primitive names (reason: the framework names the same function differently)
ALIASES = {
    "max": {"amax", "max", "reduce_max"}, "min": {"amin", "min", "reduce_min"},
    "sum": {"sum", "reduce_sum"}, "mean": {"mean", "reduce_mean"}, "var": {"var", "reduce_variance"}, "std": {"std", "reduce_std"},
    "prod": {"prod", "reduce_prod"}, "any": {"any", "reduce_any"}, "all": {"all", "reduce_all"},
    "logsumexp": {"logsumexp", "reduce_logsumexp"}, "count_nonzero": {"count_nonzero"},
    "equal": {"equal", "eq"}, "not_equal": {"not_equal", "ne"}, "negative": {"negative", "neg"},
    "less": {"less", "lt"}, "less_equal": {"less_equal", "le"}, "greater": {"greater", "gt"}, "greater_equal": {"greater_equal", "ge"},
    "true_divide": {"true_divide", "truediv", "divide", "div"}, "divide": {"divide", "div", "true_divide", "truediv"}, "floor_divide": {"floor_divide", "floordiv", "idiv"},
    "subtract": {"subtract", "sub"}, "multiply": {"multiply", "mul"}, "add": {"add"},
    "concatenate": {"concatenate", "cat", "concat"}, "transpose": {"transpose", "permute", "permute_dims"}, "broadcast_to": {"broadcast_to", "expand"},
    "flip": {"flip", "reverse"}, "arange": {"arange", "range"}, "split": {"split"}, "dot": {"dot", "tensordot"}, "matmul": {"matmul"},
    "get_at": {"__getitem__", "take", "gather"}, "logical_and": {"logical_and"}, "logical_or": {"logical_or"}, "where": {"where"},
    "maximum": {"maximum"}, "minimum": {"minimum"}, "logaddexp": {"logaddexp"}, "exp": {"exp"}, "log": {"log"}, "divmod": {"divmod"},
    "sort": {"sort"}, "argsort": {"argsort"}, "roll": {"roll"}, "softmax": {"softmax"}, "log_softmax": {"log_softmax"},
    "argmax": {"argmax"}, "argmin": {"argmin"}, "reshape": {"reshape"}, "diagonal": {"diagonal"}, "stop_gradient": {"stop_gradient"},
    "einsum": {"einsum"},
}
# names whose table entry is composed from other entries (no single primitive to compare)
# spellings of one operation across array libraries, for operations the reviewed table above does not list
SPELLING_FAMILIES = [{"power", "pow"}, {"abs", "absolute"}, {"remainder", "mod", "fmod"}, {"arctan2", "atan2"}, {"arcsin", "asin"}, {"arccos", "acos"}, {"arctan", "atan"}, {"negative", "neg"}, {"concatenate", "concat", "cat"}, {"clip", "clamp"}, {"bitwise_not", "invert"}, {"round", "rint"}]
COMPOSED_OK = {"set_at", "add_at", "subtract_at", "diagonal", "stop_gradient", "divmod"}

# per-backend reviewed deviations: (framework, table name) -> (primitive, reason)
BACKEND_ALIASES = {
    ("tinygrad", "less"): ("__lt__", "tinygrad exposes comparisons as dunder methods"),
    ("tinygrad", "less_equal"): ("__le__", "tinygrad exposes comparisons as dunder methods"),
    ("tinygrad", "greater"): ("__gt__", "tinygrad exposes comparisons as dunder methods"),
    ("tinygrad", "greater_equal"): ("__ge__", "tinygrad exposes comparisons as dunder methods"),
    ("tinygrad", "equal"): ("__eq__", "tinygrad exposes comparisons as dunder methods"),
    ("tinygrad", "not_equal"): ("__ne__", "tinygrad exposes comparisons as dunder methods"),
    ("tinygrad", "logical_and"): ("mul", "tinygrad has no logical_and; on boolean tensors mul is the conjunction"),
    ("tinygrad", "logical_or"): ("add", "tinygrad has no logical_or; on boolean tensors add is the disjunction"),
    ("tinygrad", "count_nonzero"): ("sum", "tinygrad has no count_nonzero; sum equals the count only for boolean / 0-1 input. Suspicious, but tinygrad is not installed here so it cannot be confirmed against the real code (see DESIGN section 6, 'seen, not confirmable')"),
    ("tinygrad", "argsort"): ("sort", "tinygrad Tensor.sort returns (values, indices); the entry takes element [1]"),
    ("arrayapi", "get_at"): ("getitem", "local `getitem` is xp.getitem when available, else x[indices]"),
}


def public_wrappers(p):
    m = p.module("einx._src.frontend.ops")
    out = []
    for f in p.funcs.values():
        if f.module is m and f.parent is None and any(norm(d) == "api" for d in f.node.decorator_list):
            out.append(f)
    out += generated_wrappers(p, m)
    if len(out) < 40:
        raise AnalysisError(f"anchor vanished: expected >= 40 @api wrappers in frontend/ops.py, found {len(out)}")
    return out


_GENERATED = register_cache({})


def generated_wrappers(p, m):
    """`name = _make_op("name", ...)` at module level, where the factory defines an `@api` function and returns it: the
    wrapper as it exists under the public name (factory parameters replaced by the arguments of that call)"""
    from sa.cfg import _clone, _set_parents
    from sa.core import Func

    if "_generated_wrappers" in p.__dict__:
        return p.__dict__["_generated_wrappers"]
    out = []
    for st in m.tree.body:
        if not (isinstance(st, ast.Assign) and len(st.targets) == 1 and isinstance(st.targets[0], ast.Name) and isinstance(st.value, ast.Call)):
            continue
        r = resolve_callee(p, st.value, m)
        if not (r and r[0] == "func" and r[1].module is m and r[1].parent is None):
            continue
        fac = r[1]
        inner = [g for g in p.funcs.values() if g.parent is fac and any(norm(d) == "api" for d in g.node.decorator_list)]
        rets = [x for x in walk_no_nested(fac.node) if isinstance(x, ast.Return) and isinstance(x.value, ast.Name)]
        if len(inner) != 1 or len(rets) != 1 or rets[0].value.id != inner[0].name:
            continue
        call = st.value
        if any(isinstance(a, ast.Starred) for a in call.args) or any(k.arg is None for k in call.keywords):
            continue
        params = fac.params
        mapping = {}
        for i, a in enumerate(call.args):
            if i < len(params):
                mapping[params[i]] = a
        for k in call.keywords:
            mapping[k.arg] = k.value
        node = _clone(inner[0].node)

        class Sub(ast.NodeTransformer):
            def visit_Name(self, n):
                if isinstance(n.ctx, ast.Load) and n.id in mapping:
                    return ast.copy_location(_clone(mapping[n.id]), n)
                return n

        node.body = [Sub().visit(b) for b in node.body]
        # getattr(backend, "name") reads as backend.name
        class G(ast.NodeTransformer):
            def visit_Call(self, c):
                self.generic_visit(c)
                if isinstance(c.func, ast.Name) and c.func.id == "getattr" and len(c.args) == 2 and isinstance(c.args[1], ast.Constant) and isinstance(c.args[1].value, str) and c.args[1].value.isidentifier():
                    return ast.copy_location(ast.Attribute(value=c.args[0], attr=c.args[1].value, ctx=ast.Load()), c)
                return c

        node.body = [G().visit(b) for b in node.body]
        node.name = st.targets[0].id
        node.lineno = st.lineno
        ast.fix_missing_locations(node)
        _set_parents(node)
        node._parent = m.tree
        f = Func(qualname=f"{m.name}::{node.name}", module=m, node=node, cls=None, parent=None)
        p.func_of_node[id(node)] = f
        out.append(f)
    p.__dict__["_generated_wrappers"] = out
    return out


def family_lists(p):
    m = p.module("einx._src.adapter.ops")
    ev = LiteralEvaluator(p, m)
    out = {}
    for name in ("elementwise", "reduce", "update_at", "preserve_shape", "argfind", "all"):
        try:
            out[name] = list(ev.name(name))
        except NotLiteral as e:
            raise AnalysisError(f"adapter.ops.{name} is not a literal list: {e}") from e
    return out


def name_to_op_keys(p, fam):
    m = p.module("adapter.einx_from_namedtensor")
    vals = p.module_var(m, "_name_to_op")
    # the table is evaluated as a literal (dict displays, `**` spreads, `|` unions, comprehensions over the family
    # lists of adapter/ops.py, dict.fromkeys, dict(...)): only the keys matter
    try:
        d = LiteralEvaluator(p, m).eval(vals[0])
    except Exception as e:
        raise AnalysisError(f"unrecognised idiom: the key set of einx_from_namedtensor._name_to_op cannot be evaluated ({e})") from e
    if not isinstance(d, dict):
        raise AnalysisError("unrecognised idiom: einx_from_namedtensor._name_to_op is not a dict")
    return set(d.keys())


def classical_reads(p):
    """attributes read from a parameter named `classical` anywhere in adapter/*.py (required table entries)"""
    req = {}
    for f in p.funcs.values():
        if not f.module.name.startswith("einx._src.adapter") or f.module.name.count(".") > 3:
            continue
        for n in walk_no_nested(f.node):
            if isinstance(n, ast.Attribute) and isinstance(n.value, ast.Name) and n.value.id == "classical" and isinstance(n.ctx, ast.Load):
                cfg = common.cfg_of(f)
                if any(norm(t).startswith("hasattr(classical,") and pol for t, pol in cfg.guards_of_ast(n)):
                    continue  # optional capability, probed with hasattr
                req.setdefault(n.attr, f"{f.module.rel}:{n.lineno}")
    return req


def r1(p, rep):
    rep.rule("C01.R1", "operation tables are closed (wrapper -> family -> backend table -> signature table)", "T-TAB", floor=300)
    fam = family_lists(p)
    keys = name_to_op_keys(p, fam)
    wrappers = public_wrappers(p)
    # (a) every wrapper dispatches to the same-named backend operation
    for f in wrappers:
        rets = [r for r in walk_no_nested(f.node) if isinstance(r, ast.Return)]
        opname, bcall = common.backend_call_of(p, f) if len(rets) == 1 else (None, None)
        ok = opname == f.name
        rep.add("C01.R1", f"{f.qualname}:dispatch", f.loc, ok, f"einx.{f.name} -> backend.{f.name}" if ok else f"einx.{f.name} returns `{norm(bcall.func) if bcall is not None else '?'}`: the public name computes a different operation")
        rep.add("C01.R1", f"{f.qualname}:in-family-table", f.loc, f.name in keys, f"{f.name} has a family constructor in _name_to_op" if f.name in keys else f"public operation {f.name} has no entry in einx_from_namedtensor._name_to_op")
    # (b) family lists are covered by _name_to_op and by the public wrappers
    wn = {f.name for f in wrappers}
    internal_only = {"exp", "log", "negative"}
    for name in fam["all"]:
        rep.add("C01.R1", f"adapter.ops:{name}:constructor", "einx/_src/adapter/ops.py", name in keys, "has a family constructor")
        if name not in internal_only:
            rep.add("C01.R1", f"adapter.ops:{name}:public", "einx/_src/adapter/ops.py", name in wn, "has a public wrapper" if name in wn else f"{name} is listed in adapter.ops but has no public wrapper")
    # (c) every backend table defines what the lowering reads
    req = classical_reads(p)
    fam_names = set(fam["elementwise"]) | set(fam["reduce"]) | set(fam["update_at"]) | set(fam["preserve_shape"]) | set(fam["argfind"])
    sig = backends.signature_classes(p)
    for fw, cls in backends.classical_ops(p).items():
        regs = {r.name: r for r in backends.registrations(p, cls)}
        for name in sorted(set(req) | fam_names):
            ok = name in regs
            rep.add("C01.R1", f"{cls.qualname}:defines:{name}", cls.loc, ok, "defined" if ok else f"the {fw} classical table lacks `{name}` (read at {req.get(name, 'getattr(classical, name) over adapter.ops')}): AttributeError while the backend is built turns the whole backend into an InvalidBackend")
        # (d) every namespace attribute used is defined by the signature class
        ns = backends.namespace_params(cls)
        defined = set()
        for sc in sig[fw] + ([c for c in sig["numpy"]] if fw in ("jax",) else []):
            init = sc.methods.get("__init__")
            if init is None:
                continue
            s = init.node.args.args[0].arg
            for n in walk_no_nested(init.node):
                if isinstance(n, ast.Assign):
                    for t in n.targets:
                        ch = attr_chain(t)
                        if ch and ch[0] == s:
                            for i in range(2, len(ch) + 1):
                                defined.add(".".join(ch[1:i]))
        if not defined:
            raise AnalysisError(f"signature class of {fw} defines no attributes")
        aliases = backends.local_namespace_aliases(cls)
        init = cls.methods["__init__"]
        # local sub-namespaces: jnp = jax.numpy
        submap = {}
        for n in walk_no_nested(init.node):
            if isinstance(n, ast.Assign) and len(n.targets) == 1 and isinstance(n.targets[0], ast.Name):
                ch = attr_chain(n.value)
                if ch and ch[0] in ns:
                    submap[n.targets[0].id] = ".".join(ch[1:])
        seen = set()
        for n in ast.walk(init.node):
            if isinstance(n, ast.Attribute) and not isinstance(getattr(n, "_parent", None), ast.Attribute) and isinstance(n.ctx, ast.Load):
                ch = attr_chain(n)
                if not ch or ch[0] not in aliases or len(ch) < 2:
                    continue
                path = ".".join(([submap[ch[0]]] if ch[0] in submap and submap[ch[0]] else []) + ch[1:])
                if path in seen:
                    continue
                seen.add(path)
                parts = path.split(".")
                ok = any(".".join(parts[:i]) in defined for i in range(len(parts), 0, -1) if ".".join(parts[:i]) in defined) or parts[0] in defined
                # attributes reached through a traced value (np.ndarray.__getitem__) are defined level by level
                ok = ok and (path in defined or any(path.startswith(d + ".") for d in defined))
                rep.add("C01.R1", f"{cls.qualname}:ns:{path}", f"{cls.module.rel}:{n.lineno}", ok, "traced primitive defined by the signature class" if ok else f"`{'.'.join(ch)}` is used by the {fw} table but tracer/signature/classical/{fw}.py defines no `{path}`: AttributeError at backend construction (the backend silently becomes invalid)")


def r2(p, rep):
    rep.rule("C01.R2", "table name and primitive name agree", "T-TAB (alias table)", floor=250)
    unreviewed = {}
    for fw, cls in backends.classical_ops(p).items():
        ns = backends.local_namespace_aliases(cls)
        local_prims = backends.local_alias_targets(cls)
        for r in backends.registrations(p, cls):
            prims = [path.split(".")[-1] for path, n in r.primitives(ns)]
            # only the primitive handed to the combinator as first argument names the operation
            first = None
            if isinstance(r.value, ast.Call) and r.value.args:
                a0 = r.value.args[0]
                while isinstance(a0, ast.Call) and a0.args and isinstance(a0.func, ast.Name):
                    a0 = a0.args[0]  # _associative_binary_to_nary(np.add) / _fixed_arity(np.exp, 1) / partial(f, ...)
                ch = attr_chain(a0)
                if ch and len(ch) == 1 and ch[0] in local_prims:
                    first = sorted(local_prims[ch[0]])[0] if len(local_prims[ch[0]]) == 1 else None  # `getitem = xp.getitem`
                elif ch and ch[0] in ns:
                    first = ch[-1]
                elif isinstance(a0, ast.Lambda):
                    calls = [attr_chain(c.func) for c in ast.walk(a0.body) if isinstance(c, ast.Call)]
                    calls = [c for c in calls if c and c[0] in ns]
                    if calls:
                        first = calls[0][-1]
            if first is None or r.name in COMPOSED_OK:
                rep.ok("C01.R2", f"{cls.qualname}:{r.name}", r.site, "composed entry / no single primitive", nontrivial=False)
                continue
            allowed = ALIASES.get(r.name, {r.name})
            if r.name not in ALIASES and first != r.name:
                # an operation that was added after the alias table was reviewed: the table cannot say which framework
                # spellings mean it.  Judged by agreement instead: the backends must use the same primitive up to the
                # generic spelling families below; the odd one out is reported
                unreviewed.setdefault(r.name, []).append((fw, cls, r, first))
                continue
            if r.name not in ALIASES:
                unreviewed.setdefault(r.name, []).append((fw, cls, r, first))
            ba = BACKEND_ALIASES.get((fw, r.name))
            if ba and first == ba[0]:
                rep.exempt("C01.R2", f"{cls.qualname}:{r.name}", r.site, f"{r.name} <- {first}: {ba[1]}")
                continue
            ok = first in allowed or first == r.name
            rep.add("C01.R2", f"{cls.qualname}:{r.name}", r.site, ok, f"{r.name} <- {first}" if ok else f"the {fw} table entry `{r.name}` is implemented by `{first}` (accepted: {sorted(allowed)}): the operation computes something else on this backend")
    fam = lambda nm: next((min(g) for g in SPELLING_FAMILIES if nm in g), nm)  # noqa: E731
    for opname, regs in sorted(unreviewed.items()):
        if all(first == opname for _, _, _, first in regs):
            continue  # already reported as agreeing with the table name
        votes = {}
        for fw, cls, r, first in regs:
            votes.setdefault(fam(first), []).append(fw)
        top = max(votes.items(), key=lambda kv: (len(kv[1]), kv[0] == fam(opname)))[0]
        for fw, cls, r, first in regs:
            if first == opname:
                continue
            ok = fam(first) == top and (len(votes[top]) >= 2 or fam(first) == fam(opname))
            rep.add("C01.R2", f"{cls.qualname}:{r.name}", r.site, ok, f"{r.name} <- {first} (operation added after the alias table was reviewed; {len(votes[top])} backend(s) use this primitive family)" if ok else f"the {fw} table entry `{r.name}` is implemented by `{first}`, while {len(votes[top])} sibling backend(s) implement it by `{top}`: the operation computes something else on this backend")
    for fw, classes in backends.signature_classes(p).items():
        for c in classes:
            init = c.methods.get("__init__")
            if init is None:
                continue
            s = init.node.args.args[0].arg
            params = [a.arg for a in init.node.args.args[1:]]
            locals_ns = set(params)
            for n in walk_no_nested(init.node):
                if isinstance(n, ast.Assign) and len(n.targets) == 1 and isinstance(n.targets[0], ast.Name):
                    locals_ns.add(n.targets[0].id)
            for n in walk_no_nested(init.node):
                if isinstance(n, ast.Assign) and isinstance(n.value, ast.Call) and n.value.args:
                    tch = attr_chain(n.targets[0])
                    if not (tch and tch[0] == s):
                        continue
                    a0 = n.value.args[0]
                    ach = attr_chain(a0)
                    if not (ach and ach[0] in locals_ns and len(ach) >= 2):
                        continue
                    name, prim = tch[-1], ach[-1]
                    if tch[-1] == "at" and len(tch) >= 3:
                        name, prim = ".".join(tch[-2:]), ".".join(ach[-2:])
                    allowed = ALIASES.get(name, {name}) | {name}
                    ok = prim in allowed
                    rep.add("C01.R2", f"{c.qualname}:{'.'.join(tch[1:])}", f"{c.module.rel}:{n.lineno}", ok, f"{name} <- {prim}" if ok else f"signature entry `{'.'.join(tch[1:])}` traces `{'.'.join(ach)}`: generated code calls a different framework function than the table name says")


def r3(p, rep):
    rep.rule("C01.R3", "an operation a backend cannot express raises OperationNotSupportedError", "T-EFF (raise class)", floor=3)
    be = p.cls("Backend", "frontend.backend")
    ga = be.methods.get("__getattr__")
    if ga is None:
        raise AnalysisError("anchor vanished: Backend.__getattr__")
    raises = [r for r in ast.walk(ga.node) if isinstance(r, ast.Raise)]
    kinds = [common.raised_class(p, ga.module, r, ga.node) for r in raises]
    ok = bool(kinds) and all(k == ("errors", "OperationNotSupportedError") for k in kinds)
    guard = any(isinstance(n, ast.If) and "not in self.ops" in norm(n.test) for n in ast.walk(ga.node))
    rep.add("C01.R3", f"{ga.qualname}:unsupported", ga.loc, ok and guard, "an operation missing from the backend's table raises OperationNotSupportedError when called" if ok and guard else f"Backend.__getattr__ raises {kinds} for a missing operation")
    for f in p.funcs_named("_unsupported_op.op"):
        kinds = [common.raised_class(p, f.module, r, f.node) for r in walk_no_nested(f.node) if isinstance(r, ast.Raise)]
        ok = bool(kinds) and all(k == ("errors", "OperationNotSupportedError") for k in kinds) and common.block_always_raises(f.node.body)
        rep.add("C01.R3", f"{f.qualname}:raises", f.loc, ok, "raises OperationNotSupportedError unconditionally" if ok else f"raises {kinds}")


def _provenance(f, e, params, depth=0):
    """Which of the given parameters do the *elements* of expression e come from?  Follows assignments from calls
    (function of its arguments), comprehensions (elements of the iterated sequence, filters ignored), append loops."""
    if depth > 8 or e is None:
        return set()
    if isinstance(e, ast.Name):
        if e.id in params:
            return {e.id}
        out = set()
        for n in walk_no_nested(f.node):
            if isinstance(n, ast.Assign) and any(isinstance(t, ast.Name) and t.id == e.id for t in n.targets):
                out |= _provenance(f, n.value, params, depth + 1)
            elif isinstance(n, ast.Call) and isinstance(n.func, ast.Attribute) and n.func.attr in ("append", "extend") and isinstance(n.func.value, ast.Name) and n.func.value.id == e.id and n.args:
                a = n.args[0]
                # the appended element: a loop variable -> provenance of what is iterated
                loop = enclosing(n, ast.For)
                if isinstance(a, ast.Name) and loop is not None and any(isinstance(x, ast.Name) and x.id == a.id for x in ast.walk(loop.target)):
                    out |= _provenance(f, loop.iter, params, depth + 1)
                else:
                    out |= _provenance(f, a, params, depth + 1)
        return out
    if isinstance(e, (ast.ListComp, ast.GeneratorExp, ast.SetComp)):
        g = e.generators[0]
        if isinstance(e.elt, ast.Name) and any(isinstance(x, ast.Name) and x.id == e.elt.id for x in ast.walk(g.target)):
            return _provenance(f, g.iter, params, depth + 1)
        return _provenance(f, g.iter, params, depth + 1)
    if isinstance(e, ast.Call):
        out = set()
        for a in e.args:
            out |= _provenance(f, a, params, depth + 1)
        return out
    if isinstance(e, (ast.Attribute, ast.Subscript)):
        return _provenance(f, e.value, params, depth + 1)
    if isinstance(e, (ast.List, ast.Tuple)):
        out = set()
        for x in e.elts:
            out |= _provenance(f, x, params, depth + 1)
        return out
    return set()


def r4(p, rep):
    rep.rule("C01.R4", "the alignment permutation iterates output axes and indexes input axes", "T-DER [S]", floor=1)
    f = p.func("_squeeze_transpose_broadcast", "adapter._util")
    tcalls = [n for n in walk_no_nested(f.node) if isinstance(n, ast.Call) and norm(n.func).endswith(".transpose")]
    if not tcalls:
        raise AnalysisError("unrecognised idiom: no classical.transpose call in _squeeze_transpose_broadcast")
    p_in, p_out = f.params[1], f.params[3]
    roles = {p_in: "IN", p_out: "OUT"}

    from . import ir

    def perm_comprehensions(e, depth=0):
        """comprehensions that define expression e (through names / tuple() / list())"""
        if depth > 5 or e is None:
            return []
        if isinstance(e, (ast.ListComp, ast.GeneratorExp)):
            return [e]
        if isinstance(e, ast.Call) and isinstance(e.func, ast.Name) and e.func.id in ("tuple", "list") and e.args:
            return perm_comprehensions(e.args[0], depth + 1)
        if isinstance(e, ast.Name):
            out = []
            for n in walk_no_nested(f.node):
                if isinstance(n, ast.Assign) and any(isinstance(t, ast.Name) and t.id == e.id for t in n.targets):
                    out += perm_comprehensions(n.value, depth + 1)
            return out
        return []

    def sources(e, without=()):
        """which of the two expressions (IN / OUT) the value is computed from: data dependence through locals, loops,
        tables filled in loops and module helpers that only read their argument"""
        names, _ = ir.derive(f.node, e)
        return {x for x in (p_in, p_out) if x in names}

    for tc in tcalls:
        parg = tc.args[1] if len(tc.args) > 1 else None
        comps = perm_comprehensions(parg)
        if not comps:
            raise AnalysisError("unrecognised idiom in _squeeze_transpose_broadcast: the permutation handed to transpose is not built by a comprehension")
        for d in comps:
            g = d.generators[0]
            po = _provenance(f, g.iter, {p_in, p_out})  # whose elements are enumerated (filters do not count)
            # the element without its own loop variable: what is looked up for each axis
            tv = {t.id for t in ast.walk(g.target) if isinstance(t, ast.Name)}
            lookups = [x for x in ast.walk(d.elt) if isinstance(x, ast.Name) and isinstance(x.ctx, ast.Load) and x.id not in tv]
            pi = set()
            for x in lookups:
                pi |= sources(x)
            ri = "/".join(sorted(roles[x] for x in pi)) or "?"
            ro = "/".join(sorted(roles[x] for x in po)) or "?"
            ok = po == {p_out} and p_in in pi
            rep.add("C01.R4", f"{f.qualname}:perm", f"{f.module.rel}:{tc.lineno}", ok, f"`{norm(d)[:70]}`: for each {ro} axis its position in the {ri} axes" + ("" if ok else " - np.transpose expects, per output position, the index of the input axis; the inverse permutation gives correct shapes only when the swapped axes have equal length"))


LOWERING_MODULES = ("adapter.decomposednamedtensor_from_classical", "adapter.decomposednamedtensor_from_vmap", "adapter.decomposednamedtensor_from_einsum", "adapter.elementary_from_classical")


def r6(p, rep):
    rep.rule("C01.R6", "no lowering returns without applying the elementary operation", "T-MPT (every return dominated by the op call)", floor=8)
    n = 0
    for f in p.funcs.values():
        if not any(f.module.name.endswith(m) for m in LOWERING_MODULES) or f.parent is None:
            continue
        outer = f.parent
        if "op" not in outer.params or outer.parent is not None:
            continue
        opnames = {"op"}
        # aliases: op_in = op ; op = _ensure_output(op_in, ...)
        for g in (outer, f):
            for x in walk_no_nested(g.node):
                if isinstance(x, ast.Assign) and len(x.targets) == 1 and isinstance(x.targets[0], ast.Name):
                    if isinstance(x.value, ast.Name) and x.value.id in opnames:
                        opnames.add(x.targets[0].id)
                    if isinstance(x.value, ast.Call) and any(isinstance(a, ast.Name) and a.id in opnames for a in x.value.args) and norm(x.value.func).endswith("_ensure_output"):
                        opnames.add(x.targets[0].id)
        calls = [c for c in walk_no_nested(f.node) if isinstance(c, ast.Call) and isinstance(c.func, ast.Name) and c.func.id in opnames and not norm(c.func) == "_ensure_output"]
        calls = [c for c in calls if not (isinstance(getattr(c, "_parent", None), ast.Call) and norm(getattr(c, "_parent").func).endswith("_ensure_output"))]
        if not calls:
            continue
        cfg = CFG(f.node)
        cnodes = [cfg.node_for(c) for c in calls]
        for r in walk_no_nested(f.node):
            if isinstance(r, ast.Return) and r.value is not None:
                n += 1
                rn = cfg.node_for(r)
                ok = any(cn is not None and (cfg.dominates(cn, rn) or cn is rn) for cn in cnodes) or not cfg.can_reach(cfg.entry, rn, avoid=[c for c in cnodes if c is not None])
                rep.add("C01.R6", f"{f.qualname}:return({norm(r.value)[:30]})", f"{f.module.rel}:{r.lineno}", ok, "every path to this return applies the elementary operation" if ok else "a path returns a result without calling the elementary operation (e.g. a 'no-op' shortcut): for operations that are not the identity on that input (var/std/count_nonzero/any/all over zero axes ...) the value is wrong although the shape is right")
    if n < 8:
        raise AnalysisError(f"only {n} lowering returns found")


def r7(p, rep):
    rep.rule("C01.R7", "family flags follow the documented per-operation rules", "T-TAB", floor=10)
    from . import c14

    c14.r3(p, rep, rid="C01.R7", only_update=False)

AXIS_OPS = {"sum", "mean", "var", "std", "prod", "count_nonzero", "all", "any", "min", "max", "amin", "amax", "logsumexp", "flip", "roll", "sort", "argsort", "softmax", "log_softmax", "argmax", "argmin", "cumsum"}
AXIS_KEYWORDS = ("axis", "axes", "dim", "dims", "dimension", None)  # None: **kwargs built from the axis


def r8(p, rep):
    rep.rule("C01.R8", "a lowering that is asked to work along `axis` hands that axis to every primitive it applies to the operand", "T-SIB (parameter forwarding by provenance)", floor=8)
    from sa.cfg import CFG

    for f in p.funcs.values():
        if not any(s in f.module.name for s in ("._src.adapter.", "._src.frontend.impl.")) or "axis" not in f.params or f.parent is None:
            continue
        derived, tens = {"axis"}, ({f.params[0]} if f.params[0] not in ("self", "axis") else set())
        changed = True
        while changed:
            changed = False
            for a in walk_no_nested(f.node):
                if isinstance(a, ast.Assign):
                    for dset in (derived, tens):
                        if any(isinstance(x, ast.Name) and x.id in dset for x in ast.walk(a.value)):
                            for t in a.targets:
                                for y in ast.walk(t):
                                    if isinstance(y, ast.Name) and y.id not in dset:
                                        dset.add(y.id)
                                        changed = True
        factory = f.parent
        encl = set()
        g = f.parent
        while g is not None:
            encl |= set(g.params)
            g = g.parent
        primitive = factory.params[0] if factory.params else None
        cfg = None
        for c in walk_no_nested(f.node):
            if not isinstance(c, ast.Call) or not c.args:
                continue
            if not any(isinstance(x, ast.Name) and x.id in tens for x in ast.walk(c.args[0])):
                continue
            if isinstance(c.func, ast.Attribute) and c.func.attr in AXIS_OPS:
                ch = attr_chain(c.func)
                if not ch or not (ch[0] in encl or ch[0] in tens):
                    continue
                what = f"table operation `{norm(c.func)}`"
            elif isinstance(c.func, ast.Name) and c.func.id == primitive and primitive in encl:
                what = f"the primitive `{primitive}`"
            else:
                continue
            axargs = [k.value for k in c.keywords if k.arg in AXIS_KEYWORDS] + list(c.args[1:])
            ok = any(isinstance(x, ast.Name) and x.id in derived for e in axargs for x in ast.walk(e))
            key = f"{f.qualname}:{norm(c.func)}:axis"
            site = f"{f.module.rel}:{c.lineno}"
            if not ok:
                cfg = cfg or CFG(f.node)
                special = [norm(t) for t, pol in cfg.guards_of_ast(c) if t is not None and any(isinstance(x, ast.Name) and x.id in derived for x in ast.walk(t))]
                if special:
                    rep.ok("C01.R8", key + ":special-case", site, f"{what} is applied without an axis only under the special case {special[-1][:60]}")
                    continue
            rep.add("C01.R8", key, site, ok, f"{what} receives an axis derived from the `axis` parameter" if ok else f"{what} is applied to the operand without the `axis` the lowering was asked for (`{norm(c)[:70]}`): it works over all elements instead of per slice, so the loop iterations are no longer independent (e.g. one global maximum in softmax)")

def _selector(fnode, value, depth=0, p=None, module=None):
    """which element of a collection of concatenated axes is taken: 'first' / 'last' / other description / None"""
    if depth > 3:
        return None
    if isinstance(value, ast.Name):
        # `found = helper(expr)` ... `index, node = found`
        ds = [a.value for a in walk_no_nested(fnode) if isinstance(a, ast.Assign) and len(a.targets) == 1 and isinstance(a.targets[0], ast.Name) and a.targets[0].id == value.id]
        if len(ds) == 1:
            return _selector(fnode, ds[0], depth + 1, p, module)
        return None
    if p is not None and isinstance(value, ast.Call):
        r = resolve_callee(p, value, module)
        if r and r[0] == "func" and r[1].module is module:
            g = r[1].node
            # helper that scans and returns at the first match: `for i, e in enumerate(x): if isinstance(e, C): return i, e`
            for loop in [n for n in walk_no_nested(g) if isinstance(n, ast.For)]:
                hit = [st for st in ast.walk(loop) if isinstance(st, ast.If) and any(norm(y).endswith("ConcatenatedAxis") for y in ast.walk(st.test)) and any(isinstance(z, ast.Return) for z in st.body)]
                if hit:
                    return "last" if "reversed(" in norm(loop.iter) else "first"
            rets = [n for n in walk_no_nested(g) if isinstance(n, ast.Return) and n.value is not None]
            if len(rets) == 1:
                return _selector(g, rets[0].value, depth + 1, p, module)

    def mentions_concat(e):
        if any(isinstance(x, ast.Attribute) and x.attr == "ConcatenatedAxis" or isinstance(x, ast.Name) and x.id == "ConcatenatedAxis" for x in ast.walk(e)):
            return True
        for x in ast.walk(e):
            if isinstance(x, ast.Name):
                for a in walk_no_nested(fnode):
                    if isinstance(a, ast.Assign) and any(isinstance(t, ast.Name) and t.id == x.id for t in a.targets) and a.value is not e:
                        if any(isinstance(y, (ast.Attribute, ast.Name)) and norm(y).endswith("ConcatenatedAxis") for y in ast.walk(a.value)):
                            return True
                        # ... or collected by a helper of the module (`concat_axes = _concatenated_axes(expr)`)
                        if p is not None and isinstance(a.value, ast.Call):
                            rr = resolve_callee(p, a.value, module)
                            if rr and rr[0] == "func" and any(isinstance(y, (ast.Attribute, ast.Name)) and norm(y).endswith("ConcatenatedAxis") for y in ast.walk(rr[1].node)):
                                return True
        return False

    if isinstance(value, ast.Subscript) and isinstance(value.slice, ast.Constant) and mentions_concat(value.value):
        return {0: "first", -1: "last"}.get(value.slice.value, f"index {value.slice.value}")
    if isinstance(value, ast.Subscript) and isinstance(value.slice, ast.UnaryOp) and isinstance(value.slice.op, ast.USub) and isinstance(value.slice.operand, ast.Constant) and mentions_concat(value.value):
        return "last" if value.slice.operand.value == 1 else f"index -{value.slice.operand.value}"
    if isinstance(value, ast.Call) and mentions_concat(value):
        fn = norm(value.func)
        if fn == "next":
            inner = value.args[0] if value.args else None
            if isinstance(inner, ast.Call) and norm(inner.func) == "reversed":
                return "last"
            return "first"
        if fn.endswith(".popitem"):
            return "last"
        if fn.endswith(".pop"):
            if value.args and isinstance(value.args[0], ast.Constant) and value.args[0].value == 0:
                return "first"
            return "last" if not value.args else None
        if fn in ("min", "max"):
            return fn
    return None


def r9(p, rep):
    rep.rule("C01.R9", "splitting an expression at a concatenation and re-assembling it walk the concatenated axes in the same order", "T-SIB (the two directions of the decomposer pick the same axis)", floor=2)
    cls = p.cls("Decomposer", "adapter.namedtensor_from_decomposednamedtensor")
    picks = []
    for m in cls.methods.values():
        for a in walk_no_nested(m.node):
            if isinstance(a, ast.Assign) and len(a.targets) == 1 and isinstance(a.targets[0], ast.Tuple) and len(a.targets[0].elts) == 2:
                sel = _selector(m.node, a.value, 0, p, m.module)
                if sel is not None:
                    picks.append((m, a, sel))
    if len(picks) < 2:
        raise AnalysisError(f"unrecognised idiom: expected the decomposer to pick a concatenated axis in both directions, found {len(picks)} site(s)")
    ref = picks[0][2]
    for m, a, sel in picks:
        ok = sel == ref
        rep.add("C01.R9", f"{m.qualname}:concatenated-axis-pick", f"{m.module.rel}:{a.lineno}", ok, f"takes the {sel} concatenated axis" if ok else f"{m.name} takes the {sel} concatenated axis of an expression, {picks[0][0].name} the {ref} one: with two concatenations in one expression ('(a + b) (c + d)') the pieces are produced in one nesting order and consumed in the other, so blocks end up swapped (silently when the block sizes allow the final reshape)")


def window_loops(fnode):
    """[(seq, k, m, range call)] for loops `for i in range(len(seq) - k)` whose body reads seq[i + m], m > 0"""
    out = []
    for node in walk_no_nested(fnode):
        gens = []
        if isinstance(node, (ast.ListComp, ast.SetComp, ast.GeneratorExp, ast.DictComp)):
            gens = [(g.target, g.iter, node) for g in node.generators]
        elif isinstance(node, ast.For):
            gens = [(node.target, node.iter, node)]
        for tgt, it, body in gens:
            if not (isinstance(tgt, ast.Name) and isinstance(it, ast.Call) and isinstance(it.func, ast.Name) and it.func.id == "range" and len(it.args) == 1):
                continue
            b = it.args[0]
            k, seq = None, None
            if isinstance(b, ast.BinOp) and isinstance(b.op, ast.Sub) and isinstance(b.right, ast.Constant) and isinstance(b.right.value, int) and isinstance(b.left, ast.Call) and norm(b.left.func) == "len" and b.left.args:
                k, seq = b.right.value, norm(b.left.args[0])
            elif isinstance(b, ast.Call) and norm(b.func) == "len" and b.args:
                k, seq = 0, norm(b.args[0])
            if seq is None:
                continue
            offs = []
            simple = True
            for x in ast.walk(body):
                if isinstance(x, ast.Subscript) and norm(x.value) == seq:
                    sl = x.slice
                    if isinstance(sl, ast.Name) and sl.id == tgt.id:
                        offs.append(0)
                    elif isinstance(sl, ast.BinOp) and isinstance(sl.op, ast.Add) and isinstance(sl.left, ast.Name) and sl.left.id == tgt.id and isinstance(sl.right, ast.Constant) and isinstance(sl.right.value, int):
                        offs.append(sl.right.value)
                    elif isinstance(sl, ast.BinOp) and isinstance(sl.op, ast.Add) and isinstance(sl.right, ast.Name) and sl.right.id == tgt.id and isinstance(sl.left, ast.Constant) and isinstance(sl.left.value, int):
                        offs.append(sl.left.value)
                    elif any(isinstance(y, ast.Name) and y.id == tgt.id for y in ast.walk(sl)):
                        simple = False
            if not simple or not offs or max(offs) == 0:
                continue
            out.append((seq, k, max(offs), it))
    return out


def r10(p, rep):
    rep.rule("C01.R10", "a loop over adjacent pairs / windows of a sequence covers all of them: range(len(xs) - k) with xs[i + m] needs k == m", "bounds lint (window width vs range bound) with a positive self-check", floor=1)
    import os

    n = 0
    for f in p.funcs.values():
        if not isinstance(f.node, (ast.FunctionDef, ast.AsyncFunctionDef)):
            continue
        for seq, k, m, it in window_loops(f.node):
            n += 1
            ok = k == m
            rep.add("C01.R10", f"{f.qualname}:window({seq})", f"{f.module.rel}:{it.lineno}", ok, f"range(len({seq}) - {k}) with {seq}[i + {m}]: all windows are visited" if ok else (f"range(len({seq}) - {k}) but the body reads {seq}[i + {m}]: " + ("the last window(s) are never compared (e.g. the last pair of bracketed axes is not checked for adjacency, so a needed transpose is skipped)" if k > m else "the last iteration indexes past the end (IndexError)")))
    # window loops may legitimately disappear (pairs via zip(xs, xs[1:])): the lint is kept honest by a positive example
    pos = os.path.join(os.path.dirname(os.path.dirname(os.path.abspath(__file__))), "selftest", "positive", "window_bounds.py")
    tree = ast.parse(open(pos).read())
    from sa.core import set_parents

    set_parents(tree)
    fns = {x.name: x for x in tree.body if isinstance(x, ast.FunctionDef)}
    bad = [(k, m) for _, k, m, _ in window_loops(fns["bad"])]
    good = [(k, m) for _, k, m, _ in window_loops(fns["good"])]
    if bad != [(2, 1)] or good != [(1, 1)]:
        raise AnalysisError("self-check of the window-bounds lint failed on selftest/positive/window_bounds.py")
    rep.ok("C01.R10", "self-check:positive-example", "selftest/positive/window_bounds.py", "the lint reports the seeded positive example (range(len(xs) - 2) with xs[i + 1]) and accepts its corrected twin")
    rep.ok("C01.R10", "sweep", "einx/", f"{n} window loops in the package inspected", nontrivial=False)
    return n


def r13(p, rep):
    rep.rule("C01.R13", "a lowering that labels its result with the requested output expression has arranged the value for it: the returned value depends on `out`", "data dependence of the returned value on the `out` parameter (flow-insensitive closure)", floor=3)
    from . import ir

    n = 0
    for f in p.funcs.values():
        if not any(f.module.name.endswith(m) for m in LOWERING_MODULES) or not isinstance(f.node, ast.FunctionDef) or "out" not in f.params:
            continue
        if any(isinstance(x, ast.Name) and x.id == "out" and not isinstance(x.ctx, ast.Load) for x in walk_no_nested(f.node)):
            continue  # `out` is re-bound: not the caller's expression any more
        for r in walk_no_nested(f.node):
            if isinstance(r, ast.Return) and isinstance(r.value, ast.Call) and norm(r.value.func).split(".")[-1] == "NamedTensor" and len(r.value.args) == 2 and isinstance(r.value.args[1], ast.Name) and r.value.args[1].id == "out":
                n += 1
                # dependence on the expression itself; reading only `out.shape` / `out.ndim` (to check the result) arranges nothing
                binds = ir._bindings(f.node)
                seen_, todo, ok = set(), [r.value.args[0]], False
                while todo and not ok:
                    e = todo.pop()
                    for x in ast.walk(e):
                        if isinstance(x, ast.Name) and isinstance(x.ctx, ast.Load):
                            if x.id == "out":
                                par = getattr(x, "_parent", None)
                                if not (isinstance(par, ast.Attribute) and par.value is x and par.attr in ("shape", "ndim")):
                                    ok = True
                            elif x.id not in seen_:
                                seen_.add(x.id)
                                todo += list(binds.get(x.id, []))
                rep.add("C01.R13", f"{f.qualname}:labelled-out", f"{f.module.rel}:{r.lineno}", ok, "the value returned under the label `out` is computed from `out` (rearranged / shaped for it)" if ok else f"`{norm(r.value)}` attaches the requested output expression to a value that was computed without looking at it: when the output permutes the kept axes ('a [b] c -> c a') the data is in input order but labelled in output order - silently transposed for equal lengths")
    if n < 3:
        raise AnalysisError(f"only {n} lowering results labelled with `out` found")
    return n


def _axis_positions(fnode):
    """[(call, axis name, X, enumerated expression E, ok)] for calls `g(X.value, .., axis=<name>)` whose axis name is
    bound once to something that enumerates E"""
    out = []
    for c in walk_no_nested(fnode):
        if not (isinstance(c, ast.Call) and c.args and isinstance(c.args[0], ast.Attribute) and c.args[0].attr == "value" and isinstance(c.args[0].value, ast.Name)):
            continue
        ax = common.kwarg(c, "axis")
        if not isinstance(ax, ast.Name):
            continue
        X = c.args[0].value.id
        defs = [a.value for a in walk_no_nested(fnode) if isinstance(a, ast.Assign) and any(isinstance(t, ast.Name) and t.id == ax.id for t in a.targets)]
        if len(defs) != 1:
            continue
        enums = [e for e in ast.walk(defs[0]) if isinstance(e, ast.Call) and isinstance(e.func, ast.Name) and e.func.id == "enumerate" and len(e.args) == 1]
        if len(enums) != 1 or not isinstance(enums[0].args[0], (ast.Name, ast.Attribute)):
            continue
        E = enums[0].args[0]
        own = {f"{X}.expr"} | {t.id for a in walk_no_nested(fnode) if isinstance(a, ast.Assign) and norm(a.value) == f"{X}.expr" for t in a.targets if isinstance(t, ast.Name)}
        # X itself may have been built as NamedTensor(.., E)
        built = {norm(a.value.args[1]) for a in walk_no_nested(fnode) if isinstance(a, ast.Assign) and any(isinstance(t, ast.Name) and t.id == X for t in a.targets) and isinstance(a.value, ast.Call) and norm(a.value.func).split(".")[-1] == "NamedTensor" and len(a.value.args) == 2}
        out.append((c, ax.id, X, E, norm(E) in own or norm(E) in built))
    return out


def r14(p, rep):
    rep.rule("C01.R14", "an axis position handed to a backend call on `T.value` is counted in T's own expression, not in another tensor's or the requested output's", "T-DER (where the position of an `axis=` argument is enumerated vs whose value it is applied to) with a positive self-check", floor=1)
    import os

    from sa.core import set_parents

    n = 0
    for f in p.funcs.values():
        if not f.module.name.startswith("einx._src.adapter") or not isinstance(f.node, ast.FunctionDef):
            continue
        for c, axn, X, E, ok in _axis_positions(f.node):
            n += 1
            rep.add("C01.R14", f"{f.qualname}:axis({axn})@{X}", f"{f.module.rel}:{c.lineno}", ok, f"`{axn}` is enumerated over `{norm(E)}`, the expression of `{X}`" if ok else f"`{norm(c)[:70]}` applies positions counted in `{norm(E)}` to `{X}.value`, which is arranged as `{X}.expr`: when the two list their axes in different orders (an output that moves the bracketed axis) the operation hits a different axis - right shape, wrong values")
    pos = os.path.join(os.path.dirname(os.path.dirname(os.path.abspath(__file__))), "selftest", "positive", "axis_of_other_expr.py")
    tree = ast.parse(open(pos).read())
    set_parents(tree)
    fns = {x.name: x for x in tree.body if isinstance(x, ast.FunctionDef)}
    b_, g_ = _axis_positions(fns["bad"]), _axis_positions(fns["good"])
    if not (len(b_) == 1 and not b_[0][4] and len(g_) == 1 and g_[0][4]):
        raise AnalysisError("self-check of C01.R14 failed on selftest/positive/axis_of_other_expr.py")
    rep.ok("C01.R14", "self-check:positive-example", "selftest/positive/axis_of_other_expr.py", "the rule reports the seeded positive example and accepts its corrected twin")
    rep.ok("C01.R14", "sweep", "einx/_src/adapter", f"{n} axis positions applied to a named tensor's value", nontrivial=False)


def r12(p, rep):
    rep.rule("C01.R12", "the three operand expressions of the batched-matmul lowering of dot are built from shared axis groups: the batch group is the same list in left, right and out; every other group is used by exactly two of them", "T-SIB (source list of each group of the three matmul expressions)", floor=1)
    m = p.module("adapter.decomposednamedtensor_from_classical")
    hosts = [f for f in p.funcs.values() if f.module is m and isinstance(f.node, ast.FunctionDef) and any(isinstance(c, ast.Call) and isinstance(c.func, ast.Attribute) and c.func.attr == "matmul" for c in walk_no_nested(f.node))]
    if not hosts:
        raise AnalysisError("anchor vanished: no function of decomposednamedtensor_from_classical calls classical.matmul")
    n = 0
    for f in hosts:
        def root(name, depth=0):
            """follow plain aliases / copies (`x = y`, `x = list(y)`) to the list a group is built from"""
            if depth > 3:
                return name
            defs = [a.value for a in walk_no_nested(f.node) if isinstance(a, ast.Assign) and len(a.targets) == 1 and isinstance(a.targets[0], ast.Name) and a.targets[0].id == name]
            if len(defs) == 1:
                v = defs[0]
                if isinstance(v, ast.Name):
                    return root(v.id, depth + 1)
                if isinstance(v, ast.Call) and isinstance(v.func, ast.Name) and v.func.id in ("list", "tuple") and len(v.args) == 1 and isinstance(v.args[0], ast.Name):
                    return root(v.args[0].id, depth + 1)
            return name

        def source(elt):
            gens = [g for x in ast.walk(elt) if isinstance(x, (ast.ListComp, ast.GeneratorExp)) for g in x.generators]
            names = [g.iter.id for g in gens if isinstance(g.iter, ast.Name)]
            if len(names) == 1:
                return root(names[0])
            # group(names): a helper applied to the list
            if isinstance(elt, ast.Call) and len(elt.args) == 1 and isinstance(elt.args[0], ast.Name):
                return root(elt.args[0].id)
            return None

        triples = []
        for c in walk_no_nested(f.node):
            if isinstance(c, ast.Call) and norm(c.func).endswith("List.create") and len(c.args) == 1 and isinstance(c.args[0], (ast.List, ast.Tuple)) and len(c.args[0].elts) == 3:
                srcs = [source(e) for e in c.args[0].elts]
                if all(srcs):
                    triples.append((c, srcs))
        if len(triples) != 3:
            # built by a local helper: `matmul_expr(batch, left_keep, contract)`
            nested = {g.name: g for g in p.funcs.values() if g.parent is f}
            triples = []
            for c in walk_no_nested(f.node):
                if isinstance(c, ast.Call) and isinstance(c.func, ast.Name) and c.func.id in nested and len(c.args) == 3 and all(isinstance(a, ast.Name) for a in c.args) and not c.keywords and "List.create" in norm(nested[c.func.id].node):
                    triples.append((c, [root(a.id) for a in c.args]))
        if len(triples) != 3:
            raise AnalysisError(f"unrecognised idiom: expected three 3-group expressions (left, right, out) in {f.qualname}, found {len(triples)}")
        n += 1
        firsts = {t[1][0] for t in triples}
        count = {}
        for _, srcs in triples:
            for s_ in srcs[1:]:
                count[s_] = count.get(s_, 0) + 1
        ok = len(firsts) == 1 and all(v == 2 for v in count.values()) and len(count) == 3
        # a raw matmul result that is handed on under a label of its own (an intermediate of an n-ary contraction) is laid out
        # as batch, left-only, right-only: its label lists the axes of exactly these three groups in this order
        out_t = None
        for t in triples:
            others = [u for u in triples if u is not t]
            # out = (batch, left-only, right-only): its second group is some operand's second group (the left one's) and its
            # third group some operand's third group (the right one's); the contracted group sits at different positions
            if any(u[1][1] == t[1][1] for u in others) and any(u[1][2] == t[1][2] for u in others):
                out_t = t
        if ok and out_t is not None:
            out_vars = {a.targets[0].id for a in walk_no_nested(f.node) if isinstance(a, ast.Assign) and len(a.targets) == 1 and isinstance(a.targets[0], ast.Name) and any(x is out_t[0] for x in ast.walk(a.value))}
            for c in walk_no_nested(f.node):
                if isinstance(c, ast.Call) and norm(c.func).split(".")[-1] == "NamedTensor" and len(c.args) == 2 and isinstance(c.args[1], ast.Name) and c.args[1].id not in out_vars and c.args[1].id not in f.params:
                    defs = [a.value for a in walk_no_nested(f.node) if isinstance(a, ast.Assign) and len(a.targets) == 1 and isinstance(a.targets[0], ast.Name) and a.targets[0].id == c.args[1].id]
                    if len(defs) != 1 or not (isinstance(defs[0], ast.Call) and norm(defs[0].func).endswith("List.create") and len(defs[0].args) == 1):
                        continue
                    gens = [g for x in ast.walk(defs[0].args[0]) if isinstance(x, (ast.ListComp, ast.GeneratorExp)) for g in x.generators]
                    if len(gens) != 1:
                        continue
                    parts, it = [], gens[0].iter
                    while isinstance(it, ast.BinOp) and isinstance(it.op, ast.Add):
                        parts.insert(0, it.right)
                        it = it.left
                    parts.insert(0, it)
                    if not all(isinstance(x, ast.Name) for x in parts):
                        continue
                    got = [root(x.id) for x in parts]
                    good = got == list(out_t[1])
                    rep.add("C01.R12", f"{f.qualname}:label({c.args[1].id})", f"{m.rel}:{c.lineno}", good, f"`{c.args[1].id}` lists the axes as {got}: the layout of the matmul result" if good else f"`{norm(c)[:60]}` labels a raw matmul result with the axes of {got}, but the result is laid out as {list(out_t[1])} (batch, left-only, right-only): when an axis kept from the left operand precedes a batch axis the data is read as transposed by the next contraction - right shape, wrong values")
        rep.add("C01.R12", f"{f.qualname}:shared-groups", f"{m.rel}:{triples[0][0].lineno}", ok, f"batch group {sorted(firsts)} shared by all three; other groups {sorted(count)} each used twice" if ok else f"the three matmul expressions are built from {[t[1] for t in triples]}: the batch group differs between the operands (or a group is used by one expression only), so with two batch axes listed in different order in the two operands the flattened batch dimensions pair element (i, j) with (j, i)")
    return n


def r11(p, rep):
    rep.rule("C01.R11", "in the per-backend operation tables an entry named N is built by the adapter function N (and no declared entry is dead)", "T-TAB (key vs builder) + dead-operand check on dict unions", floor=1)
    fam = family_lists(p)
    _FAM.clear()
    _FAM.update(fam)
    universe = set(fam["all"]) | {"id", "dot", "get_at"}
    for fw, m in backends.impl_modules(p).items():
        for f in p.funcs.values():
            if f.module is not m:
                continue
            for d in walk_no_nested(f.node):
                # (a) "name": adapter.<module>.<builder>(...)
                if isinstance(d, ast.Dict):
                    for k, v in zip(d.keys, d.values):
                        if isinstance(k, ast.Constant) and isinstance(k.value, str) and isinstance(v, ast.Call):
                            ch = attr_chain(v.func)
                            if ch and ch[0] == "adapter" and ch[-1] in universe and k.value in universe:
                                ok = ch[-1] == k.value
                                rep.add("C01.R11", f"{f.qualname}:entry:{k.value}", f"{m.rel}:{v.lineno}", ok, f"{k.value!r} is built by {'.'.join(ch)}" if ok else f"the {fw} table entry {k.value!r} is built by `{'.'.join(ch)}`: calling einx.{k.value} on this backend computes {ch[-1]}")
                # (b) a | b | c : an operand whose keys are all overridden by a later operand is dead
                if isinstance(d, ast.BinOp) and isinstance(d.op, ast.BitOr) and not (isinstance(getattr(d, "_parent", None), ast.BinOp) and isinstance(getattr(d, "_parent").op, ast.BitOr)):
                    ops = []
                    x = d
                    while isinstance(x, ast.BinOp) and isinstance(x.op, ast.BitOr):
                        ops.insert(0, x.right)
                        x = x.left
                    ops.insert(0, x)
                    keysets = [_dict_keys(p, f, o) for o in ops]
                    if any(k is None for k in keysets) or len(ops) < 2:
                        continue
                    for i, ks in enumerate(keysets):
                        later = set().union(*keysets[i + 1 :]) if i + 1 < len(keysets) else set()
                        dead = bool(ks) and ks <= later
                        rep.add("C01.R11", f"{f.qualname}:union:operand{i}:{','.join(sorted(ks))[:40]}", f"{m.rel}:{ops[i].lineno}", not dead, f"operand {i} of the table union contributes {len(ks - later)} of its {len(ks)} entries" if not dead else f"every entry of `{norm(ops[i])[:60]}` ({sorted(ks)}) is overridden by a later operand of the `|` union: the declaration has no effect (e.g. operations declared unsupported are silently replaced by the generic lowering and no longer raise OperationNotSupportedError)")
    rep.ok("C01.R11", "sweep", "einx/_src/frontend/impl", "all literal table entries and table unions of the seven factory modules inspected (tables filled by `table[name] = getattr(builders, name)(...)` agree by construction)")


_FAM = register_cache({})


def _dict_keys(p, f, e, depth=0):
    """constant key set of a dict expression (literal, comprehension over a literal op list, local name), else None"""
    if depth > 3:
        return None
    if isinstance(e, ast.Dict):
        if all(isinstance(k, ast.Constant) for k in e.keys):
            return {k.value for k in e.keys}
        return None
    if isinstance(e, ast.DictComp) and len(e.generators) == 1 and isinstance(e.key, ast.Name) and isinstance(e.generators[0].target, ast.Name) and e.key.id == e.generators[0].target.id and not e.generators[0].ifs:
        it = e.generators[0].iter
        ch = attr_chain(it)
        if ch and len(ch) >= 2 and ch[-2] == "ops" and ch[-1] in _FAM:
            return set(_FAM[ch[-1]])  # adapter.ops.<family>
        try:
            vals = LiteralEvaluator(p, f.module).eval(it)
            return set(vals)
        except Exception:
            return None
    if isinstance(e, ast.Name):
        ds = [a.value for a in walk_no_nested(f.node) if isinstance(a, ast.Assign) and len(a.targets) == 1 and isinstance(a.targets[0], ast.Name) and a.targets[0].id == e.id]
        if len(ds) == 1:
            return _dict_keys(p, f, ds[0], depth + 1)
        return None
    if isinstance(e, ast.BinOp) and isinstance(e.op, ast.BitOr):
        a, b = _dict_keys(p, f, e.left, depth + 1), _dict_keys(p, f, e.right, depth + 1)
        return None if a is None or b is None else a | b
    return None


def run(p, rep, tier):
    r14(p, rep)
    r1(p, rep)
    r2(p, rep)
    r3(p, rep)
    r4(p, rep)
    r6(p, rep)
    r7(p, rep)
    r8(p, rep)
    r9(p, rep)
    r10(p, rep)
    r11(p, rep)
    r12(p, rep)
    r13(p, rep)
    from . import c14 as _c14

    _c14.r7(p, rep)  # table entries built in a loop must each keep their own primitive
    from . import c11 as _c11

    _c11.r8(p, rep)  # a backend whose factory module deviates from its siblings behaves differently for this property
    from . import c05, c14

    rep.rule("C05.R1", "merged transpose = inner permutation indexed by the outer permutation", "T-DER [S]", floor=1)
    c05.r1(p, rep)
    rep.rule("C05.R2", "merged reshape keeps the outer shape and the innermost operand", "T-DER [S]", floor=1)
    c05.r2(p, rep)
    rep.info["undecided"] = "the value semantics of decompose/compose, alignment, diagonal extraction, ravel arithmetic and einsum strings; e.g. the non-adjacent diagonal 'a e a d -> a d e' is wrong on this tree and is not found by any rule"
