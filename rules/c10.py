"""C10 - concurrent use from several threads behaves like some serial order.

Decided clauses (lock discipline / ownership; not linearizability itself):
 R1 lock discipline on the registry: an attribute written under `with self.<lock>` anywhere is
    read-modify-written under that lock everywhere (Engler-style belief rule)
 R2 published registry snapshots are immutable: self-mutating methods are only invoked on a
    freshly constructed local copy; the copy constructor does not alias containers
 R3 per-thread context: every long-lived object that is mutated during a call is a
    threading.local, lock-protected, a snapshot (R2) or provably per-call
 R4 lock order is acyclic
 R5 the compilation cache is functools' (thread-safe) cache, not a hand-written memo
"""

from __future__ import annotations

import ast

from sa.core import register_cache  # noqa: E402

from sa.core import AnalysisError, ClassInfo, attr_chain, chain_root, enclosing, norm, parents, resolve_callee, src, walk_no_nested

from . import common

MUTATORS = {"append", "extend", "pop", "insert", "remove", "clear", "update", "add", "discard", "setdefault", "popitem", "sort", "reverse", "__setitem__", "__delitem__", "appendleft", "popleft"}


def _is_threading(p, module, node, names, scope=None):
    """Is `node` a call of threading.<one of names>?"""
    if not isinstance(node, ast.Call):
        return False
    r = p.resolve_expr(module, node.func, scope)
    return bool(r and r[0] == "external" and r[1] in {f"threading.{n}" for n in names})


def self_name(f):
    return f.node.args.args[0].arg if f.node.args.args else None


def lock_attrs(p, c):
    """Attributes of class c initialised in __init__ from threading.Lock()/RLock()."""
    out = {}
    for attr, vals in p.self_attr_table(c).items():
        for v in vals:
            if _is_threading(p, c.module, v, ("Lock", "RLock"), c.methods["__init__"].node):
                out[attr] = "RLock" if "RLock" in src(v.func) else "Lock"
    return out


def locked_regions(f, selfname, lock):
    """AST nodes (With statements or Try statements) in method f that hold self.<lock>:
    `with self.lock:` and `self.lock.acquire(); try: ... finally: self.lock.release()`."""
    regions = []
    want = f"{selfname}.{lock}"
    # the lock may be bound to a local first (`lock = self.use_lock`)
    wants = {want} | {t.id for a in ast.walk(f.node) if isinstance(a, ast.Assign) and norm(a.value) == want for t in a.targets if isinstance(t, ast.Name)}
    for n in ast.walk(f.node):
        if isinstance(n, (ast.With, ast.AsyncWith)):
            for it in n.items:
                if norm(it.context_expr) in wants:
                    regions.append((n, n.body))
        elif isinstance(n, ast.Try) and n.finalbody:
            rel = any(isinstance(s, ast.Expr) and norm(s.value) in {f"{w}.release()" for w in wants} for s in n.finalbody)
            if rel:
                # the statement before the try must be the acquire
                par = getattr(n, "_parent", None)
                for fld in ("body", "orelse", "finalbody"):
                    blk = getattr(par, fld, None)
                    if isinstance(blk, list) and n in blk:
                        i = blk.index(n)
                        if i > 0 and isinstance(blk[i - 1], ast.Expr) and norm(blk[i - 1].value) in {f"{w}.acquire()" for w in wants}:
                            regions.append((n, n.body))
    return regions


def region_of(node, regions):
    for reg, body in regions:
        for st in body:
            for x in ast.walk(st):
                if x is node:
                    return reg
    return None


def self_attr_accesses(f, selfname, attr):
    """(node, is_store) for every `self.attr` in f."""
    out = []
    for n in ast.walk(f.node):
        if isinstance(n, ast.Attribute) and n.attr == attr and isinstance(n.value, ast.Name) and n.value.id == selfname:
            out.append((n, isinstance(n.ctx, (ast.Store, ast.Del))))
    return out


def r1(p, rep):
    rep.rule("C10.R1", "an attribute written under a lock is read-modify-written under that lock in every method", "T-LOCK (belief rule)", floor=7)
    found = False
    info = {}
    for c in p.classes.values():
        if any(c.module.name == m for m in common.OFF_PATH_MODULES) or c.module.name.endswith("util.rwlock"):
            continue
        locks = lock_attrs(p, c)
        if not locks:
            continue
        for lock in locks:
            protected = set()
            for name, f in c.methods.items():
                s = self_name(f)
                if name == "__init__" or s is None:
                    continue
                regions = locked_regions(f, s, lock)
                for reg, body in regions:
                    for st in body:
                        for n in ast.walk(st):
                            if isinstance(n, ast.Attribute) and isinstance(n.ctx, ast.Store) and isinstance(n.value, ast.Name) and n.value.id == s:
                                protected.add(n.attr)
            if not protected:
                # no store inside any locked region: the regions still say what they guard by what they READ of self -
                # an attribute read under the lock and replaced by some method of the class is the guarded state
                # (`with self.lock: new = f(self.state)` ... `self.state = new` after the block is the defect, not a
                # reason to find nothing to check)
                read_locked, stored_anywhere = set(), set()
                for name, f in c.methods.items():
                    s = self_name(f)
                    if name == "__init__" or s is None:
                        continue
                    for reg, body in locked_regions(f, s, lock):
                        for st in body:
                            for n in ast.walk(st):
                                if isinstance(n, ast.Attribute) and isinstance(n.ctx, ast.Load) and isinstance(n.value, ast.Name) and n.value.id == s and n.attr != lock:
                                    read_locked.add(n.attr)
                    for n in ast.walk(f.node):
                        if isinstance(n, ast.Attribute) and isinstance(n.ctx, ast.Store) and isinstance(n.value, ast.Name) and n.value.id == s:
                            stored_anywhere.add(n.attr)
                protected = read_locked & stored_anywhere
            if not protected:
                continue
            found = True
            info[c.qualname] = {"lock": lock, "kind": locks[lock], "protected": sorted(protected)}
            for attr in sorted(protected):
                # verdict per writing method
                verdict = {}
                for name, f in c.methods.items():
                    s = self_name(f)
                    if name == "__init__" or s is None:
                        continue
                    acc = self_attr_accesses(f, s, attr)
                    writes = [n for n, st in acc if st]
                    if not writes:
                        continue
                    regions = locked_regions(f, s, lock)
                    res = []
                    for w in writes:
                        reg = region_of(w, regions)
                        if reg is None:
                            if _only_called_locked(p, c, f, lock):
                                res.append((True, w, f"helper {name} is only called inside `with self.{lock}`"))
                            else:
                                res.append((False, w, f"self.{attr} is replaced outside `with self.{lock}` although other methods write it under that lock: a concurrent enter/exit/registration published in between is lost"))
                            continue
                        unlocked_reads = [n for n, st in acc if not st and region_of(n, regions) is not reg]
                        if unlocked_reads:
                            res.append((False, w, f"read-modify-write of self.{attr} is split: it is read at line(s) {sorted({n.lineno for n in unlocked_reads})} outside the locked region that writes it, so the written snapshot can be stale"))
                        else:
                            res.append((True, w, f"read and write of self.{attr} inside one locked region of self.{lock}"))
                    verdict[name] = res
                # one obligation per public entry point (and per writing helper that is not reached from one)
                reached = set()
                for name, f in c.methods.items():
                    if name.startswith("_"):
                        continue
                    s = self_name(f)
                    chain = [name]
                    seen = {name}
                    frontier = [f]
                    while frontier:
                        g = frontier.pop()
                        gs = self_name(g)
                        for n in ast.walk(g.node):
                            if isinstance(n, ast.Call) and isinstance(n.func, ast.Attribute) and isinstance(n.func.value, ast.Name) and n.func.value.id == gs and n.func.attr in c.methods and n.func.attr not in seen:
                                seen.add(n.func.attr)
                                chain.append(n.func.attr)
                                frontier.append(c.methods[n.func.attr])
                    res = [r for m in chain for r in verdict.get(m, [])]
                    reached |= {m for m in chain if m in verdict}
                    if not res:
                        continue
                    bad = [r for r in res if not r[0]]
                    site = f"{c.module.rel}:{(bad[0][1] if bad else res[0][1]).lineno}"
                    key = f"{c.qualname}.{name}:write(self.{attr})"
                    # a read of the attribute in the public method itself that feeds a helper's write must be locked too
                    regions = locked_regions(f, s, lock)
                    own_reads = [n for n, st in self_attr_accesses(f, s, attr) if not st]
                    unlocked_own = [n for n in own_reads if region_of(n, regions) is None] if name not in verdict else []
                    if unlocked_own and any(m != name for m in chain if m in verdict):
                        bad = bad or [(False, unlocked_own[0], f"self.{attr} is read at line {unlocked_own[0].lineno} outside the lock and the result is published by {[m for m in chain if m in verdict]}: the snapshot can be stale")]
                    if bad:
                        rep.violation("C10.R1", key, site, bad[0][2])
                    else:
                        rep.ok("C10.R1", key, site, res[0][2] + (f" (via {[m for m in chain[1:] if m in verdict]})" if name not in verdict else ""))
                for name, res in verdict.items():
                    if name in reached:
                        continue
                    for okk, w, why in res:
                        rep.add("C10.R1", f"{c.qualname}.{name}:write(self.{attr})", f"{c.module.rel}:{w.lineno}", okk, why)
    if not found:
        # a lock reached through the very attribute it guards (`use_lock` as a property returning self.state.lock)
        unstable = []
        for c in p.classes.values():
            for name, f in c.methods.items():
                if not any(norm(d) == "property" for d in f.node.decorator_list):
                    continue
                rets = [r.value for r in walk_no_nested(f.node) if isinstance(r, ast.Return) and r.value is not None]
                s0 = self_name(f)
                if len(rets) != 1 or s0 is None:
                    continue
                ch = attr_chain(rets[0])
                if not (ch and len(ch) == 3 and ch[0] == s0):
                    continue
                holder = ch[1]
                used_as_lock = any(isinstance(w, (ast.With, ast.AsyncWith)) and any(norm(it.context_expr) == f"{self_name(g)}.{name}" for it in w.items) for g in c.methods.values() if self_name(g) for w in ast.walk(g.node))
                replaced = any(isinstance(n, ast.Attribute) and isinstance(n.ctx, ast.Store) and n.attr == holder and isinstance(n.value, ast.Name) and n.value.id == self_name(g) for gname, g in c.methods.items() if gname != "__init__" and self_name(g) for n in ast.walk(g.node))
                if used_as_lock and replaced:
                    unstable.append((c, f, holder, ch[2]))
        for c, f, holder, lk in unstable:
            rep.violation("C10.R1", f"{c.qualname}:{f.name}:lock-identity", f"{c.module.rel}:{f.node.lineno}", f"the lock `self.{f.name}` is `self.{holder}.{lk}`, i.e. part of the object that the locked regions replace: after every replacement a new lock is in force, so a thread holding the old lock and a thread taking the new one are in the critical section together (lost updates of self.{holder})")
        if unstable:
            rep.info["locks"] = info
            return info
        raise AnalysisError("anchor vanished: no class with a threading lock protecting an attribute (BackendRegistry.use_lock expected)")
    rep.info["locks"] = info
    return info


def _only_called_locked(p, c, f, lock):
    calls = []
    for name, g in c.methods.items():
        s = self_name(g)
        if s is None:
            continue
        regions = locked_regions(g, s, lock)
        for n in ast.walk(g.node):
            if isinstance(n, ast.Call) and norm(n.func) == f"{s}.{f.name}":
                calls.append(region_of(n, regions) is not None)
    return bool(calls) and all(calls)


# ------------------------------------------------------------------------------------------


def mutating_methods(p, c):
    """Fixpoint set of methods of class c that mutate self (directly or via self.<mutating method>())."""
    direct = {}
    for name, f in c.methods.items():
        s = self_name(f)
        if s is None:
            continue
        muts = []
        for n in ast.walk(f.node):
            if isinstance(n, (ast.Assign, ast.AugAssign, ast.AnnAssign, ast.Delete)):
                ts = n.targets if isinstance(n, (ast.Assign, ast.Delete)) else [n.target]
                for t in ts:
                    for e in t.elts if isinstance(t, ast.Tuple) else [t]:
                        if isinstance(e, (ast.Attribute, ast.Subscript)):
                            r = chain_root(e)
                            if r is not None and r.id == s:
                                muts.append(n)
            elif isinstance(n, ast.Call) and isinstance(n.func, ast.Attribute) and n.func.attr in MUTATORS:
                r = chain_root(n.func.value)
                if r is not None and r.id == s and isinstance(n.func.value, (ast.Attribute, ast.Subscript)):
                    muts.append(n)
        if muts:
            direct[name] = muts
    mutating = set(direct)
    changed = True
    while changed:
        changed = False
        for name, f in c.methods.items():
            if name in mutating:
                continue
            s = self_name(f)
            for n in ast.walk(f.node):
                if isinstance(n, ast.Call) and isinstance(n.func, ast.Attribute) and isinstance(n.func.value, ast.Name) and n.func.value.id == s and n.func.attr in mutating:
                    mutating.add(name)
                    changed = True
                    break
    return mutating, direct


def r2(p, rep, lockinfo):
    rep.rule("C10.R2", "published snapshots are immutable: mutation only on freshly constructed local copies; the copy does not alias", "T-LOCK (ownership)", floor=12)
    # the snapshot class: class constructed in __init__ of the lock class for the protected attribute
    snaps = []
    for cq, inf in lockinfo.items():
        c = p.classes[cq]
        tab = p.self_attr_table(c)
        for attr in inf["protected"]:
            for v in tab.get(attr, []):
                if isinstance(v, ast.Call):
                    r = resolve_callee(p, v, c.module)
                    if r and r[0] == "class":
                        snaps.append((c, attr, r[1]))
    if not snaps:
        raise AnalysisError("unrecognised idiom: the lock-protected attribute is not initialised from a project class constructor")
    for owner, attr, sc in snaps:
        mutating, direct = mutating_methods(p, sc)
        mutating.discard("__init__")
        rep.info.setdefault("snapshot", {})[sc.qualname] = {"mutating_methods": sorted(mutating)}
        # (a) public methods do not mutate self
        for name, f in sc.methods.items():
            if name.startswith("_"):
                continue
            site = f.loc
            key = f"{sc.qualname}.{name}:pure-on-self"
            if name in mutating:
                rep.violation("C10.R2", key, site, f"public method {name} mutates the published snapshot in place (directly or via a self.<mutating method>() call); readers in other threads see a half-updated state")
                continue
            # (b) mutating methods are invoked only on locals freshly constructed from the class
            s = self_name(f)
            fresh = set()
            # helpers that return a fresh copy: def _copy(self): return Cls(self)
            copy_helpers = set()
            for hn, h in sc.methods.items():
                rets = [r.value for r in walk_no_nested(h.node) if isinstance(r, ast.Return) and r.value is not None]
                if rets and all(isinstance(r, ast.Call) and (lambda rr: rr and rr[0] == "class" and rr[1] is sc)(resolve_callee(p, r, sc.module)) for r in rets) and hn not in mutating:
                    copy_helpers.add(hn)
            for n in walk_no_nested(f.node):
                if isinstance(n, ast.Assign) and isinstance(n.value, ast.Call):
                    r = resolve_callee(p, n.value, sc.module)
                    is_ctor = bool(r and r[0] == "class" and r[1] is sc)
                    is_helper = isinstance(n.value.func, ast.Attribute) and isinstance(n.value.func.value, ast.Name) and n.value.func.value.id == s and n.value.func.attr in copy_helpers
                    if is_ctor or is_helper:
                        for t in n.targets:
                            if isinstance(t, ast.Name):
                                fresh.add(t.id)
            bad = []
            for n in walk_no_nested(f.node):
                if isinstance(n, ast.Call) and isinstance(n.func, ast.Attribute) and n.func.attr in mutating and isinstance(n.func.value, ast.Name):
                    if n.func.value.id not in fresh:
                        bad.append(norm(n.func))
            if bad:
                rep.violation("C10.R2", key, site, f"mutating method(s) {bad} invoked on something other than a copy constructed in this method")
            else:
                rep.ok("C10.R2", key, site, f"mutations only on fresh {sc.name}(...) locals {sorted(fresh)}")
        # (c) copy constructor: every container is a new object, filled by update/extend (no aliasing)
        init = sc.methods.get("__init__")
        if init is None:
            raise AnalysisError(f"{sc.qualname} has no __init__")
        s = self_name(init)
        other = [a.arg for a in init.node.args.args[1:]]
        for n in walk_no_nested(init.node):
            if isinstance(n, ast.Assign):
                for t in n.targets:
                    if isinstance(t, ast.Attribute) and isinstance(t.value, ast.Name) and t.value.id == s:
                        r = chain_root(n.value) if isinstance(n.value, (ast.Attribute, ast.Subscript, ast.Name)) else None
                        aliasing = r is not None and r.id in other
                        rep.add("C10.R2", f"{sc.qualname}.__init__:self.{t.attr}", f"{sc.module.rel}:{n.lineno}", not aliasing, f"self.{t.attr} = {norm(n.value)}" + (" aliases the source snapshot's container" if aliasing else " (fresh object)"))
        # (c') the copy is one level deep: a container that is an ELEMENT of a copied container still belongs to the
        # published snapshot as well.  Emptying such an element in place (pop / popleft / remove / clear / del x[i]) takes
        # entries away from the published state even when the new state is discarded (the lookup that triggered the work
        # raised): they are lost for good
        removing = {"pop", "popleft", "popitem", "remove", "clear"}
        for name, f in sc.methods.items():
            s0 = self_name(f)
            inner = {}
            for n in ast.walk(f.node):
                if isinstance(n, ast.Assign) and len(n.targets) == 1 and isinstance(n.targets[0], ast.Name):
                    v = n.value
                    src_ = None
                    if isinstance(v, ast.Subscript) and isinstance(v.value, ast.Attribute) and norm(v.value.value) == s0:
                        src_ = v.value.attr
                    elif isinstance(v, ast.Call) and isinstance(v.func, ast.Attribute) and v.func.attr in ("pop", "get", "setdefault") and isinstance(v.func.value, ast.Attribute) and norm(v.func.value.value) == s0:
                        src_ = v.func.value.attr
                    if src_ is not None:
                        inner[n.targets[0].id] = src_
                if isinstance(n, ast.For) and isinstance(n.iter, ast.Call) and isinstance(n.iter.func, ast.Attribute) and n.iter.func.attr in ("values", "items") and isinstance(n.iter.func.value, ast.Attribute) and norm(n.iter.func.value.value) == s0:
                    tv = n.target.elts[-1] if isinstance(n.target, ast.Tuple) else n.target
                    if isinstance(tv, ast.Name):
                        inner[tv.id] = n.iter.func.value.attr
            for n in ast.walk(f.node):
                tgt = None
                if isinstance(n, ast.Call) and isinstance(n.func, ast.Attribute) and n.func.attr in removing:
                    r_ = n.func.value
                    if isinstance(r_, ast.Name) and r_.id in inner:
                        tgt = (r_.id, inner[r_.id])
                    elif isinstance(r_, ast.Subscript) and isinstance(r_.value, ast.Attribute) and norm(r_.value.value) == s0:
                        tgt = (norm(r_), r_.value.attr)
                if isinstance(n, ast.Delete):
                    for t in n.targets:
                        if isinstance(t, ast.Subscript) and isinstance(t.value, ast.Name) and t.value.id in inner:
                            tgt = (t.value.id, inner[t.value.id])
                if tgt is not None:
                    rep.violation("C10.R2", f"{sc.qualname}.{name}:drains({tgt[1]})", f"{sc.module.rel}:{n.lineno}", f"`{norm(n)[:60]}` empties `{tgt[0]}`, an element of self.{tgt[1]}: the snapshot copy is one level deep, so this container is shared with the published state - its entries disappear from the committed registry even if this new state is never published (a failing lookup), e.g. the backends of a freshly imported framework are lost for good")
        # (d) nobody outside the class calls a mutating method on the published attribute
        for f in p.funcs.values():
            if f.cls is sc:
                continue
            for n in walk_no_nested(f.node):
                if isinstance(n, ast.Call) and isinstance(n.func, ast.Attribute) and n.func.attr in mutating and isinstance(n.func.value, ast.Attribute) and n.func.value.attr == attr:
                    rep.violation("C10.R2", f"{f.qualname}:call({norm(n.func)})", f"{f.module.rel}:{n.lineno}", f"mutating snapshot method {n.func.attr} is called directly on the published .{attr}")
        # (e) the owner only replaces the attribute with what the snapshot's public methods return
        for name, f in owner.methods.items():
            if name == "__init__":
                continue
            s = self_name(f)
            for n in walk_no_nested(f.node):
                if isinstance(n, ast.Call) and isinstance(n.func, ast.Attribute) and isinstance(n.func.value, ast.Attribute) and norm(n.func.value) == f"{s}.{attr}":
                    ok = not n.func.attr.startswith("_") and n.func.attr not in mutating
                    rep.add("C10.R2", f"{owner.qualname}.{name}:call({attr}.{n.func.attr})", f"{owner.module.rel}:{n.lineno}", ok, "owner uses the copy-on-write interface" if ok else "owner calls a private/mutating method on the shared snapshot")


        # (e') the same protocol written inside the owner (a transaction: copy under the lock, work on the copy, publish
        # it): a private / mutating snapshot method is called only on a local that is a fresh copy of the published
        # snapshot made in this very method, and that copy is what gets published afterwards
        lock = next(iter(lockinfo.get(owner.qualname, {}).get("locks", [])), None) if isinstance(lockinfo.get(owner.qualname), dict) else None
        for name, f in owner.methods.items():
            if name == "__init__" or not isinstance(f.node, ast.FunctionDef):
                continue
            s = self_name(f)
            fresh, alias = set(), {}
            for n in walk_no_nested(f.node):
                if isinstance(n, ast.Assign) and len(n.targets) == 1 and isinstance(n.targets[0], ast.Name):
                    if isinstance(n.value, ast.Call):
                        r = resolve_callee(p, n.value, owner.module)
                        if r and r[0] == "class" and r[1] is sc and len(n.value.args) == 1 and norm(n.value.args[0]) == f"{s}.{attr}":
                            fresh.add(n.targets[0].id)
                    elif isinstance(n.value, ast.Name):
                        alias[n.targets[0].id] = n.value.id
            def root(nm, d=0):
                return nm if nm in fresh or d > 3 or nm not in alias else root(alias[nm], d + 1)
            published = {norm(n.value) for n in walk_no_nested(f.node) if isinstance(n, ast.Assign) and any(norm(t) == f"{s}.{attr}" for t in n.targets)}
            for n in walk_no_nested(f.node):
                if isinstance(n, ast.Call) and isinstance(n.func, ast.Attribute) and isinstance(n.func.value, ast.Name) and n.func.value.id != s and n.func.attr in sc.methods and (n.func.attr.startswith("_") or n.func.attr in mutating):
                    loc = root(n.func.value.id)
                    if loc not in fresh and n.func.value.id not in alias:
                        continue  # some other object that happens to have a method of that name
                    ok = loc in fresh and any(root(pb) == loc for pb in published if pb.isidentifier())
                    rep.add("C10.R2", f"{owner.qualname}.{name}:transaction({n.func.attr})", f"{owner.module.rel}:{n.lineno}", ok, f"`{norm(n.func)}` works on `{loc}`, a copy of the published snapshot made in this method, which is published afterwards" if ok else f"`{norm(n.func)}` mutates `{n.func.value.id}`, which is not a fresh copy of self.{attr} made in this method that is published afterwards: readers can see a half-updated snapshot or the update is lost")


# ------------------------------------------------------------------------------------------

# classes whose instances live for one compilation / one call only (checked: never instantiated at module level,
# never stored on self / a global)
PER_CALL_CLASSES = {
    "Block": "code-generator statement list of one compile() call",
    "CodeObject": "expression cache of one compile() call",
    "_IntermediateMap": "scope map of one compile() call",
    "Optimizer": "memo of one optimisation pass (constructed per pass in optimize())",
}
# not reachable from any backend / public entry point
UNWIRED = {
    "CompilationCache": "tracer/compiler/run.py (graph interpreter) is not wired to any backend",
    "CompiledGraph": "tracer/compiler/run.py (graph interpreter) is not wired to any backend",
    "RWLock": "util/rwlock.py is not imported anywhere",
}


def _class_level_mutables(c):
    out = []
    for st in c.node.body:
        if isinstance(st, (ast.Assign, ast.AnnAssign)):
            v = st.value
            if isinstance(v, (ast.List, ast.Dict, ast.Set, ast.ListComp, ast.DictComp, ast.SetComp)) or (
                isinstance(v, ast.Call) and isinstance(v.func, ast.Name) and v.func.id in ("list", "dict", "set", "defaultdict", "deque")
            ):
                ts = st.targets if isinstance(st, ast.Assign) else [st.target]
                out += [norm(t) for t in ts]
    return out


def _thread_local_kind(p, module, value, scope=None):
    """'local' if value is threading.local() or an instance of a project subclass of threading.local
    without class-level mutable attributes; ('shared', why) if a subclass shares state; None otherwise."""
    if not isinstance(value, ast.Call):
        return None
    if _is_threading(p, module, value, ("local",), scope):
        return "local"
    r = resolve_callee(p, value, module)
    if r and r[0] == "class":
        c = r[1]
        ext = p.external_bases(c)
        is_tl = False
        for k in p.mro(c):
            for b in k.node.bases:
                rb = p.resolve_expr(k.module, b)
                if rb and rb[0] == "external" and rb[1] == "threading.local":
                    is_tl = True
        if is_tl:
            shared = [m for k in p.mro(c) for m in _class_level_mutables(k)]
            if shared:
                return ("shared", f"subclass {c.name} of threading.local has class-level mutable attribute(s) {shared}, which are shared by all threads")
            return "local"
    return None


def _is_tl_subclass(p, c):
    for k in p.mro(c):
        for b in k.node.bases:
            rb = p.resolve_expr(k.module, b)
            if rb and rb[0] == "external" and rb[1] == "threading.local":
                return True
    return False


def _mutable_new(v):
    return isinstance(v, (ast.List, ast.Dict, ast.Set, ast.ListComp, ast.DictComp, ast.SetComp)) or (isinstance(v, ast.Call) and isinstance(v.func, ast.Name) and v.func.id in ("list", "dict", "set", "defaultdict", "deque", "OrderedDict"))


def _copied(v, name):
    """is expression v a fresh copy of `name` (copy.copy(x), copy.deepcopy(x), list(x), x.copy(), type(x)(x))?"""
    if isinstance(v, ast.Call) and len(v.args) == 1 and isinstance(v.args[0], ast.Name) and v.args[0].id == name:
        return norm(v.func) in ("copy.copy", "copy.deepcopy", "copy", "deepcopy", "list", "dict", "set", f"type({name})")
    if isinstance(v, ast.Call) and isinstance(v.func, ast.Attribute) and v.func.attr == "copy" and isinstance(v.func.value, ast.Name) and v.func.value.id == name and not v.args:
        return True
    return False


def tl_defaults(p, c, call):
    """A project subclass `c` of threading.local constructed by `call`.  threading.local runs __init__ again - with the
    SAME argument objects - in every thread that touches the object, so __init__ is where per-thread attributes are set
    up.  -> (attributes every thread finds in place, [(attribute, why it is ONE object shared by all threads)])"""
    init = p.lookup_method(c, "__init__")
    if init is None:
        return set(), []
    est, shared = set(), []
    a = init.node.args
    params = [q.arg for q in a.posonlyargs + a.args][1:]
    given = {}
    for i, v in enumerate(call.args):
        if i < len(params):
            given[params[i]] = v
    extra = {}
    for k in call.keywords:
        if k.arg is None:
            continue
        if k.arg in params or k.arg in [q.arg for q in a.kwonlyargs]:
            given[k.arg] = k.value
        else:
            extra[k.arg] = k.value
    sn = init.params[0]
    for n in ast.walk(init.node):
        if isinstance(n, ast.Assign):
            for t in n.targets:
                if isinstance(t, ast.Attribute) and isinstance(t.value, ast.Name) and t.value.id == sn:
                    est.add(t.attr)
                    if isinstance(n.value, ast.Name) and n.value.id in given and _mutable_new(given[n.value.id]):
                        shared.append((t.attr, f"`{norm(n)}` stores the constructor argument `{norm(given[n.value.id])}` itself"))
        # for name, value in <**kwargs>.items(): setattr(self, name, <value>)
        if isinstance(n, ast.For) and a.kwarg is not None and isinstance(n.iter, ast.Call) and norm(n.iter.func) == f"{a.kwarg.arg}.items" and isinstance(n.target, ast.Tuple) and len(n.target.elts) == 2 and all(isinstance(e, ast.Name) for e in n.target.elts):
            kn, vn = n.target.elts[0].id, n.target.elts[1].id
            for c2 in ast.walk(n):
                if isinstance(c2, ast.Call) and isinstance(c2.func, ast.Name) and c2.func.id == "setattr" and len(c2.args) == 3 and norm(c2.args[0]) == sn and norm(c2.args[1]) == kn:
                    est |= set(extra)
                    if not _copied(c2.args[2], vn):
                        for k_, v_ in extra.items():
                            if _mutable_new(v_) and any(isinstance(x, ast.Name) and x.id == vn for x in ast.walk(c2.args[2])):
                                shared.append((k_, f"`{norm(c2)}` stores the default `{k_}={norm(v_)}` itself, without a copy"))
    return est, shared


def r3(p, rep, lockinfo):
    rep.rule("C10.R3", "long-lived objects mutated during a call are thread-local, lock-protected, snapshots or per-call", "T-LOCK (per-thread context)", floor=6)
    # (i) module-level variables mutated inside functions
    for m in p.modules.values():
        if any(m.name == x for x in common.OFF_PATH_MODULES):
            continue
        modvars = {k: b for k, b in m.bindings.items() if b.kind == "var"}
        mutated = {}
        for f in p.funcs.values():
            if f.module is not m:
                continue
            globs = set()
            for n in walk_no_nested(f.node):
                if isinstance(n, ast.Global):
                    globs.update(n.names)
            for n in walk_no_nested(f.node):
                roots = []
                if isinstance(n, (ast.Assign, ast.AugAssign, ast.Delete)):
                    ts = n.targets if isinstance(n, (ast.Assign, ast.Delete)) else [n.target]
                    for t in ts:
                        for e in t.elts if isinstance(t, ast.Tuple) else [t]:
                            if isinstance(e, (ast.Attribute, ast.Subscript)):
                                roots.append(chain_root(e))
                            elif isinstance(e, ast.Name) and e.id in globs:
                                roots.append(e)
                elif isinstance(n, ast.Call) and isinstance(n.func, ast.Attribute) and n.func.attr in MUTATORS:
                    roots.append(chain_root(n.func.value))
                for r in roots:
                    if r is not None and r.id in modvars and (r.id in globs or not p.is_local(f.node, r.id)):
                        mutated.setdefault(r.id, []).append((f, n))
        for name, sites in mutated.items():
            b = modvars[name]
            value = getattr(b.node, "value", None)
            kind = _thread_local_kind(p, m, value)
            site = f"{m.rel}:{b.node.lineno}"
            key = f"{m.name}.{name}:module-state"
            if kind == "local":
                rep.ok("C10.R3", key, site, f"threading.local(); mutated in {sorted({f.qualname.split('::')[1] for f, _ in sites})}")
            elif isinstance(kind, tuple):
                rep.violation("C10.R3", key, site, kind[1])
            else:
                # every mutation under a module-level lock with a re-check
                allok = True
                for f, n in sites:
                    w = None
                    for par in parents(n):
                        if isinstance(par, ast.With):
                            for it in par.items:
                                ch = attr_chain(it.context_expr)
                                if ch and len(ch) == 1 and ch[0] in modvars and _is_threading(p, m, getattr(modvars[ch[0]].node, "value", None), ("Lock", "RLock")):
                                    w = par
                        if par is f.node:
                            break
                    if w is None:
                        allok = False
                if allok:
                    rep.ok("C10.R3", key, site, "every mutation is inside `with <module lock>`")
                else:
                    rep.violation("C10.R3", key, site, f"module-level object {name} = {norm(value) if value is not None else '?'} is mutated in {sorted({f.qualname.split('::')[1] for f, _ in sites})} without being thread-local or lock-protected: threads tracing concurrently see each other's entries")
    # (i') subclasses of threading.local: a mutable class attribute is ONE object shared by all threads
    for c in p.classes.values():
        if any(c.module.name == x for x in common.OFF_PATH_MODULES):
            continue
        is_tl = False
        for k in p.mro(c):
            for b in k.node.bases:
                rb = p.resolve_expr(k.module, b, None)
                if rb and rb[0] == "external" and rb[1] == "threading.local":
                    is_tl = True
        if not is_tl:
            continue
        # constructions: a mutable default handed to __init__ is one object for all threads unless it is copied there
        for m2 in p.modules.values():
            for call in ast.walk(m2.tree):
                if isinstance(call, ast.Call) and resolve_callee(p, call, m2) == ("class", c):
                    est, sh = tl_defaults(p, c, call)
                    for attr, why in sh:
                        rep.violation("C10.R3", f"{c.qualname}:shared-default:{m2.name}:{attr}", f"{m2.rel}:{call.lineno}", f"`{norm(call)[:60]}`: threading.local re-runs __init__ with the same argument objects in every thread, and {why}: `{attr}` is one object shared by all threads (per-thread stacks become one global stack; concurrent calls see each other's entries)")
                    if est and not sh:
                        rep.ok("C10.R3", f"{c.qualname}:defaults:{m2.name}:{call.lineno}", f"{m2.rel}:{call.lineno}", f"per-thread defaults {sorted(est)} are set up (copied) by __init__ in every thread")
        shared = [m_ for k in p.mro(c) for m_ in _class_level_mutables(k)]
        rep.add("C10.R3", f"{c.qualname}:thread-local-subclass", c.loc, not shared, "per-thread attributes only (set in __init__ or lazily)" if not shared else f"subclass {c.name} of threading.local has class-level mutable attribute(s) {shared}, which are shared by all threads: per-thread stacks become one global stack")
    # (ii) classes that mutate self outside __init__
    snapshot_classes = set(rep.info.get("snapshot", {}))
    for c in p.classes.values():
        mutating, direct = mutating_methods(p, c)
        direct.pop("__init__", None)
        if not direct:
            continue
        site = c.loc
        key = f"{c.qualname}:instance-state"
        if c.qualname in lockinfo or c.qualname in snapshot_classes:
            rep.ok("C10.R3", key, site, "governed by C10.R1 / C10.R2", nontrivial=False)
            continue
        if c.name in UNWIRED and (c.module.name in common.OFF_PATH_MODULES or c.module.name.endswith("util.rwlock")):
            rep.exempt("C10.R3", key, site, UNWIRED[c.name])
            continue
        # thread-local: every mutated chain passes through an attribute initialised as threading.local()
        tl_attrs = {a for a, vals in p.self_attr_table(c).items() if any(_thread_local_kind(p, c.module, v, c.methods["__init__"].node if "__init__" in c.methods else None) == "local" for v in vals)}
        nontl = []
        for name, muts in direct.items():
            for n in muts:
                tgt = n.func.value if isinstance(n, ast.Call) else (n.targets[0] if isinstance(n, (ast.Assign, ast.Delete)) else n.target)
                ch = attr_chain(tgt) if not isinstance(tgt, ast.Subscript) else attr_chain(tgt.value)
                if not (ch and len(ch) >= 2 and ch[1] in tl_attrs):
                    nontl.append((name, norm(tgt)))
        if not nontl:
            rep.ok("C10.R3", key, site, f"all mutated state hangs off threading.local attribute(s) {sorted(tl_attrs)}")
            continue
        if True:
            # check: never instantiated at module level, never stored on self or a global
            bad = []
            n_sites = 0
            for f2 in list(p.funcs.values()):
                for n in walk_no_nested(f2.node):
                    if isinstance(n, ast.Call):
                        r = resolve_callee(p, n, f2.module)
                        if r and r[0] == "class" and r[1] is c:
                            n_sites += 1
                            par = getattr(n, "_parent", None)
                            if isinstance(par, ast.Assign) and any(isinstance(t, ast.Attribute) for t in par.targets):
                                bad.append(f"{f2.qualname}: stored in {norm(par.targets[0])}")
                            # bound to a local that a returned closure keeps: one object for all later calls (and threads)
                            if isinstance(par, ast.Assign) and isinstance(f2.node, (ast.FunctionDef, ast.AsyncFunctionDef)):
                                locs = {t.id for t in par.targets if isinstance(t, ast.Name)}
                                returned = {x.id for r_ in walk_no_nested(f2.node) if isinstance(r_, ast.Return) and r_.value is not None for x in ast.walk(r_.value) if isinstance(x, ast.Name)}
                                for g2 in [x for x in ast.walk(f2.node) if isinstance(x, (ast.FunctionDef, ast.Lambda)) and x is not f2.node]:
                                    gname = getattr(g2, "name", None)
                                    if gname in returned and any(isinstance(x, ast.Name) and x.id in locs and isinstance(x.ctx, ast.Load) for x in ast.walk(g2)):
                                        bad.append(f"{f2.qualname}: kept by the returned closure `{gname}` (one instance serves every later call, from any thread)")
            for m2 in p.modules.values():
                for n in walk_no_nested(m2.tree):
                    if isinstance(n, ast.Call) and enclosing(n, (ast.FunctionDef, ast.Lambda)) is None:
                        r = resolve_callee(p, n, m2)
                        if r and r[0] == "class" and r[1] is c:
                            bad.append(f"{m2.name}: instantiated at module level")
            # instances returned from the creating function may be kept by the caller: only accept that for reviewed classes
            escapes = []
            for f2 in list(p.funcs.values()):
                for n in walk_no_nested(f2.node):
                    if isinstance(n, ast.Return) and isinstance(n.value, ast.Call):
                        r = resolve_callee(p, n.value, f2.module)
                        if r and r[0] == "class" and r[1] is c:
                            escapes.append(f2.qualname)
            if bad or n_sites == 0:
                rep.violation("C10.R3", key, site, f"{c.name} mutates itself ({nontl[:3]}) and is long-lived or never instantiated locally: {bad or 'no instantiation inside a function found'}")
            elif c.name in PER_CALL_CLASSES:
                rep.exempt("C10.R3", key, site, f"per-call object ({PER_CALL_CLASSES[c.name]}); {n_sites} instantiation sites, all local to a function")
            elif not escapes:
                rep.ok("C10.R3", key, site, f"per-call object: all {n_sites} instantiation sites bind a local variable inside a function (never module level, never stored on an attribute, never returned)")
            else:
                rep.violation("C10.R3", key, site, f"{c.name} mutates its own state outside __init__ ({nontl[:4]}), instances are returned from {escapes} and it is neither thread-local, lock-protected, a copy-on-write snapshot nor a reviewed per-call class")
            continue
    # (iii) aliases: locals obtained from self.<getter>() that are mutated must come from a thread-local chain
    for c in p.classes.values():
        tl_attrs = {a for a, vals in p.self_attr_table(c).items() if any(_thread_local_kind(p, c.module, v) == "local" for v in vals)}
        if not tl_attrs:
            continue
        for name, f in c.methods.items():
            s = self_name(f)
            for n in walk_no_nested(f.node):
                if isinstance(n, ast.Call) and isinstance(n.func, ast.Attribute) and n.func.attr in MUTATORS and isinstance(n.func.value, ast.Name) and n.func.value.id != s:
                    local = n.func.value.id
                    srcs = [a.value for a in walk_no_nested(f.node) if isinstance(a, ast.Assign) and any(isinstance(t, ast.Name) and t.id == local for t in a.targets)]
                    for v in srcs:
                        ok = None
                        if isinstance(v, ast.Call) and isinstance(v.func, ast.Attribute) and isinstance(v.func.value, ast.Name) and v.func.value.id == s:
                            g = c.methods.get(v.func.attr)
                            if g is not None:
                                rets = [r.value for r in ast.walk(g.node) if isinstance(r, ast.Return) and r.value is not None]
                                ok = all(_tl_rooted(p, g, r, self_name(g), tl_attrs) for r in rets) and bool(rets)
                        elif isinstance(v, ast.Attribute):
                            ch = attr_chain(v)
                            if ch and ch[0] == s:
                                ok = len(ch) >= 2 and ch[1] in tl_attrs
                        if ok is not None:
                            rep.add("C10.R3", f"{c.qualname}.{name}:alias({local})", f"{c.module.rel}:{n.lineno}", ok, f"{local} = {norm(v)} then {norm(n.func)}(): " + ("thread-local storage" if ok else "the mutated list is shared between threads"))


def _tl_rooted(p, g, e, s, tl_attrs, depth=0):
    """does expression e (inside method / function g whose self is `s`) denote storage hanging off a
    threading.local attribute: `self.<tl>.x`, a local bound to that, or `helper(self.<tl>)` where the helper returns
    attributes of its parameter"""
    if depth > 3:
        return False
    if isinstance(e, ast.Attribute):
        ch = attr_chain(e)
        if ch and ch[0] == s and len(ch) >= 2 and ch[1] in tl_attrs:
            return True
        if ch and ch[0] != s and len(ch) >= 2:
            # `tl = self._thread_local` ... `tl.stack`
            ds = [a.value for a in walk_no_nested(g.node) if isinstance(a, ast.Assign) and any(isinstance(t, ast.Name) and t.id == ch[0] for t in a.targets)]
            return bool(ds) and all(isinstance(d, ast.Attribute) and (attr_chain(d) or [None])[0] == s and len(attr_chain(d)) == 2 and attr_chain(d)[1] in tl_attrs for d in ds)
        return False
    if isinstance(e, ast.Name):
        ds = [a.value for a in walk_no_nested(g.node) if isinstance(a, ast.Assign) and any(isinstance(t, ast.Name) and t.id == e.id for t in a.targets)]
        return bool(ds) and all(_tl_rooted(p, g, d, s, tl_attrs, depth + 1) for d in ds)
    if isinstance(e, ast.Call):
        r = resolve_callee(p, e, g.module)
        if r and r[0] == "func":
            h = r[1]
            for i, a in enumerate(e.args):
                if i < len(h.params) and _tl_rooted(p, g, a, s, tl_attrs, depth + 1):
                    q = h.params[i]
                    rets = [x.value for x in walk_no_nested(h.node) if isinstance(x, ast.Return) and x.value is not None]
                    if rets and all((attr_chain(x) or [None])[0] == q for x in rets):
                        return True
    return False


def r4(p, rep):
    rep.rule("C10.R4", "lock order is acyclic", "T-LOCK (lock-order graph)", floor=1)
    edges = set()
    locks = set()
    for f in p.funcs.values():
        for n in ast.walk(f.node):
            if isinstance(n, ast.With):
                for it in n.items:
                    t = norm(it.context_expr)
                    if "lock" in t.lower():
                        locks.add(t)
                        for inner in ast.walk(n):
                            if isinstance(inner, ast.With) and inner is not n:
                                for it2 in inner.items:
                                    t2 = norm(it2.context_expr)
                                    if "lock" in t2.lower():
                                        edges.add((t, t2))
    cyc = [(a, b) for a, b in edges if (b, a) in edges or a == b]
    rep.add("C10.R4", "lock-order", "einx/", not cyc, f"locks {sorted(locks)}; nested acquisitions {sorted(edges)}" + (f"; cycle {cyc}" if cyc else "; acyclic"))


def r5(p, rep):
    rep.rule("C10.R5", "the compiled-function cache is functools.cache / functools.lru_cache", "T-EFF (who implements the memo)", floor=1)
    f = p.func("lru_cache", "util.lru_cache")
    ext = []
    fs = [g for g in common.with_helpers(p, f) if g.name not in ("_with_retrace_warning", "_freeze_args", "_freeze_value")]
    for g in fs:
        for n in walk_no_nested(g.node):
            if isinstance(n, ast.Call):
                r = p.resolve_expr(g.module, n.func, g.node)
                if r and r[0] == "external" and r[1] in ("functools.cache", "functools.lru_cache"):
                    ext.append(r[1])
    handmade = [n for g in fs for n in ast.walk(g.node) if isinstance(n, ast.Subscript) and isinstance(n.ctx, ast.Store)]
    ok = bool(ext) and not handmade
    rep.add("C10.R5", f"{f.qualname}:memo", f.loc, ok, f"memo implemented by {sorted(set(ext))}" if ok else "the cache is not (only) functools' thread-safe cache")
    rep.assume("functools.cache / functools.lru_cache are safe for concurrent callers (may compute twice, never mix entries) and do not cache exceptions")

def _feeding(fnode, expr):
    """names and expressions the value of `expr` is built from, through local single assignments (transitively)"""
    exprs, seen, todo = [expr], set(), [x.id for x in ast.walk(expr) if isinstance(x, ast.Name)]
    while todo:
        n = todo.pop()
        if n in seen:
            continue
        seen.add(n)
        for a in ast.walk(fnode):
            if isinstance(a, ast.Assign) and any(isinstance(t, ast.Name) and t.id == n for t in a.targets):
                exprs.append(a.value)
                todo += [x.id for x in ast.walk(a.value) if isinstance(x, ast.Name)]
    return seen, exprs


def _is_backend_value(f, e, seen):
    """does the *value* of e denote a backend object: the `backend` parameter, kwargs["backend"], a registry lookup,
    Use(...), or a local / conditional expression standing for one of those (attributes of a backend, such as
    a lock it owns, are not backends)"""
    if isinstance(e, ast.Name):
        if e.id == "backend" and (e.id in f.params or any(e.id in g.params for g in _enclosing_funcs(f))):
            return True
        if e.id in seen:
            return False
        seen.add(e.id)
        defs = [a.value for a in ast.walk(f.node) if isinstance(a, ast.Assign) and any(isinstance(t, ast.Name) and t.id == e.id for t in a.targets)]
        return any(_is_backend_value(f, d, seen) for d in defs)
    if isinstance(e, ast.Subscript) and isinstance(e.slice, ast.Constant) and e.slice.value == "backend":
        return True
    if isinstance(e, ast.IfExp):
        return _is_backend_value(f, e.body, seen) or _is_backend_value(f, e.orelse, seen)
    if isinstance(e, ast.BoolOp):
        return any(_is_backend_value(f, v, seen) for v in e.values)
    if isinstance(e, ast.Call):
        fn = norm(e.func)
        if fn.split(".")[-1] == "Use":
            return True
        if isinstance(e.func, ast.Attribute) and e.func.attr in ("get", "get_by_name", "get_by_tensors") and ("registry" in norm(e.func.value) or norm(e.func.value).split(".")[-1] == "backend"):
            return True
        if isinstance(e.func, ast.Attribute) and e.func.attr == "pop" and e.args and isinstance(e.args[0], ast.Constant) and e.args[0].value == "backend":
            return True
    return False


def _enclosing_funcs(f):
    g = f.parent
    while g is not None:
        yield g
        g = g.parent


def r6(p, rep):
    rep.rule("C10.R6", "einx never enters a backend selection on its own: the process-global use_stack is only pushed by the caller's `with backend:`", "T-EFF (who may enter) over with-items / enter calls by provenance", floor=3)
    owner = p.module("frontend.backend")
    reg_enter = {"enter", "exit"}
    n = 0
    for f in p.funcs.values():
        if f.module is owner or any(f.module.name == m for m in common.OFF_PATH_MODULES):
            continue
        for node in walk_no_nested(f.node):
            items = []
            if isinstance(node, (ast.With, ast.AsyncWith)):
                items = [(i.context_expr, "with") for i in node.items]
            elif isinstance(node, ast.Call) and isinstance(node.func, ast.Attribute) and node.func.attr in ("__enter__", "enter_context"):
                items = [(node.func.value if node.func.attr == "__enter__" else (node.args[0] if node.args else node), node.func.attr)]
            elif isinstance(node, ast.Call) and isinstance(node.func, ast.Attribute) and node.func.attr in reg_enter and "registry" in norm(node.func.value):
                n += 1
                rep.violation("C10.R6", f"{f.qualname}:registry.{node.func.attr}", f"{f.module.rel}:{node.lineno}", f"`{norm(node)[:60]}` pushes / pops the process-global use_stack from inside einx: a concurrent call in another thread resolves to this call's backend")
                continue
            for e, how in items:
                n += 1
                from_backend = _is_backend_value(f, e, set())
                key = f"{f.qualname}:{how}:{norm(e)[:40]}"
                if from_backend:
                    rep.violation("C10.R6", key, f"{f.module.rel}:{node.lineno}", f"`{how} {norm(e)[:50]}` enters a backend object (derived from the call's backend argument / a registry lookup) inside einx: this pushes onto the process-global use_stack for the duration of the call, so concurrent calls without backend= in other threads resolve to it, and another thread's `with backend:` breaks the LIFO exit")
                else:
                    rep.ok("C10.R6", key, f"{f.module.rel}:{node.lineno}", f"context `{norm(e)[:50]}` is not a backend selection")
    return n


_ESTABLISH = register_cache({})


def _establishes(p, g, names, depth=0):
    """`<thread-local>.<attr>` pseudo-variables that are set (assigned, hasattr-guarded or read under try/except
    AttributeError with an assignment in the handler) on every normal exit of function g"""
    from sa.cfg import CFG, decompose

    key = (g.qualname, tuple(sorted(names)))
    if key in _ESTABLISH:
        return _ESTABLISH[key]
    _ESTABLISH[key] = set()
    if depth > 2 or not isinstance(g.node, (ast.FunctionDef, ast.AsyncFunctionDef)):
        return set()
    cand = {norm(t) for a in ast.walk(g.node) if isinstance(a, ast.Assign) for t in a.targets if isinstance(t, ast.Attribute) and norm(t.value) in names}
    for c in ast.walk(g.node):
        if isinstance(c, ast.Call) and norm(c.func) == "hasattr" and len(c.args) == 2 and isinstance(c.args[1], ast.Constant) and norm(c.args[0]) in names:
            cand.add(f"{norm(c.args[0])}.{c.args[1].value}")
    # helpers called by g
    for c in ast.walk(g.node):
        if isinstance(c, ast.Call):
            r = resolve_callee(p, c, g.module)
            if r and r[0] == "func" and r[1] is not g:
                cand |= _establishes(p, r[1], names, depth + 1)
    if not cand:
        return set()
    cfg = CFG(g.node)
    kill = {}
    for nd in cfg.nodes:
        if nd.kind == "stmt" and isinstance(nd.ast, ast.Assign):
            for t in nd.ast.targets:
                if isinstance(t, ast.Attribute) and norm(t) in cand:
                    kill.setdefault(nd.id, set()).add(norm(t))
        if nd.kind in ("stmt", "test") and nd.ast is not None:
            e = nd.test if nd.kind == "test" and getattr(nd, "test", None) is not None else nd.ast
            if not isinstance(e, (ast.If, ast.For, ast.While, ast.Try, ast.With, ast.FunctionDef, ast.ClassDef)):
                for c in ast.walk(e):
                    if isinstance(c, ast.Call):
                        r = resolve_callee(p, c, g.module)
                        if r and r[0] == "func" and r[1] is not g:
                            kill.setdefault(nd.id, set()).update(_establishes(p, r[1], names, depth + 1) & cand)
                # a successful read inside try/except AttributeError shows the attribute exists
                if nd.kind == "stmt":
                    for y in ast.walk(e):
                        if isinstance(y, ast.Attribute) and isinstance(y.ctx, ast.Load) and norm(y) in cand and any(True for _ in common.enclosing_tries(y, g.node)):
                            kill.setdefault(nd.id, set()).add(norm(y))
        if nd.kind == "edge" and nd.test is not None and nd.polarity is not None:
            for t, pol in decompose(nd.test, nd.polarity):
                if pol and isinstance(t, ast.Call) and norm(t.func) == "hasattr" and len(t.args) == 2 and isinstance(t.args[1], ast.Constant):
                    kill.setdefault(nd.id, set()).add(f"{norm(t.args[0])}.{t.args[1].value}")
    OUT = {x.id: set() for x in cfg.nodes}
    work = list(cfg.nodes)
    while work:
        nd = work.pop()
        if nd is cfg.entry:
            o = set(cand)
        else:
            i = set()
            for q in nd.pred:
                i |= OUT[q.id]
            o = i - kill.get(nd.id, set())
        if o != OUT[nd.id]:
            OUT[nd.id] = o
            work.extend(nd.succ)
    undefined_at_exit = set()
    for q in cfg.exit.pred:
        undefined_at_exit |= OUT[q.id]
    res = cand - undefined_at_exit
    _ESTABLISH[key] = res
    return res


def r7(p, rep):
    rep.rule("C10.R7", "an attribute of a threading.local object is set up in the very function (thread) that reads it: other threads start with an empty object", "definite-assignment dataflow on `<thread-local>.<attr>` (hasattr guard or assignment on every path to a read)", floor=2)
    from sa.cfg import CFG, decompose

    # thread-local storages: module-level names and self attributes initialised as threading.local()
    tls = set()
    established = {}  # storage -> attributes its class sets up in __init__ (which runs in every thread)

    def storage(module, v, scope=None):
        if _is_threading(p, module, v, ("local",), scope):
            return set()
        if isinstance(v, ast.Call):
            r = resolve_callee(p, v, module)
            if r and r[0] == "class" and _is_tl_subclass(p, r[1]):
                est, sh = tl_defaults(p, r[1], v)
                return est
        return None

    for m in p.modules.values():
        for k, b in m.bindings.items():
            if b.kind == "var":
                est = storage(m, getattr(b.node, "value", None))
                if est is not None:
                    tls.add((m.name, k))
                    established[(m.name, k)] = est
    for c in p.classes.values():
        init = c.methods.get("__init__")
        for a, vals in p.self_attr_table(c).items():
            ests = [storage(c.module, v, init.node if init else None) for v in vals]
            if any(e is not None for e in ests):
                tls.add((c.module.name, f"self.{a}"))
                established[(c.module.name, f"self.{a}")] = set.intersection(*[e for e in ests if e is not None]) if all(e is not None for e in ests) else set()
    n = 0
    for f in p.funcs.values():
        if not isinstance(f.node, (ast.FunctionDef, ast.AsyncFunctionDef)) or any(f.module.name == x for x in common.OFF_PATH_MODULES):
            continue
        names = {k for mod, k in tls if mod == f.module.name}
        reads = [x for x in walk_no_nested(f.node) if isinstance(x, ast.Attribute) and isinstance(x.ctx, ast.Load) and norm(x.value) in names and not (isinstance(getattr(x, "_parent", None), ast.Attribute) and False)]
        if not reads:
            continue
        cfg = CFG(f.node)
        pseudo = {f"{norm(x.value)}.{x.attr}" for x in reads}
        kill = {}
        for nd in cfg.nodes:
            if nd.kind == "stmt" and isinstance(nd.ast, (ast.Assign, ast.AugAssign, ast.AnnAssign)):
                for t in (nd.ast.targets if isinstance(nd.ast, ast.Assign) else [nd.ast.target]):
                    if isinstance(t, ast.Attribute) and norm(t) in pseudo:
                        kill.setdefault(nd.id, set()).add(norm(t))
            if nd.kind == "edge" and nd.test is not None and nd.polarity is not None:
                for t, pol in decompose(nd.test, nd.polarity):
                    if pol and isinstance(t, ast.Call) and norm(t.func) == "hasattr" and len(t.args) == 2 and isinstance(t.args[1], ast.Constant):
                        kill.setdefault(nd.id, set()).add(f"{norm(t.args[0])}.{t.args[1].value}")
        # a call of a helper that sets the attribute up on every normal exit establishes it for the caller too
        for nd in cfg.nodes:
            if nd.kind in ("stmt", "test") and nd.ast is not None and not isinstance(nd.ast, (ast.If, ast.For, ast.While, ast.Try, ast.With, ast.FunctionDef, ast.ClassDef)) or nd.kind == "test":
                e = nd.test if nd.kind == "test" and getattr(nd, "test", None) is not None else nd.ast
                if e is None or isinstance(e, (ast.If, ast.For, ast.While, ast.Try, ast.With, ast.FunctionDef, ast.ClassDef)):
                    continue
                for c2 in ast.walk(e):
                    if isinstance(c2, ast.Call):
                        r = resolve_callee(p, c2, f.module)
                        if r and r[0] == "func" and r[1] is not f:
                            for nm in _establishes(p, r[1], names):
                                if nm in pseudo:
                                    kill.setdefault(nd.id, set()).add(nm)
        IN = {x.id: set() for x in cfg.nodes}
        OUT = {x.id: set() for x in cfg.nodes}
        OUT[cfg.entry.id] = set(pseudo)
        work = list(cfg.nodes)
        while work:
            nd = work.pop()
            if nd is cfg.entry:
                o = set(pseudo)
            else:
                i = set()
                for q in nd.pred:
                    i |= OUT[q.id]
                IN[nd.id] = i
                o = i - kill.get(nd.id, set())
            if o != OUT[nd.id]:
                OUT[nd.id] = o
                work.extend(nd.succ)
        for x in reads:
            nm = f"{norm(x.value)}.{x.attr}"
            nd = cfg.node_for(x)
            if nd is None:
                continue
            n += 1
            if x.attr in established.get((f.module.name, norm(x.value)), ()):
                rep.ok("C10.R7", f"{f.qualname}:read:{nm}", f"{f.module.rel}:{x.lineno}", f"`{nm}` is set up by the storage class's __init__, which threading.local runs in every thread")
                continue
            # EAFP: `try: return TL.attr  except AttributeError: TL.attr = ...`
            if any(any(h.type is None or norm(h.type).split(".")[-1] in ("AttributeError", "Exception", "BaseException") or (isinstance(h.type, ast.Tuple) and any(norm(e).endswith("AttributeError") for e in h.type.elts)) for h in t.handlers) for t in common.enclosing_tries(x, f.node)):
                rep.ok("C10.R7", f"{f.qualname}:read:{nm}", f"{f.module.rel}:{x.lineno}", f"`{nm}` is read inside try/except AttributeError (initialised in the handler)")
                continue
            par = getattr(x, "_parent", None)
            own_store = isinstance(par, ast.AugAssign) and par.target is x
            ok = nm not in IN[nd.id] and not own_store
            if not ok and f.cls is not None and f.name in ("__exit__", "_exit", "exit"):
                # the paired enter method of the same context manager runs first, on the same thread
                pair = f.cls.methods.get({"__exit__": "__enter__", "_exit": "_enter", "exit": "enter"}[f.name])
                if pair is not None and nm in _establishes(p, pair, names):
                    rep.ok("C10.R7", f"{f.qualname}:read:{nm}", f"{f.module.rel}:{x.lineno}", f"`{nm}` is established by the paired {pair.name} of the same context manager (through a set-up helper), which runs first on the same thread")
                    continue
                if pair is not None and any((isinstance(a, ast.Assign) and any(norm(t) == nm for t in a.targets)) or (isinstance(a, ast.Call) and norm(a.func) == "hasattr" and len(a.args) == 2 and isinstance(a.args[1], ast.Constant) and f"{norm(a.args[0])}.{a.args[1].value}" == nm) for a in ast.walk(pair.node)):
                    rep.ok("C10.R7", f"{f.qualname}:read:{nm}", f"{f.module.rel}:{x.lineno}", f"`{nm}` is established by the paired {pair.name} of the same context manager, which runs first on the same thread")
                    continue
            rep.add("C10.R7", f"{f.qualname}:read:{nm}", f"{f.module.rel}:{x.lineno}", ok, f"`{nm}` is set or checked with hasattr on every path of {f.name} before it is read" if ok else f"`{nm}` is read in {f.name} without a hasattr guard or assignment in the same function: a thread other than the one that ran the initialisation finds an empty threading.local and raises AttributeError (the call fails only because of which thread it runs on)")
    return n


def run(p, rep, tier):
    lockinfo = r1(p, rep)
    r2(p, rep, lockinfo)
    r3(p, rep, lockinfo)
    r4(p, rep)
    r5(p, rep)
    r6(p, rep)
    r7(p, rep)
    rep.info["undecided"] = "linearizability of whole call histories; the process-global use_stack being shared by threads is a specification question"
