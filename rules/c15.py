"""C15 - adapted user functions follow loop-notation semantics; their outputs are checked.

Decided clauses:
 R1 adapter outputs are type/arity/shape checked before they are trusted (T-MPT)
 R2 keyword-only options can never be captured as axis sizes (clash test dominates the split; the split is a
    partition; the keyword predicate is exactly 'keyword-only parameter of the user function')
 R3 the user function is embedded as a constant of the generated code, never called while adapting/tracing
 R4 sibling adapters of all backends agree (expected_type on both stages; only reduce adapters reserve `axis`)
 R5 the optimiser never removes the output checks (= C05.R8)
"""

from __future__ import annotations

import ast

from sa.cfg import CFG
from sa.core import AnalysisError, attr_chain, enclosing, norm, parents, resolve_callee, walk_no_nested

from . import backends, c13, common


def r1(p, rep):
    rep.rule("C15.R1", "adapter outputs are checked before they are trusted", "T-MPT (dominators on the value pipeline)", floor=4)
    f = p.func("_ensure_output.inner", "adapter._util")
    c13.checked_before_trusted(p, rep, "C15.R1", f, require_type_guard="expected_type")
    # multi-output: tuple type and arity asserts dominate the cast to a list of values
    cfg = CFG(f.node)
    items = c13._assert_calls(p, f)
    var = "tensors_out"
    casts = [n for n, v, kind, what in items if v == var and kind == "cast"]
    asserts = {what: n for n, v, kind, what in items if v == var and kind == "assert_"}
    if not casts:
        raise AnalysisError("unrecognised idiom: no cast of tensors_out in _ensure_output.inner")
    for c in casts:
        cn = cfg.node_for(c)
        for need in ("type", "arity"):
            a = asserts.get(need)
            ok = a is not None and cfg.dominates(cfg.node_for(a), cn)
            rep.add("C15.R1", f"{f.qualname}:{var}:{need}-checked-before-cast", f"{f.module.rel}:{c.lineno}", ok, f"tuple {need} assert dominates the cast" if ok else f"the returned tuple is split into outputs without the run-time {need} check")
    # statically known tuples: arity mismatch raises
    raises = [r for r in walk_no_nested(f.node) if isinstance(r, ast.Raise)]
    arity = [r for r in raises if any("len(tensors_out) != len(expected_out_shapes)" == norm(t) and pol for t, pol in cfg.guards(cfg.node_for(r)))]
    rep.add("C15.R1", f"{f.qualname}:static-arity", f.loc, bool(arity), "a statically visible tuple of the wrong length raises")
    shape = [r for r in raises if any("shape" in norm(t) and "!=" in norm(t) and pol for t, pol in cfg.guards(cfg.node_for(r)))]
    rep.add("C15.R1", f"{f.qualname}:static-shape", f.loc, bool(shape), "a statically known wrong output shape raises")


def r2(p, rep):
    rep.rule("C15.R2", "keyword-only options can never be captured as sizes", "T-DOM + partition", floor=5)
    f = p.func("op.inner", "adapter.einx_from_namedtensor")
    cfg = CFG(f.node)
    # the split loop: for key, value in kwargs.items(): if iskwarg(key): A[key] = value else: B[key] = value
    loops = [n for n in walk_no_nested(f.node) if isinstance(n, ast.For) and norm(n.iter).endswith("kwargs.items()")]
    split = None
    for l in loops:
        if len(l.body) == 1 and isinstance(l.body[0], ast.If) and norm(l.body[0].test).startswith("iskwarg("):
            split = l
    if split is None:
        raise AnalysisError("unrecognised idiom: no `for key, value in kwargs.items(): if iskwarg(key)` split in op.inner")
    iff = split.body[0]
    key = split.target.elts[0].id
    def stores(block):
        return [norm(t.value) for st in block for t in (st.targets if isinstance(st, ast.Assign) else []) if isinstance(t, ast.Subscript) and norm(t.slice) == key]
    a, b = stores(iff.body), stores(iff.orelse)
    ok = len(a) == 1 and len(b) == 1 and a[0] != b[0] and len(iff.body) == 1 and len(iff.orelse) == 1
    rep.add("C15.R2", f"{f.qualname}:partition", f"{f.module.rel}:{split.lineno}", ok, f"each key goes to exactly one of {a + b}" if ok else f"the keyword split is not a partition (then-branch stores {a}, else-branch stores {b}): an option can be both forwarded and used as an axis size, or lost")
    # the clash test (raise SemanticError if a used axis name is a keyword) dominates the split
    clashes = [r for r in walk_no_nested(f.node) if isinstance(r, ast.Raise) and any("iskwarg(" in norm(t) and pol for t, pol in cfg.guards(cfg.node_for(r)))]
    ok = False
    why = "no `if any(iskwarg(name) ...): raise SemanticError` before the split"
    for r in clashes:
        kind = common.raised_class(p, f.module, r, f.node)
        iff2 = enclosing(r, ast.If)
        fe = [n for n in cfg.nodes if n.kind == "edge" and n.ast is iff2 and n.polarity is False]
        sn = cfg.node_of_stmt.get(id(split))
        if kind == ("errors", "SemanticError") and fe and sn is not None and cfg.dominates(fe[0], sn):
            names_src = norm(iff2.test)
            ok, why = True, f"`{names_src[:60]}` -> SemanticError dominates the split"
    rep.add("C15.R2", f"{f.qualname}:clash-before-split", f.loc, ok, why)
    # the names tested are all axis names of inputs and outputs
    used = [n for n in walk_no_nested(f.node) if isinstance(n, ast.Assign) and norm(n.targets[0]) == "used_axis_names"]
    ok = bool(used) and "exprs_in + exprs_out" in norm(used[0].value) and ".nodes()" in norm(used[0].value)
    rep.add("C15.R2", f"{f.qualname}:clash-domain", f.loc, ok, "the clash test ranges over every axis name of all input and output expressions")
    # _make_iskwarg: exactly the KEYWORD_ONLY parameters
    g = p.func("_make_iskwarg", "frontend.impl._util")
    lam = [n for n in walk_no_nested(g.node) if isinstance(n, ast.Return) and isinstance(n.value, ast.Lambda)]
    if not lam:
        raise AnalysisError("unrecognised idiom: _make_iskwarg does not return a lambda")
    body = lam[0].value.body
    arg = lam[0].value.args.args[0].arg
    ok = isinstance(body, ast.Compare) and len(body.ops) == 1 and isinstance(body.ops[0], ast.In) and norm(body.left) == arg and isinstance(body.comparators[0], ast.Name)
    rep.add("C15.R2", f"{g.qualname}:predicate", f"{g.module.rel}:{lam[0].lineno}", ok, f"predicate is `{norm(body)}`" + ("" if ok else ": the shared predicate excludes or adds names, so for some adapter a keyword-only option is treated as an axis size (silently dropped when unused) or an axis name as an option"))
    if ok:
        lst = body.comparators[0].id
        appends = [n for n in walk_no_nested(g.node) if isinstance(n, ast.Call) and norm(n.func) == f"{lst}.append"]
        cfgg = CFG(g.node)
        good = bool(appends) and all(any("KEYWORD_ONLY" in norm(t) and pol for t, pol in cfgg.guards(cfgg.node_for(a))) for a in appends)
        rep.add("C15.R2", f"{g.qualname}:keyword-only", g.loc, good, f"{lst} collects exactly the parameters whose kind is KEYWORD_ONLY" if good else f"{lst} is not filled under `param.kind is KEYWORD_ONLY`")
        vk = [r for r in walk_no_nested(g.node) if isinstance(r, ast.Raise) and any("VAR_KEYWORD" in norm(t) and pol for t, pol in cfgg.guards(cfgg.node_for(r)))]
        rep.add("C15.R2", f"{g.qualname}:var-keyword-rejected", g.loc, bool(vk), "functions with **kwargs are rejected (their option names are unknowable)")


def adapters(p):
    out = []
    for fw, m in backends.impl_modules(p).items():
        for f in p.funcs.values():
            if f.module is m and f.parent is None and f.name.startswith("adapt"):
                out.append((fw, f))
    fm = p.modules.get("einx._src.frontend.impl.functorchdim")
    if fm is not None:
        for f in p.funcs.values():
            if f.module is fm and f.parent is None and f.name.startswith("adapt"):
                out.append(("functorchdim", f))
    if len(out) < 15:
        raise AnalysisError(f"anchor vanished: expected >= 15 adapt_* functions in frontend/impl, found {len(out)}")
    return out


def r3_r4(p, rep):
    rep.rule("C15.R3", "the user function is embedded as a constant, never called while adapting", "T-EFF (flow of the `op` parameter)", floor=15)
    rep.rule("C15.R4", "sibling adapters agree", "T-SIB", floor=30)
    for fw, f in adapters(p):
        prm = f.params[0]
        site = f.loc
        # uses of the parameter before it is rebound
        rebinding = [n for n in walk_no_nested(f.node) if isinstance(n, ast.Assign) and any(isinstance(t, ast.Name) and t.id == prm for t in n.targets)]
        if not rebinding:
            raise AnalysisError(f"unrecognised idiom: {f.qualname} never rebinds `{prm}`")
        first = min(rebinding, key=lambda n: n.lineno)
        r = resolve_callee(p, first.value, f.module) if isinstance(first.value, ast.Call) else None
        ok_const = bool(r and r[0] == "func" and r[1].qualname.endswith("signature.python::constant")) and [norm(a) for a in first.value.args] == [prm]
        rep.add("C15.R3", f"{f.qualname}:embedded", f"{f.module.rel}:{first.lineno}", ok_const, f"`{prm} = tracer.signature.python.constant({prm})` is the first rebinding" if ok_const else f"the user function is first rebound by `{norm(first.value)[:60]}` instead of being embedded as a constant")
        bad = []
        n_uses = 0
        for n in walk_no_nested(f.node):
            if isinstance(n, ast.Name) and n.id == prm and isinstance(n.ctx, ast.Load) and n.lineno <= first.lineno:
                n_uses += 1
                par = getattr(n, "_parent", None)
                if isinstance(par, ast.Call) and n in par.args:
                    callee = norm(par.func).split(".")[-1]
                    if callee in ("_make_iskwarg", "constant", "callable"):
                        continue
                if isinstance(par, ast.Call) and par.func is n:
                    bad.append(f"`{norm(par)[:50]}` CALLS the user function while adapting")
                else:
                    bad.append(f"`{norm(par)[:50]}`")
        rep.add("C15.R3", f"{f.qualname}:uses", site, not bad, f"the raw function only reaches _make_iskwarg (signature) and constant() ({n_uses} uses)" if not bad else f"the raw user function is used by {bad}")
        # R4: expected_type on both stages
        stages = [n for n in walk_no_nested(f.node) if isinstance(n, ast.Assign) and isinstance(n.value, ast.Call) and any(isinstance(t, ast.Name) and t.id == prm for t in n.targets)]
        lowering = [s for s in stages if any(x in norm(s.value.func) for x in ("decomposednamedtensor_from_classical.", "decomposednamedtensor_from_vmap.", "namedtensor_from_functorchdim."))]
        factory = [s for s in stages if "namedtensor_calltensorfactory.op" in norm(s.value.func)]
        front = [s for s in stages if "einx_from_namedtensor." in norm(s.value.func)]
        if not lowering or not factory or not front:
            raise AnalysisError(f"unrecognised idiom: {f.qualname} pipeline stages not found ({len(lowering)},{len(factory)},{len(front)})")
        et_f = common.kwarg(factory[0].value, "expected_type")
        rep.add("C15.R4", f"{f.qualname}:factory:expected_type", f"{f.module.rel}:{factory[0].lineno}", et_f is not None, f"tensor-factory stage checks expected_type={norm(et_f) if et_f is not None else None}")
        if "functorchdim" not in norm(lowering[0].value.func):
            et_l = common.kwarg(lowering[0].value, "expected_type")
            rep.add("C15.R4", f"{f.qualname}:lowering:expected_type", f"{f.module.rel}:{lowering[0].lineno}", et_l is not None and (et_f is None or norm(et_l) == norm(et_f)), f"lowering stage checks expected_type={norm(et_l) if et_l is not None else None}" + ("" if et_l is not None else ": the adapted function's return value is not type-checked"))
        # iskwarg wiring
        ik = common.kwarg(front[0].value, "iskwarg")
        ikdef = [n.value for n in walk_no_nested(f.node) if isinstance(n, ast.Assign) and norm(n.targets[0]) == "iskwarg"]
        text = norm(ikdef[0]) if ikdef else ""
        is_reduce = "reduce" in f.name or norm(front[0].value.func).endswith(".reduce") or "functorchdim" in f.module.name
        if is_reduce:
            ok = 'name != "axis"'.replace('"', "'") in text.replace('"', "'") and "_make_iskwarg(" in text
            rep.add("C15.R4", f"{f.qualname}:iskwarg", site, ok and ik is not None, "reduce-style adapter reserves `axis` (supplied by einx) and forwards all other keyword-only options" if ok else f"iskwarg = {text[:70]}")
        else:
            ok = text == f"_make_iskwarg({prm})"
            rep.add("C15.R4", f"{f.qualname}:iskwarg", site, ok and ik is not None, "every keyword-only parameter of the user function is an option" if ok else f"iskwarg = {text[:70]}: some keyword-only options of the user function are not recognised")


def run(p, rep, tier):
    r1(p, rep)
    r2(p, rep)
    r3_r4(p, rep)
    from . import c05

    c05.r8(p, rep)
    rep.info["undecided"] = "the values computed by the adapted function and that the axis= tuple / vmap axes are the right ones"
