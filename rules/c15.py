"""C15 - adapted user functions follow loop-notation semantics; their outputs are checked.

Decided clauses:
 R1 adapter outputs are type/arity/shape checked before they are trusted (T-MPT)
 R2 keyword-only options can never be captured as axis sizes (clash test dominates the split; the split is a
    partition; the keyword predicate is exactly 'keyword-only parameter of the user function')
 R3 the user function is embedded as a constant of the generated code, never called while adapting/tracing
 R4 sibling adapters of all backends agree (expected_type on both stages; only reduce adapters reserve `axis`)
 R5 the optimiser never removes the output checks (= C05.R8)
"""

from __future__ import annotations

import ast
import re

from sa.cfg import CFG
from sa.core import AnalysisError, attr_chain, enclosing, norm, parents, resolve_callee, walk_no_nested

from . import backends, c13, common


def r1(p, rep):
    rep.rule("C15.R1", "adapter outputs are checked before they are trusted", "T-MPT (dominators on the value pipeline)", floor=4)
    f = p.func("_ensure_output.inner", "adapter._util")
    fs = [common.inlined_view(p, g, "einx._src.adapter", keep_loops=True) for g in common.with_helpers(p, f)]
    found_tensor = False
    found_multi = False
    any_arity_raise = any_shape_raise = False
    for g in fs:
        if c13.checked_before_trusted(p, rep, "C15.R1", g, require_type_guard="expected_type", optional=True):
            found_tensor = True
        # multi-output: tuple type and arity asserts dominate the cast to a list of values
        cfg = CFG(g.node)
        items = c13._assert_calls(p, g)
        for c, var, kind, what in items:
            if kind != "cast" or "Tensor" in norm(c.value):
                continue
            found_multi = True
            cn = cfg.node_for(c)
            asserts = {w: n for n, v, k, w in items if v == var and k == "assert_"}
            for need in ("type", "arity"):
                a = asserts.get(need)
                ok = a is not None and cfg.dominates(cfg.node_for(a), cn)
                rep.add("C15.R1", f"{f.qualname}:multi-output:{need}-checked-before-cast", f"{g.module.rel}:{c.lineno}", ok, f"tuple {need} assert dominates the cast" if ok else f"the returned tuple is split into outputs without the run-time {need} check")
        for r in walk_no_nested(g.node):
            if isinstance(r, ast.Raise):
                facts = [(norm(t), pol) for t, pol in cfg.guards(cfg.node_for(r))]
                if any("len(" in t and "!=" in t and pol for t, pol in facts):
                    any_arity_raise = True
                if any("shape" in t and "!=" in t and pol for t, pol in facts):
                    any_shape_raise = True
    if not found_tensor or not found_multi:
        raise AnalysisError(f"unrecognised idiom: _ensure_output pipeline not found (tensor cast: {found_tensor}, multi-output cast: {found_multi})")
    rep.add("C15.R1", f"{f.qualname}:static-arity", f.loc, any_arity_raise, "a statically visible tuple of the wrong length raises")
    rep.add("C15.R1", f"{f.qualname}:static-shape", f.loc, any_shape_raise, "a statically known wrong output shape raises")


def _partition_loop(fn):
    """(loop, stores) if fn contains `for k, v in X.items()` that stores every key exactly once into one of two
    dicts selected by iskwarg(k) (if/else form or `target = A if iskwarg(k) else B; target[k] = v`)."""
    for l in walk_no_nested(fn.node):
        if not (isinstance(l, ast.For) and norm(l.iter).endswith(".items()") and isinstance(l.target, ast.Tuple) and len(l.target.elts) == 2):
            continue
        key = norm(l.target.elts[0])

        def stores(block):
            return [norm(t.value) for st in block for t in (st.targets if isinstance(st, ast.Assign) else []) if isinstance(t, ast.Subscript) and norm(t.slice) == key]

        if len(l.body) == 1 and isinstance(l.body[0], ast.If) and norm(l.body[0].test) == f"iskwarg({key})":
            iff = l.body[0]
            a, b = stores(iff.body), stores(iff.orelse)
            ok = len(a) == 1 and len(b) == 1 and a[0] != b[0] and len(iff.body) == 1 and len(iff.orelse) == 1
            return l, ok, a + b
        if len(l.body) == 2 and isinstance(l.body[0], ast.Assign) and isinstance(l.body[0].value, ast.IfExp) and norm(l.body[0].value.test) == f"iskwarg({key})":
            sel = l.body[0]
            tname = norm(sel.targets[0])
            st = stores([l.body[1]])
            a, b = norm(sel.value.body), norm(sel.value.orelse)
            ok = st == [tname] and a != b
            return l, ok, [a, b]
        if any("iskwarg(" in norm(x) for x in ast.walk(l)):
            return l, False, stores(l.body)
    # complementary dict comprehensions
    comps = [n for n in walk_no_nested(fn.node) if isinstance(n, ast.DictComp) and norm(n.generators[0].iter).endswith(".items()") and len(n.generators[0].ifs) == 1 and "iskwarg(" in norm(n.generators[0].ifs[0])]
    if len(comps) == 2:
        c1, c2 = (norm(c.generators[0].ifs[0]) for c in comps)
        ok = c1 == f"not {c2}" or c2 == f"not {c1}"
        return comps[0], ok, [c1, c2]
    return None, False, []


def _clash_raise(p, fn):
    """an `if <names that are keyword options exist>: raise SemanticError` in fn -> the If node, else None"""
    cfg = CFG(fn.node)
    for r in walk_no_nested(fn.node):
        if not isinstance(r, ast.Raise) or common.raised_class(p, fn.module, r, fn.node) != ("errors", "SemanticError"):
            continue
        iff = enclosing(r, ast.If)
        if iff is None:
            continue
        t = iff.test
        mentions = "iskwarg(" in norm(t)
        if not mentions:
            # len(invalid) > 0 / invalid  where invalid = [name for name in used if iskwarg(name)]
            for x in ast.walk(t):
                if isinstance(x, ast.Name):
                    defs = [a.value for a in walk_no_nested(fn.node) if isinstance(a, ast.Assign) and any(isinstance(tt, ast.Name) and tt.id == x.id for tt in a.targets)]
                    if any("iskwarg(" in norm(d) for d in defs):
                        mentions = True
        if mentions:
            return iff
    return None


def r2(p, rep):
    rep.rule("C15.R2", "keyword-only options can never be captured as sizes", "T-DOM + partition", floor=5)
    f = p.func("op.inner", "adapter.einx_from_namedtensor")
    cfg = CFG(f.node)
    helpers = common.with_helpers(p, f)
    # the split: in op.inner itself or in a helper called from it
    split_stmt, part_ok, stores = None, False, []
    loop, ok_, st_ = _partition_loop(f)
    if loop is not None:
        split_stmt, part_ok, stores = loop, ok_, st_
    else:
        for h in helpers[1:]:
            loop, ok_, st_ = _partition_loop(h)
            if loop is not None:
                calls = [n for n in walk_no_nested(f.node) if isinstance(n, ast.Call) and resolve_callee(p, n, f.module) == ("func", h)]
                if calls:
                    split_stmt, part_ok, stores = calls[0], ok_, st_
                    break
    if split_stmt is None:
        raise AnalysisError("unrecognised idiom: op.inner (and its helpers) contain no split of kwargs by iskwarg(key)")
    rep.add("C15.R2", f"{f.qualname}:partition", f"{f.module.rel}:{split_stmt.lineno}", part_ok, f"each key goes to exactly one of {stores}" if part_ok else f"the keyword split is not a partition ({stores}): an option can be both forwarded and used as an axis size, or lost")
    # the clash test dominates the split
    clash_node, why = None, "no `if <axis name is a keyword option>: raise SemanticError` before the split"
    iff = _clash_raise(p, f)
    if iff is not None:
        fe = [n for n in cfg.nodes if n.kind == "edge" and n.ast is iff and n.polarity is False]
        clash_node = fe[0] if fe else None
        names_src = norm(iff.test)
    else:
        for h in helpers[1:]:
            if _clash_raise(p, h) is not None:
                calls = [n for n in walk_no_nested(f.node) if isinstance(n, ast.Call) and resolve_callee(p, n, f.module) == ("func", h)]
                if calls:
                    clash_node = cfg.node_for(calls[0])
                    names_src = f"{h.name}(...)"
    sn = cfg.node_for(split_stmt) if not isinstance(split_stmt, ast.For) else cfg.node_of_stmt.get(id(split_stmt))
    ok = clash_node is not None and sn is not None and cfg.dominates(clash_node, sn)
    rep.add("C15.R2", f"{f.qualname}:clash-before-split", f.loc, ok, f"`{names_src[:60]}` -> SemanticError dominates the split" if ok else why)
    # the names tested are all axis names of inputs and outputs
    from . import ir

    dom_ok = False
    # the input and output expressions: the names bound from the parse step `ins, outs[, ...] = _parse_op(...)`
    io = None
    for a in walk_no_nested(f.node):
        if isinstance(a, ast.Assign) and isinstance(a.value, ast.Call) and len(a.targets) == 1 and isinstance(a.targets[0], ast.Tuple) and len(a.targets[0].elts) >= 2 and all(isinstance(e, ast.Name) for e in a.targets[0].elts[:2]):
            r = resolve_callee(p, a.value, f.module)
            if r and r[0] == "func" and r[1].name == "_parse_op":
                io = {a.targets[0].elts[0].id, a.targets[0].elts[1].id}
    if io is None:
        raise AnalysisError(f"unrecognised idiom: {f.qualname} does not bind the input and output expressions from _parse_op(...)")
    for g in helpers:
        for n in walk_no_nested(g.node):
            if isinstance(n, (ast.SetComp, ast.ListComp)) and ".nodes()" in norm(n) and ".name" in norm(n.elt):
                names = ir.derive(g.node, n)[0]
                if g is f and io <= names:
                    dom_ok = True
                elif g is not f:
                    calls = [c for c in walk_no_nested(f.node) if isinstance(c, ast.Call) and resolve_callee(p, c, f.module) == ("func", g)]
                    if any(io <= ir.derive(f.node, c)[0] for c in calls):
                        dom_ok = True
    rep.add("C15.R2", f"{f.qualname}:clash-domain", f.loc, dom_ok, "the clash test ranges over every axis name of all input and output expressions")
    # the predicate factory: exactly the KEYWORD_ONLY parameters
    facts_ = predicate_classes(p)
    if facts_ and not any(f_.name == "_make_iskwarg" and f_.module.name.endswith("frontend.impl._util") for f_ in p.funcs.values()):
        _r2_class_form(p, rep, facts_)
        return
    g = p.func("_make_iskwarg", "frontend.impl._util")
    lam = [n for n in walk_no_nested(g.node) if isinstance(n, ast.Return) and isinstance(n.value, ast.Lambda)]
    body = arg = None
    if lam:
        body = lam[0].value.body
        arg = lam[0].value.args.args[0].arg
    else:
        # `def is_kwarg(name): return name in names` ; `return is_kwarg`
        rets = [n for n in walk_no_nested(g.node) if isinstance(n, ast.Return) and isinstance(n.value, ast.Name)]
        for r in rets:
            inner = [h for h in p.funcs.values() if h.parent is g and h.name == r.value.id]
            if inner:
                irets = [x for x in walk_no_nested(inner[0].node) if isinstance(x, ast.Return)]
                if len(irets) == 1 and len(inner[0].node.body) <= 2:
                    body, arg, lam = irets[0].value, inner[0].params[0], [r]
    if body is None:
        raise AnalysisError("unrecognised idiom: _make_iskwarg does not return a lambda / single-return predicate")
    ok = isinstance(body, ast.Compare) and len(body.ops) == 1 and isinstance(body.ops[0], ast.In) and norm(body.left) == arg and isinstance(body.comparators[0], ast.Name)
    rep.add("C15.R2", f"{g.qualname}:predicate", f"{g.module.rel}:{lam[0].lineno}", ok, f"predicate is `{norm(body)}`" + ("" if ok else ": the shared predicate excludes or adds names, so for some adapter a keyword-only option is treated as an axis size (silently dropped when unused) or an axis name as an option"))
    if ok:
        lst = body.comparators[0].id
        appends = [n for n in walk_no_nested(g.node) if isinstance(n, ast.Call) and norm(n.func) == f"{lst}.append"]
        cfgg = CFG(g.node)
        # every keyword-only parameter is collected: an append under `kind is KEYWORD_ONLY`; further arms may add other
        # parameters as options, selected by their kind (`kind is POSITIONAL_OR_KEYWORD and default is not empty and ..`)
        kw_app = [a for a in appends if any("KEYWORD_ONLY" in norm(t) and pol for t, pol in cfgg.guards(cfgg.node_for(a)))]
        other_app = [a for a in appends if a not in kw_app]
        good = bool(kw_app) and all(any(re.search(r"\.kind (is|==|in) ", norm(t)) and pol for t, pol in cfgg.guards(cfgg.node_for(a))) for a in other_app)
        extra = []
        if not appends:
            # built in one go: `[name for name, param in parameters.items() if param.kind is KEYWORD_ONLY [and name not in reserved]]`
            from sa.cfg import decompose

            defs = [a.value for a in walk_no_nested(g.node) if isinstance(a, ast.Assign) and any(isinstance(t, ast.Name) and t.id == lst for t in a.targets)]
            if len(defs) == 1 and isinstance(defs[0], (ast.ListComp, ast.SetComp)):
                conds = [(t, pol) for gen in defs[0].generators for i_ in gen.ifs for t, pol in decompose(i_, True)]
                good = any("KEYWORD_ONLY" in norm(t) and pol and isinstance(t, ast.Compare) and isinstance(t.ops[0], (ast.Is, ast.Eq)) for t, pol in conds)
                extra = [(t, pol) for t, pol in conds if "KEYWORD_ONLY" not in norm(t)]
        else:
            for a in kw_app:
                extra += [(t, pol) for t, pol in cfgg.guards(cfgg.node_for(a)) if "KEYWORD_ONLY" not in norm(t) and "VAR_KEYWORD" not in norm(t) and "callable(" not in norm(t)]
        # anything else that narrows the list may only exclude names the adapter supplies itself: `name not in <parameter>`,
        # and every caller passes a literal collection of names for that parameter (a bare string would turn the
        # membership test into a substring test)
        for t, pol in extra:
            pos = common.as_positive(t, pol)
            prm = pos.comparators[0].id if isinstance(pos, ast.Compare) and isinstance(pos.ops[0], ast.NotIn) and isinstance(pos.comparators[0], ast.Name) and pos.comparators[0].id in g.params else None
            if prm is None:
                good = False
                continue
            for f2 in p.funcs.values():
                for c in walk_no_nested(f2.node):
                    if isinstance(c, ast.Call) and resolve_callee(p, c, f2.module) == ("func", g):
                        v = common.kwarg(c, prm) or (c.args[g.params.index(prm)] if g.params.index(prm) < len(c.args) else None)
                        if v is None:
                            continue
                        lit = isinstance(v, (ast.Tuple, ast.List, ast.Set)) and all(isinstance(e, ast.Constant) and isinstance(e.value, str) for e in v.elts)
                        rep.add("C15.R2", f"{f2.qualname}:{prm}-is-a-collection-of-names", f"{f2.module.rel}:{c.lineno}", lit, f"{prm}={norm(v)}" if lit else f"`{prm}={norm(v)}` is not a tuple / list / set of names: `name not in {prm}` then is a substring test and options called 'a', 'x', 'i', 's', 'ax' ... are no longer recognised as options of the adapted function")
        rep.add("C15.R2", f"{g.qualname}:keyword-only", g.loc, good, f"{lst} collects exactly the parameters whose kind is KEYWORD_ONLY" if good else f"{lst} is not filled under `param.kind is KEYWORD_ONLY`")
        vk = [r for r in walk_no_nested(g.node) if isinstance(r, ast.Raise) and any("VAR_KEYWORD" in norm(t) and pol for t, pol in cfgg.guards(cfgg.node_for(r)))]
        rep.add("C15.R2", f"{g.qualname}:var-keyword-rejected", g.loc, bool(vk), "functions with **kwargs are rejected (their option names are unknowable)")


def predicate_classes(p):
    """The `iskwarg` predicate written as a callable class (in frontend/impl/_util.py): `__init__(self, op)` collects
    the keyword-only parameter names of op, `__call__(self, name)` is the membership test, a class attribute lists the
    names the adapter supplies itself.  -> {class name: {cls, init, call, reserved (set of str) or None if not literal}}"""
    m = p.modules.get("einx._src.frontend.impl._util")
    out = {}
    if m is None:
        return out
    for c in p.classes.values():
        if c.module is not m:
            continue
        init, call = p.lookup_method(c, "__init__"), p.lookup_method(c, "__call__")
        if init is None or call is None or "KEYWORD_ONLY" not in " ".join(norm(st) for st in init.node.body) or len(call.params) != 2:
            continue
        rets = [r for r in walk_no_nested(call.node) if isinstance(r, ast.Return) and r.value is not None]
        if len(rets) != 1:
            continue
        from sa.cfg import decompose

        conds = [common.as_positive(t, pol) for t, pol in decompose(rets[0].value, True)]
        if any(x is None for x in conds):
            continue
        s0, arg = call.params
        member = [x for x in conds if isinstance(x, ast.Compare) and isinstance(x.ops[0], ast.In) and norm(x.left) == arg and isinstance(x.comparators[0], ast.Attribute) and norm(x.comparators[0].value) == s0]
        excl = [x for x in conds if isinstance(x, ast.Compare) and isinstance(x.ops[0], ast.NotIn) and norm(x.left) == arg and isinstance(x.comparators[0], ast.Attribute) and norm(x.comparators[0].value) == s0]
        other = [x for x in conds if x not in member and x not in excl]
        reserved, literal = set(), True
        for x in excl:
            attr = x.comparators[0].attr
            val = None
            for k in p.mro(c):
                if not hasattr(k, "node"):
                    continue
                for st in k.node.body:
                    if isinstance(st, ast.Assign) and any(isinstance(t, ast.Name) and t.id == attr for t in st.targets):
                        val = st.value
                        break
                if val is not None:
                    break
            if isinstance(val, (ast.Tuple, ast.List, ast.Set)) and all(isinstance(e, ast.Constant) and isinstance(e.value, str) for e in val.elts):
                reserved |= {e.value for e in val.elts}
            else:
                literal = False
        out[c.name] = {"cls": c, "init": init, "call": call, "ret": rets[0], "member": member, "other": other, "reserved": reserved if literal else None, "excl": excl}
    return out


def _r2_class_form(p, rep, facts_):
    from sa.cfg import CFG

    seen_inits = set()
    for name, inf in sorted(facts_.items()):
        c, init, call = inf["cls"], inf["init"], inf["call"]
        ok = len(inf["member"]) == 1 and not inf["other"]
        rep.add("C15.R2", f"{c.qualname}:predicate", f"{c.module.rel}:{inf['ret'].lineno}", ok, f"predicate is `{norm(inf['ret'].value)}`" + ("" if ok else ": the shared predicate excludes or adds names, so for some adapter a keyword-only option is treated as an axis size (silently dropped when unused) or an axis name as an option"))
        for x in inf["excl"]:
            lit = inf["reserved"] is not None
            rep.add("C15.R2", f"{c.qualname}:{x.comparators[0].attr}-is-a-collection-of-names", c.loc, lit, f"{x.comparators[0].attr} = {sorted(inf['reserved'])}" if lit else f"`{x.comparators[0].attr}` of {c.name} is not a tuple / list / set of names: `name not in ...` then is a substring test and options called 'a', 'x', 'i', 's', 'ax' ... are no longer recognised as options of the adapted function")
        if not ok or id(init) in seen_inits:
            continue
        seen_inits.add(id(init))
        attr = inf["member"][0].comparators[0].attr
        s0 = init.params[0]
        # self.<attr> = tuple(<list>) / <list>: the list is filled exactly under KEYWORD_ONLY
        binds = [a.value for a in walk_no_nested(init.node) if isinstance(a, ast.Assign) and any(isinstance(t, ast.Attribute) and t.attr == attr and norm(t.value) == s0 for t in a.targets)]
        lst = None
        if len(binds) == 1:
            v = binds[0]
            if isinstance(v, ast.Call) and norm(v.func) in ("tuple", "list", "frozenset", "set") and len(v.args) == 1:
                v = v.args[0]
            if isinstance(v, ast.Name):
                lst = v.id
        cfgg = CFG(init.node)
        appends = [n for n in walk_no_nested(init.node) if lst and isinstance(n, ast.Call) and norm(n.func) == f"{lst}.append"]
        good = bool(appends) and all(any("KEYWORD_ONLY" in norm(t) and pol for t, pol in cfgg.guards(cfgg.node_for(a))) and not [1 for t, pol in cfgg.guards(cfgg.node_for(a)) if "KEYWORD_ONLY" not in norm(t) and "VAR_KEYWORD" not in norm(t) and "callable(" not in norm(t)] for a in appends)
        rep.add("C15.R2", f"{init.qualname}:keyword-only", init.loc, good, f"{lst} collects exactly the parameters whose kind is KEYWORD_ONLY" if good else f"self.{attr} is not filled under `param.kind is KEYWORD_ONLY` alone")
        vk = [r for r in walk_no_nested(init.node) if isinstance(r, ast.Raise) and any("VAR_KEYWORD" in norm(t) and pol for t, pol in cfgg.guards(cfgg.node_for(r)))]
        rep.add("C15.R2", f"{init.qualname}:var-keyword-rejected", init.loc, bool(vk), "functions with **kwargs are rejected (their option names are unknowable)")


def adapters(p):
    out = []
    for fw, m in backends.impl_modules(p).items():
        for f in p.funcs.values():
            if f.module is m and f.parent is None and f.name.startswith("adapt"):
                out.append((fw, f))
    fm = p.modules.get("einx._src.frontend.impl.functorchdim")
    if fm is not None:
        for f in p.funcs.values():
            if f.module is fm and f.parent is None and f.name.startswith("adapt"):
                out.append(("functorchdim", f))
    if len(out) < 15:
        raise AnalysisError(f"anchor vanished: expected >= 15 adapt_* functions in frontend/impl, found {len(out)}")
    return out


def r3_r4(p, rep):
    rep.rule("C15.R3", "the user function is embedded as a constant, never called while adapting", "T-EFF (flow of the `op` parameter)", floor=15)
    rep.rule("C15.R4", "sibling adapters agree", "T-SIB", floor=30)
    for fw, f in adapters(p):
        prm = f.params[0]
        # `op = _op_to_constant(op)`: when the first rebinding goes through a helper of the package, read the helper in place
        rb0 = [n for n in walk_no_nested(f.node) if isinstance(n, ast.Assign) and any(isinstance(t, ast.Name) and t.id == prm for t in n.targets)]
        if rb0:
            first0 = min(rb0, key=lambda n: n.lineno)
            r0 = resolve_callee(p, first0.value, f.module) if isinstance(first0.value, ast.Call) else None
            if r0 and r0[0] == "func" and r0[1].module.name.startswith("einx._src.frontend.impl") and not r0[1].qualname.endswith("signature.python::constant"):
                f = common.inlined_view(p, f, "einx._src.frontend.impl", keep_loops=True)
        site = f.loc
        # uses of the parameter before it is rebound
        rebinding = [n for n in walk_no_nested(f.node) if isinstance(n, ast.Assign) and any(isinstance(t, ast.Name) and t.id == prm for t in n.targets)]
        if not rebinding:
            raise AnalysisError(f"unrecognised idiom: {f.qualname} never rebinds `{prm}`")
        first = min(rebinding, key=lambda n: n.lineno)
        r = resolve_callee(p, first.value, f.module) if isinstance(first.value, ast.Call) else None
        ok_const = bool(r and r[0] == "func" and r[1].qualname.endswith("signature.python::constant")) and [norm(a) for a in first.value.args] == [prm]
        rep.add("C15.R3", f"{f.qualname}:embedded", f"{f.module.rel}:{first.lineno}", ok_const, f"`{prm} = tracer.signature.python.constant({prm})` is the first rebinding" if ok_const else f"the user function is first rebound by `{norm(first.value)[:60]}` instead of being embedded as a constant")
        bad = []
        n_uses = 0
        for n in walk_no_nested(f.node):
            if isinstance(n, ast.Name) and n.id == prm and isinstance(n.ctx, ast.Load) and n.lineno <= first.lineno:
                n_uses += 1
                par = getattr(n, "_parent", None)
                if isinstance(par, ast.Call) and n in par.args:
                    callee = norm(par.func).split(".")[-1]
                    if callee in ("_make_iskwarg", "constant", "callable"):
                        continue
                    if callee == "getattr" and len(par.args) >= 2 and isinstance(par.args[1], ast.Constant) and isinstance(par.args[1].value, str) and par.args[1].value.startswith("__") and par.args[0] is n:
                        continue  # the function's own metadata (__name__, __doc__): read, not called
                    pc = predicate_classes(p).get(callee)
                    if pc is not None:
                        # the constructor only looks at the function's signature
                        hp = pc["init"].params[1] if len(pc["init"].params) > 1 else None
                        inner_uses = [getattr(x, "_parent", None) for x in ast.walk(pc["init"].node) if isinstance(x, ast.Name) and x.id == hp and isinstance(x.ctx, ast.Load)]
                        if hp and all(isinstance(u, ast.Call) and norm(u.func).split(".")[-1] in ("callable", "signature", "type") and not (isinstance(u.func, ast.Name) and u.func.id == hp) for u in inner_uses):
                            continue
                    # a helper of frontend/impl/_util.py that only inspects the function's signature
                    r = resolve_callee(p, par, f.module)
                    if r and r[0] == "func" and r[1].module.name.endswith("frontend.impl._util"):
                        h = r[1]
                        idx = par.args.index(n)
                        hp = h.params[idx] if idx < len(h.params) else None
                        inner_uses = [getattr(x, "_parent", None) for x in ast.walk(h.node) if isinstance(x, ast.Name) and x.id == hp and isinstance(x.ctx, ast.Load)]
                        if hp and all(isinstance(u, ast.Call) and norm(u.func).split(".")[-1] in ("_make_iskwarg", "callable", "signature", "type") and u.func is not None and not (isinstance(u.func, ast.Name) and u.func.id == hp) for u in inner_uses):
                            continue
                if isinstance(par, ast.Call) and par.func is n:
                    bad.append(f"`{norm(par)[:50]}` CALLS the user function while adapting")
                else:
                    bad.append(f"`{norm(par)[:50]}`")
        rep.add("C15.R3", f"{f.qualname}:uses", site, not bad, f"the raw function only reaches _make_iskwarg (signature) and constant() ({n_uses} uses)" if not bad else f"the raw user function is used by {bad}")
        # R4: expected_type on both stages
        stages = [n for n in walk_no_nested(f.node) if isinstance(n, ast.Assign) and isinstance(n.value, ast.Call) and any(isinstance(t, ast.Name) and t.id == prm for t in n.targets)]
        lowering = [s for s in stages if any(x in norm(s.value.func) for x in ("decomposednamedtensor_from_classical.", "decomposednamedtensor_from_vmap.", "namedtensor_from_functorchdim."))]
        factory = [s for s in stages if "namedtensor_calltensorfactory.op" in norm(s.value.func)]
        front = [s for s in stages if "einx_from_namedtensor." in norm(s.value.func)]
        if not lowering or not factory or not front:
            raise AnalysisError(f"unrecognised idiom: {f.qualname} pipeline stages not found ({len(lowering)},{len(factory)},{len(front)})")
        et_f = common.kwarg(factory[0].value, "expected_type")
        rep.add("C15.R4", f"{f.qualname}:factory:expected_type", f"{f.module.rel}:{factory[0].lineno}", et_f is not None, f"tensor-factory stage checks expected_type={norm(et_f) if et_f is not None else None}")
        if "functorchdim" not in norm(lowering[0].value.func):
            et_l = common.kwarg(lowering[0].value, "expected_type")
            rep.add("C15.R4", f"{f.qualname}:lowering:expected_type", f"{f.module.rel}:{lowering[0].lineno}", et_l is not None and (et_f is None or norm(et_l) == norm(et_f)), f"lowering stage checks expected_type={norm(et_l) if et_l is not None else None}" + ("" if et_l is not None else ": the adapted function's return value is not type-checked"))
        # iskwarg wiring
        ik = common.kwarg(front[0].value, "iskwarg")
        # what is handed over as iskwarg=: the definition of that local (whatever it is called), or the expression itself
        ikname = ik.id if isinstance(ik, ast.Name) else None
        ikdef = [n.value for n in walk_no_nested(f.node) if isinstance(n, ast.Assign) and ikname is not None and norm(n.targets[0]) == ikname] if ikname else ([ik] if ik is not None else [])
        text = norm(ikdef[0]) if ikdef else ""
        is_reduce = "reduce" in f.name or norm(front[0].value.func).endswith(".reduce") or "functorchdim" in f.module.name
        # write out locals the definition refers to (`op_iskwarg = _make_iskwarg(op)`) and one level of helper
        extra_nodes = list(ikdef)
        if ikdef:
            for x in ast.walk(ikdef[0]):
                if isinstance(x, ast.Name) and x.id not in (prm, ikname, "name"):
                    ds = [a.value for a in walk_no_nested(f.node) if isinstance(a, ast.Assign) and len(a.targets) == 1 and isinstance(a.targets[0], ast.Name) and a.targets[0].id == x.id]
                    if len(ds) == 1:
                        text += " :: " + norm(ds[0])
                        extra_nodes.append(ds[0])
        if ikdef and isinstance(ikdef[0], ast.Call):
            r = resolve_callee(p, ikdef[0], f.module)
            if r and r[0] == "func" and r[1].module.name.endswith("frontend.impl._util") and r[1].name != "_make_iskwarg":
                text = text + " :: " + " ".join(norm(st) for st in r[1].node.body)
                extra_nodes += list(r[1].node.body)
        pcs = predicate_classes(p)
        if ikdef and isinstance(ikdef[0], ast.Call) and isinstance(ikdef[0].func, ast.Name) and ikdef[0].func.id in pcs and [norm(a) for a in ikdef[0].args] == [prm] and not ikdef[0].keywords:
            res = pcs[ikdef[0].func.id]["reserved"]
            if is_reduce:
                ok = res == {"axis"}
                rep.add("C15.R4", f"{f.qualname}:iskwarg", site, ok, "reduce-style adapter reserves `axis` (supplied by einx) and forwards all other keyword-only options" if ok else f"iskwarg = {text[:70]} reserves {sorted(res) if res is not None else '?'}, not exactly ['axis']")
            else:
                ok = res == set()
                rep.add("C15.R4", f"{f.qualname}:iskwarg", site, ok, "every keyword-only parameter of the user function is an option" if ok else f"iskwarg = {text[:70]} reserves {sorted(res) if res is not None else '?'}: some keyword-only options of the user function are not recognised")
        elif is_reduce:
            consts = {c.value for d in extra_nodes for c in ast.walk(d) if isinstance(c, ast.Constant) and isinstance(c.value, str) and not (isinstance(getattr(c, '_parent', None), ast.Expr))}
            ok = consts == {"axis"} and "_make_iskwarg(" in text
            rep.add("C15.R4", f"{f.qualname}:iskwarg", site, ok and ik is not None, "reduce-style adapter reserves `axis` (supplied by einx) and forwards all other keyword-only options" if ok else f"iskwarg = {text[:70]}")
        else:
            ok = text == f"_make_iskwarg({prm})"
            rep.add("C15.R4", f"{f.qualname}:iskwarg", site, ok and ik is not None, "every keyword-only parameter of the user function is an option" if ok else f"iskwarg = {text[:70]}: some keyword-only options of the user function are not recognised")


def r5(p, rep, rid="C15.R5"):
    rep.rule(rid, "every operand handed to the elementary function went through the alignment helper (same number of dimensions, output axis order)", "T-MPT (reaching definitions of the appended operand)", floor=1)
    from sa.cfg import CFG, ReachingDefs

    n = 0
    for f in p.funcs.values():
        if not f.module.name.startswith("einx._src.adapter.") or not isinstance(f.node, (ast.FunctionDef, ast.AsyncFunctionDef)):
            continue
        loops = [l for l in walk_no_nested(f.node) if isinstance(l, ast.For)]
        for loop in loops:
            aligns = [a for a in ast.walk(loop) if isinstance(a, ast.Assign) and isinstance(a.value, ast.Call) and norm(a.value.func).split(".")[-1] == "_squeeze_transpose_broadcast" and isinstance(a.targets[0], ast.Tuple) and len(a.targets[0].elts) == 2 and isinstance(a.targets[0].elts[1], ast.Name)]
            if not aligns:
                continue
            T = aligns[0].targets[0].elts[1].id
            if T not in {x.id for x in ast.walk(loop.target) if isinstance(x, ast.Name)}:
                continue
            cfg = CFG(f.node)
            rd = ReachingDefs(cfg)
            align_nodes = {cfg.node_for(a).id for a in aligns}
            for ap in [c for c in ast.walk(loop) if isinstance(c, ast.Call) and isinstance(c.func, ast.Attribute) and c.func.attr == "append" and c.args and isinstance(c.args[0], ast.Name) and c.args[0].id == T]:
                n += 1
                defs = set(rd.defs_reaching(cfg.node_for(ap), T))
                ok = bool(defs) and defs <= align_nodes
                rep.add(rid, f"{f.qualname}:append({T})", f"{f.module.rel}:{ap.lineno}", ok, f"`{T}` appended to the operand list is always the result of the alignment helper" if ok else f"on some path `{norm(ap)}` appends the raw operand (the loop variable) instead of the aligned one: the elementary / user function then receives operands of different rank (e.g. a Python scalar next to an n-d array), against the documented equal-rank guarantee")
        # comprehension form: [align(...) for tensor, expr in zip(...)]
        for lc in [x for x in walk_no_nested(f.node) if isinstance(x, (ast.ListComp, ast.GeneratorExp))]:
            calls = [c for c in ast.walk(lc.elt) if isinstance(c, ast.Call) and norm(c.func).split(".")[-1] == "_squeeze_transpose_broadcast"]
            if not calls:
                continue
            n += 1
            direct = lc.elt is calls[0] and not any(g.ifs for g in lc.generators)
            rep.add(rid, f"{f.qualname}:comprehension(align)", f"{f.module.rel}:{lc.lineno}", direct, "every operand of the comprehension goes through the alignment helper" if direct else f"`{norm(lc.elt)[:70]}` aligns only some operands (conditional element / filtered comprehension): the others reach the elementary function with their own rank")
    if n == 0:
        raise AnalysisError("unrecognised idiom: no operand-alignment loop found in einx._src.adapter")


def run(p, rep, tier):
    r1(p, rep)
    r2(p, rep)
    r3_r4(p, rep)
    r5(p, rep)
    from . import c05

    c05.r8(p, rep)
    from . import c01

    c01.r13(p, rep)  # the adapted function's result is labelled with the expression it was actually arranged for
    rep.info["undecided"] = "the values computed by the adapted function and that the axis= tuple / vmap axes are the right ones"
