"""C08 - results depend on axis names / positions only as the notation says (equivariance).

Only the renaming clause has a structural counterpart (parametricity); transposition, regrouping,
inversion and composition are value-level and not decided.
 R1 axis names are used only through equality (==, !=, in, dict/set keys, hashing, copying, embedding into
    derived names or messages): no ordering, no string surgery - so a consistent renaming cannot change a decision
 R2 names created by einx live outside the user's namespace (contain a character the lexer rejects)
 R3 no decision depends on the hash order of a set of names (= C16.R1)
 R4 alignment is by name (C01.R4) and the transpose merge composes correctly (C05.R1)
"""

from __future__ import annotations

import ast
import re

from sa.core import AnalysisError, LiteralEvaluator, attr_chain, enclosing, norm, parents, walk_no_nested

from . import c01, c05, c16, common
from .c16 import confined_to_raise

R1_MODULES = ("einx._src.namedtensor.stage2", "einx._src.namedtensor.stage3", "einx._src.namedtensor.solve", "einx._src.adapter", "einx._src.frontend.util")
STRING_METHODS = {"startswith", "endswith", "split", "rsplit", "partition", "lower", "upper", "strip", "replace", "find", "index", "isdigit", "isalpha", "zfill", "encode", "removeprefix", "removesuffix", "casefold", "title", "count", "join"}

# (module suffix, construct, first literal argument or None) -> reason.  Keyed by what is done, not by the name of the
# function that does it, so that moving the statement into a helper of the same module changes nothing
R1_TABLE = {
    ("namedtensor.stage3.tree", "startswith", "unnamed."): "`unnamed.` prefix test only selects how the axis is printed (__str__); the prefix cannot occur in a user name (C08.R2)",
    ("frontend.util", "split", "."): "separates the user's own name from the `.<index>` suffixes einx appended for ellipsis repetitions, to report sizes per user name",
    ("namedtensor.stage2.solve", "sorted", None): "sorted list of contradicting axis names is only used in the RankError message",
}


def _table(f, construct, node=None):
    m = f.module.name if f else ""
    lit = None
    # the string method call this attribute belongs to, and its first literal argument
    call = getattr(getattr(node, "_parent", None), "_parent", None) if node is not None else None
    for cand in (getattr(node, "_parent", None), call):
        if isinstance(cand, ast.Call) and cand.args and isinstance(cand.args[0], ast.Constant):
            lit = cand.args[0].value
        elif isinstance(cand, ast.Call) and cand.args and isinstance(cand.args[0], ast.Name) and f is not None:
            # a module-level string constant (`_UNNAMED_PREFIX = "unnamed."`)
            vals = [st.value.value for st in f.module.tree.body if isinstance(st, ast.Assign) and len(st.targets) == 1 and isinstance(st.targets[0], ast.Name) and st.targets[0].id == cand.args[0].id and isinstance(st.value, ast.Constant)]
            if len(vals) == 1:
                lit = vals[0]
    for (suffix, c, l), reason in R1_TABLE.items():
        if m.endswith(suffix) and c == construct and (l is None or l == lit):
            return reason
    # a prefix / suffix / separator literal with a character that no user axis name can contain (names match
    # [a-zA-Z_][a-zA-Z0-9_]*, C08.R2): the test tells einx's own generated names (`unnamed.<uuid>`, `cse.<n>`,
    # `<name>.<index>`) from user names and cannot depend on how the user spelled an axis
    if construct in ("startswith", "endswith", "removeprefix", "removesuffix", "split", "rsplit", "partition") and isinstance(lit, str) and re.search(r"[^a-zA-Z0-9_]", lit):
        return f"`{construct}({lit!r})`: the literal contains a character that cannot occur in a user axis name; it only recognises names einx generated itself"
    return None


def r1(p, rep):
    rep.rule("C08.R1", "axis names are used only through equality", "T-TAINT (NAME) - parametricity in the names", floor=60)
    n = 0
    for m in p.modules.values():
        if not any(m.name.startswith(x) for x in R1_MODULES):
            continue
        if "functorchdim" in m.name:
            pass
        for node in ast.walk(m.tree):
            if not (isinstance(node, ast.Attribute) and node.attr == "name" and isinstance(node.ctx, ast.Load)):
                continue
            # receivers that are not axis nodes: backend.name, graph.name, param.name
            recv = norm(node.value)
            if recv in ("backend", "self") and not m.name.startswith("einx._src.namedtensor"):
                continue
            if any(k in recv for k in ("backend", "graph", "param", "op.", "func", "origin")):
                continue
            f = p.func_containing(node)
            n += 1
            site = f"{m.rel}:{node.lineno}"
            where = f.qualname if f else m.name
            par = getattr(node, "_parent", None)
            bad = None
            construct = None
            # string surgery
            if isinstance(par, ast.Attribute) and par.attr in STRING_METHODS:
                construct = par.attr
                bad = f"string method .{par.attr}() on an axis name"
            elif isinstance(par, ast.Subscript) and par.value is node:
                construct = "slice"
                bad = "slicing / indexing an axis name"
            # ordering
            cur = node
            for up in parents(node):
                if isinstance(up, ast.Compare) and any(isinstance(o, (ast.Lt, ast.LtE, ast.Gt, ast.GtE)) for o in up.ops):
                    if any(x is cur for x in [up.left] + up.comparators):
                        construct, bad = "order", f"ordering comparison `{norm(up)[:50]}` on axis names"
                    break
                if isinstance(up, ast.Call) and isinstance(up.func, ast.Name) and up.func.id in ("sorted", "min", "max") and (cur in up.args or any(cur is k.value for k in up.keywords)):
                    construct, bad = up.func.id, f"`{up.func.id}(...)` over axis names"
                    break
                if isinstance(up, ast.Lambda):
                    gp = getattr(up, "_parent", None)
                    if isinstance(gp, ast.keyword) and gp.arg == "key":
                        construct, bad = "sortkey", "axis name used as a sort key"
                    break
                if isinstance(up, (ast.ListComp, ast.GeneratorExp, ast.SetComp)):
                    # a comprehension whose element is the name, handed to sorted/min/max
                    if up.elt is cur or getattr(cur, "_parent", None) is up:
                        cur = up
                        continue
                    break
                if isinstance(up, (ast.stmt, ast.Call, ast.Dict, ast.Subscript, ast.BinOp, ast.JoinedStr, ast.FormattedValue, ast.Compare, ast.BoolOp, ast.IfExp)):
                    break
                cur = up
            key = f"{where}:{norm(node)}:{construct or 'eq'}"
            if bad is None:
                rep.ok("C08.R1", key, site, "", nontrivial=False)
                continue
            if confined_to_raise(node, f.node) if f else False:
                rep.ok("C08.R1", key, site, f"{bad}, but only inside a raise (message text)")
                continue
            reason = _table(f, construct, node)
            if reason:
                rep.exempt("C08.R1", key, site, reason)
            else:
                rep.violation("C08.R1", key, site, f"{bad}: a decision now depends on how an axis is spelled, so consistently renaming axes can change the result")
    if n < 60:
        raise AnalysisError(f"only {n} axis-name reads found")
    rep.ok("C08.R1", "summary", "", f"{n} reads of axis names: compared for equality, used as keys, copied or embedded into derived names / messages only")


def r2(p, rep):
    rep.rule("C08.R2", "names created by einx cannot collide with user names", "T-TAB (constructor sites vs lexer regex)", floor=6)
    parse = p.module("namedtensor.stage1.parse")
    vals = p.module_var(parse, "_axis_name")
    pat = None
    for n in ast.walk(vals[0]):
        if isinstance(n, ast.Constant) and isinstance(n.value, str):
            pat = n.value
    if pat is None:
        raise AnalysisError("unrecognised idiom: parse._axis_name regex not found")
    rx = re.compile(pat)
    n_sites = 0
    for f in p.funcs.values():
        if any(f.module.name == m for m in common.OFF_PATH_MODULES):
            continue
        for node in walk_no_nested(f.node):
            if not (isinstance(node, ast.Call) and node.args):
                continue
            ch = attr_chain(node.func)
            if not ch or not (ch[-1] == "Axis" or (len(ch) >= 2 and ch[-2] == "Axis" and ch[-1] == "create")):
                continue
            a0 = node.args[0]
            consts = []
            dynamic_name_copy = False
            for x in ast.walk(a0):
                if isinstance(x, ast.Constant) and isinstance(x.value, str):
                    consts.append(x.value)
                if isinstance(x, ast.Attribute) and x.attr == "name":
                    dynamic_name_copy = True
            site = f"{f.module.rel}:{node.lineno}"
            key = f"{f.qualname}:Axis({norm(a0)[:40]})"
            if isinstance(a0, ast.Name):
                # resolve one level (name = f"unnamed.{...}")
                defs = [d.value for d in walk_no_nested(f.node) if isinstance(d, ast.Assign) and any(isinstance(t, ast.Name) and t.id == a0.id for t in d.targets)]
                for d in defs:
                    for x in ast.walk(d):
                        if isinstance(x, ast.Constant) and isinstance(x.value, str):
                            consts.append(x.value)
                if not defs:
                    continue  # parameter / token text: a user-written or forwarded name
            if not consts:
                if isinstance(a0, ast.Attribute) and a0.attr.endswith("variable_name"):
                    n_sites += 1
                    # class constant: evaluate it
                    tree = p.module("namedtensor.stage1.tree")
                    cval = None
                    for c in ast.walk(tree.tree):
                        if isinstance(c, ast.Assign) and any(norm(t) == a0.attr for t in c.targets) and isinstance(c.value, ast.Constant):
                            cval = c.value.value
                    ok = isinstance(cval, str) and not rx.fullmatch(cval)
                    rep.add("C08.R2", key, site, ok, f"constant {cval!r} is not a valid user axis name" if ok else f"internal name {cval!r} is a valid user axis name: a user axis of that name would be identified with the anonymous ellipsis variable")
                continue
            n_sites += 1
            ok = any(re.search(r"[^a-zA-Z0-9_]", c) for c in consts)
            rep.add("C08.R2", key, site, ok, f"constant part(s) {consts} contain a character outside the axis-name alphabet" if ok else f"internal axis name built from {consts} matches the user axis-name regex {pat!r}: it can collide with (and be unified with) an axis the user wrote")
    if n_sites < 6:
        raise AnalysisError(f"only {n_sites} internal axis-name construction sites found")


def r9(p, rep):
    rep.rule("C08.R9", "names that are numbered by the size of a table come from one table per call: a sub-expression that occurs in several tensors gets the same generated name in all of them", "lint (a numbering table created inside a helper that runs once per expression) with a positive self-check", floor=1)
    import os

    n = 0
    for f in p.funcs.values():
        if f.parent is not None or not isinstance(f.node, ast.FunctionDef) or any(f.module.name == m for m in common.OFF_PATH_MODULES):
            continue
        k, hits = common.restarting_counters(f.node)
        n += k
        for site, table, g, how in hits:
            rep.violation("C08.R9", f"{f.qualname}:{g.name}:{table}", f"{f.module.rel}:{site.lineno}", f"`{norm(site)[:70]}` numbers new entries by len({table}), but `{table}` is created inside `{g.name}`, which is {how}: the numbering restarts for every expression, so the same sub-expression is called cse.0 in one tensor and cse.1 in another (axes are then matched by the wrong name)")
        if k and not hits:
            rep.ok("C08.R9", f"{f.qualname}:numbering-tables", f.loc, f"{k} numbering site(s); their tables live as long as the call")
    pos = os.path.join(os.path.dirname(os.path.dirname(os.path.abspath(__file__))), "selftest", "positive", "restarting_counter.py")
    tree = ast.parse(open(pos).read())
    from sa.core import set_parents

    set_parents(tree)
    fns = {x.name: x for x in tree.body if isinstance(x, ast.FunctionDef)}
    b_, g_ = common.restarting_counters(fns["bad"]), common.restarting_counters(fns["good"])
    if not (len(b_[1]) == 1 and not g_[1]):
        raise AnalysisError("self-check of the restarting-counter lint failed on selftest/positive/restarting_counter.py")
    rep.ok("C08.R9", "self-check:positive-example", "selftest/positive/restarting_counter.py", "the lint reports the seeded positive example and is silent on its corrected twin")
    rep.ok("C08.R9", "sweep", "einx/", f"{n} numbering sites inspected", nontrivial=False)


def r10(p, rep):
    rep.rule("C08.R10", "a transposition is skipped only when the permutation is the identity - not when the permuted shape happens to equal the shape", "lint (`[A[i] for i in P] == A` as an identity test, also through one-expression helpers) with a positive self-check", floor=1)
    import os

    mods = [m for m in p.modules.values() if not any(m.name == o for o in common.OFF_PATH_MODULES)]
    n, hits = common.selection_identity_tests(p, mods)
    for node, m, whole, perm in hits:
        f = p.func_containing(node)
        rep.violation("C08.R10", f"{f.qualname if f else m.name}:{whole}[{perm}]", f"{m.rel}:{node.lineno}", f"`{norm(node)[:80]}` asks whether `{whole}` permuted by `{perm}` equals `{whole}`: true for every permutation that only exchanges axes of equal length (square matrices, h == w), so a real transposition is skipped and the data keeps its old axis order - transposition / output-permutation relations fail with the right shape and wrong values")
    rep.ok("C08.R10", "sweep", "einx/", f"{n} equality tests inspected (directly and through one-expression helpers)", nontrivial=False)
    pos = os.path.join(os.path.dirname(os.path.dirname(os.path.abspath(__file__))), "selftest", "positive", "selection_identity.py")
    tree = ast.parse(open(pos).read())
    from sa.canon import _Subst, _copy
    from sa.core import set_parents

    set_parents(tree)
    defs = {x.name: x for x in tree.body if isinstance(x, ast.FunctionDef)}

    class _M:  # the example file as a one-module "project": calls resolve to its own top-level functions
        pass

    mod = _M()
    mod.tree = tree

    def expand(m, call):
        h = defs.get(call.func.id) if isinstance(call.func, ast.Name) else None
        if h is None or len(h.body) != 1 or not isinstance(h.body[0], ast.Return) or len(call.args) != len(h.args.args):
            return None
        return _Subst(dict(zip([a.arg for a in h.args.args], call.args))).visit(_copy(h.body[0].value))

    k, h = common.selection_identity_tests(None, [mod], expand=expand)
    names = sorted({enclosing(x[0], ast.FunctionDef).name for x in h})
    if names != ["bad", "bad_helper"]:
        raise AnalysisError(f"self-check of the selection-identity lint failed on selftest/positive/selection_identity.py (reported: {names})")
    rep.ok("C08.R10", "self-check:positive-example", "selftest/positive/selection_identity.py", "the lint reports both seeded positive examples (direct and through a helper) and is silent on the corrected twin")


def run(p, rep, tier):
    r1(p, rep)
    r2(p, rep)
    rep.rule("C16.R1", "no hash-iteration order (of sets of axis names) reaches an ordered result", "T-TAINT (ORDER)", floor=15)
    c16.r1(p, rep)
    rep.rule("C01.R4", "the alignment permutation iterates output axes and indexes input axes", "T-DER [S]", floor=1)
    c01.r4(p, rep)
    rep.rule("C05.R1", "merged transpose = inner permutation indexed by the outer permutation", "T-DER [S]", floor=1)
    c05.r1(p, rep)
    c01.r10(p, rep)  # a skipped window check changes which positions are transposed
    c01.r9(p, rep)  # composition / inversion relations break when split and re-assembly disagree on the nesting order
    r9(p, rep)
    r10(p, rep)
    c01.r12(p, rep)  # operands that list their batch axes in different orders are paired wrongly when the groups are not shared
    rep.info["undecided"] = "transposition, output permutation, regrouping, inversion and composition relations (value-level); e.g. the non-adjacent diagonal defect of classical_from_numpy.diagonal is not found"
