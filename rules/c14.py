"""C14 - indexed updates apply every update exactly once and touch nothing else.

Decided clauses (the value semantics of the ravel arithmetic are out of reach):
 R1 the three scatter registrations of every backend agree on broadcasting the updates (T-SIB)
 R2 the zero-size shortcut returns the target tensor
 R3 the update_at family is constructed with the flags its semantics need
 R4 in the shared scatter combinator, indices and updates are both broadcast to the common shape
    on every path on which a broadcast function was supplied (T-MPT)
 R5 length-1 squeezing never removes a bracketed (coordinate-addressed) axis
 R6 coordinates are matched to bracketed target axes by one shared order (ravel uses the target's bracket order)
"""

from __future__ import annotations

import ast

from sa.cfg import CFG
from sa.core import AnalysisError, attr_chain, norm, resolve_callee, walk_no_nested

from . import backends, common

UPDATE_NAMES = ("set_at", "add_at", "subtract_at")
# primitives that broadcast the update values against the index array themselves
NATIVE_BROADCAST = {("mlx", "set_at"): "mx.array.__setitem__ (x[indices] = updates) broadcasts the assigned value like numpy item assignment"}


def r1(p, rep):
    rep.rule("C14.R1", "scatter registrations agree on broadcasting", "T-SIB over the *_at registrations of all backends", floor=18)
    n = 0
    for fw, cls in backends.classical_ops(p).items():
        regs = {r.name: r for r in backends.registrations(p, cls) if r.name in UPDATE_NAMES}
        if not regs:
            if fw == "arrayapi":
                continue
            raise AnalysisError(f"anchor vanished: backend {fw} registers no *_at operation")
        kwsets = {}
        for name in UPDATE_NAMES:
            r = regs.get(name)
            if r is None:
                rep.violation("C14.R1", f"{cls.qualname}:{name}:missing", cls.loc, f"backend {fw} registers {sorted(regs)} but not {name}")
                continue
            n += 1
            comb = (r.combinator or "").split(".")[-1]
            if comb == "_unsupported_op":
                n -= 1
                rep.ok("C14.R1", f"{cls.qualname}:{name}:unsupported", r.site, "declared unsupported (raises OperationNotSupportedError)", nontrivial=False)
                kwsets.pop(name, None)
                continue
            if comb != "update_at":
                raise AnalysisError(f"unrecognised idiom: {cls.qualname}.{name} is not built by the update_at combinator ({r.combinator})")
            kws = r.keywords()
            kwsets[name] = set(kws)
            key = f"{cls.qualname}:{name}:broadcast"
            if "broadcast" in kws:
                ok = norm(kws["broadcast"]).endswith("broadcast_to")
                rep.add("C14.R1", key, r.site, ok, f"broadcast={norm(kws['broadcast'])}")
            elif (fw, name) in NATIVE_BROADCAST:
                rep.exempt("C14.R1", key, r.site, NATIVE_BROADCAST[(fw, name)])
            else:
                rep.violation("C14.R1", key, r.site, f"{fw} {name} is registered without broadcast=: update values that lack an axis of the coordinates are not repeated along it (np.put-style primitives cycle the flattened values instead), while the sibling registrations broadcast")
        # siblings agree on the remaining keywords (reshape=, to_tensor=)
        ref = None
        for name, ks in kwsets.items():
            ks2 = ks - {"broadcast"}
            if ref is None:
                ref = (name, ks2)
            elif ks2 != ref[1]:
                rep.violation("C14.R1", f"{cls.qualname}:{name}:kwargs", regs[name].site, f"{name} passes {sorted(ks2)} but {ref[0]} passes {sorted(ref[1])}")
        if ref is not None:
            rep.ok("C14.R1", f"{cls.qualname}:siblings", cls.loc, f"set/add/subtract pass the same keyword set {sorted(ref[1])} (+broadcast)")
    if n < 18:
        raise AnalysisError(f"only {n} *_at registrations found (expected 18 = 6 backends x 3)")


def r2(p, rep):
    rep.rule("C14.R2", "the zero-size shortcut returns the target", "T-DER", floor=1)
    f = p.func("update_at.op_with_zerosized_args", "adapter.einx_from_namedtensor")
    star = f.node.args.vararg.arg if f.node.args.vararg else None
    rets = [n for n in walk_no_nested(f.node) if isinstance(n, ast.Return)]
    cfg = CFG(f.node)
    found = False
    # `target, *coordinates, updates = tensors`: names for positions of the operand tuple
    alias = {}  # name -> "target" | "rest"
    for a in walk_no_nested(f.node):
        if isinstance(a, ast.Assign) and len(a.targets) == 1 and isinstance(a.targets[0], ast.Tuple) and isinstance(a.value, ast.Name) and a.value.id == star:
            elts = a.targets[0].elts
            for i_, e in enumerate(elts):
                nm = e.value.id if isinstance(e, ast.Starred) and isinstance(e.value, ast.Name) else (e.id if isinstance(e, ast.Name) else None)
                if nm:
                    alias[nm] = "target" if (i_ == 0 and not isinstance(e, ast.Starred)) else "rest"
        if isinstance(a, ast.Assign) and len(a.targets) == 1 and isinstance(a.targets[0], ast.Name) and isinstance(a.value, ast.Subscript) and isinstance(a.value.value, ast.Name) and a.value.value.id == star:
            sl = a.value.slice
            alias[a.targets[0].id] = "target" if isinstance(sl, ast.Constant) and sl.value == 0 else "rest"
    for r in rets:
        if isinstance(r.value, ast.Name) and r.value.id in alias:
            found = True
            ok = alias[r.value.id] == "target"
            facts = cfg.guards(cfg.node_for(r))
            used = {y.id for t, pol in facts for y in ast.walk(t) if isinstance(y, ast.Name) and y.id in alias}
            text = " ".join(norm(t) for t, pol in facts)
            for t, pol in facts:
                for c in ast.walk(t):
                    if isinstance(c, ast.Call):
                        rr = resolve_callee(p, c, f.module)
                        if rr and rr[0] == "func":
                            text += " :: " + " ".join(norm(st) for st in rr[1].node.body)
            ok2 = bool(used) and all(alias[u] == "rest" for u in used) and "== 0" in text
            # one empty coordinate / update tensor is enough for "nothing is written": the test over several tensors is
            # existential
            univ = [c for t, pol in facts if pol for c in ast.walk(t) if isinstance(c, ast.Call) and isinstance(c.func, ast.Name) and c.func.id == "all" and c.args and isinstance(c.args[0], (ast.GeneratorExp, ast.ListComp)) and any(isinstance(y, ast.Name) and alias.get(y.id) == "rest" for y in ast.walk(c.args[0].generators[0].iter))]
            if univ:
                rep.violation("C14.R2", f"{f.qualname}:shortcut-quantifier", f"{f.module.rel}:{r.lineno}", f"`{norm(univ[0])[:70]}` requires ALL of these tensors to be empty: with one empty and one non-empty coordinate tensor the shortcut is not taken and the call fails in the solver instead of returning the unchanged target")
            rep.add("C14.R2", f"{f.qualname}:shortcut-returns", f"{f.module.rel}:{r.lineno}", ok, f"returns {norm(r.value)} (= {star}[0])" if ok else f"returns `{norm(r.value)}`, which is not the target operand")
            rep.add("C14.R2", f"{f.qualname}:shortcut-condition", f"{f.module.rel}:{r.lineno}", ok2, f"taken when a zero length occurs among the coordinates / updates ({sorted(used)}): {text[:100]}")
            continue
        if isinstance(r.value, ast.Subscript) and isinstance(r.value.value, ast.Name) and r.value.value.id == star:
            found = True
            ok = isinstance(r.value.slice, ast.Constant) and r.value.slice.value == 0
            # the shortcut only looks at coordinates/updates (tensors[1:]), never at the target's own size
            facts = cfg.guards(cfg.node_for(r))
            cond = " and ".join(norm(t) for t, pol in facts if pol)
            # the test may live in a helper that receives the tensors
            for t, pol in facts:
                for c in ast.walk(t):
                    if isinstance(c, ast.Call):
                        rr = resolve_callee(p, c, f.module)
                        if rr and rr[0] == "func" and any(norm(a) == star for a in c.args):
                            hp = rr[1].params[[norm(a) for a in c.args].index(star)]
                            cond += " :: " + " ".join(norm(st) for st in rr[1].node.body).replace(f"{hp}[1:]", f"{star}[1:]")
                        elif rr and rr[0] == "func" and any(f"{star}[1:]" in norm(a) for a in c.args):
                            # the helper is handed the coordinates / updates only
                            cond += " :: " + " ".join(norm(st) for st in rr[1].node.body)
            ok2 = f"{star}[1:]" in cond and "== 0" in cond
            rep.add("C14.R2", f"{f.qualname}:shortcut-returns", f"{f.module.rel}:{r.lineno}", ok, f"returns {norm(r.value)}")
            rep.add("C14.R2", f"{f.qualname}:shortcut-condition", f"{f.module.rel}:{r.lineno}", ok2, f"taken when a zero length occurs in {star}[1:] (coordinates / updates): {cond[:120]}")
    if not found:
        raise AnalysisError("unrecognised idiom: op_with_zerosized_args has no `return tensors[k]` shortcut")


FAMILY_FLAGS = {
    # flag -> (families that must pass it with this value, value)
    "allow_nontrivial_unmarked_reduced_axes": ({"update_at"}, True),
    "no_el_axis_permute": ({"update_at", "preserve_shape"}, True),
    "mark_reduced_axes": ({"reduce", "dot"}, True),
    "add_keepdims_param": ({"reduce"}, True),
    "allow_duplicate_el_axes": ({"dot"}, False),
}
IMPLICIT_OUTPUT = {"update_at": 0}  # every other family: "bijective"


def family_constructors(p):
    """family name -> (Func, the globals()["op"](...) / op(...) call inside it)"""
    m = p.module("adapter.einx_from_namedtensor")
    out = {}
    for f in p.funcs.values():
        if f.module is not m or f.parent is not None or f.cls is not None:
            continue
        for n in walk_no_nested(f.node):
            if isinstance(n, ast.Call) and any(k.arg == "el_op" for k in n.keywords) and any(k.arg == "implicit_output" for k in n.keywords):
                out[f.name] = (f, n)
    if len(out) < 8:
        raise AnalysisError(f"anchor vanished: expected >= 8 family constructors in einx_from_namedtensor, found {sorted(out)}")
    return out


def r3(p, rep, rid="C14.R3", only_update=True):
    fams = family_constructors(p)
    for fam, (f, call) in sorted(fams.items()):
        kws = {k.arg: k.value for k in call.keywords if k.arg}
        site = f"{f.module.rel}:{call.lineno}"
        for flag, (needed, value) in FAMILY_FLAGS.items():
            if only_update and "update_at" not in needed and fam != "update_at":
                continue
            v = kws.get(flag)
            has = isinstance(v, ast.Constant) and v.value is value
            if fam in needed:
                rep.add(rid, f"{f.qualname}:{flag}", site, has, f"{flag}={norm(v) if v is not None else '<default>'} (must be {value} for the {fam} family)")
            elif not only_update or fam == "update_at" or "update_at" in needed:
                rep.add(rid, f"{f.qualname}:{flag}", site, v is None or not has, f"{flag}={norm(v) if v is not None else '<default>'} (only {sorted(needed)} pass {value})")
        io = kws.get("implicit_output")
        want = IMPLICIT_OUTPUT.get(fam, "bijective")
        ok = isinstance(io, ast.Constant) and io.value == want and type(io.value) is type(want)
        if not only_update or fam == "update_at":
            rep.add(rid, f"{f.qualname}:implicit_output", site, ok, f"implicit_output={norm(io) if io is not None else None} (documented default for {fam}: {want!r})")


def r4(p, rep):
    rep.rule("C14.R4", "indices and updates are broadcast to the common shape whenever a broadcast function is supplied", "T-MPT over the CFG of the scatter combinator", floor=2)
    outer, f0 = common.scatter_combinator_inner(p)
    # small nested helpers (`indices, updates = broadcast_together(indices, updates)`) are written out first
    import types as _types

    fnode = common.inline_lexical_helpers(f0.node)
    f = _types.SimpleNamespace(node=fnode, params=f0.params, module=f0.module, qualname=f0.qualname)
    cfg = CFG(f.node)
    params = f.params
    opname = outer.params[0]
    opcalls = [n for n in walk_no_nested(f.node) if isinstance(n, ast.Call) and isinstance(n.func, ast.Name) and n.func.id == opname]
    if not opcalls:
        raise AnalysisError("unrecognised idiom: the scatter combinator never calls its primitive")
    opnode = cfg.node_for(opcalls[0])
    def _t(n):
        # the test as written, or with a named boolean (`needs_broadcast = broadcast is not None`) written out
        return {norm(n.test), norm(cfg.expand(n.test, n.pred[0] if n.pred else n))}

    edges = [n for n in cfg.nodes if n.kind == "edge" and n.polarity is True and n.test is not None and "broadcast is not None" in _t(n)]
    if not edges:
        edges = [n for n in cfg.nodes if n.kind == "edge" and n.polarity is False and n.test is not None and "broadcast is None" in _t(n)]
    if not edges:
        raise AnalysisError("unrecognised idiom: no test of `broadcast is not None` in the scatter combinator")
    shapes = []
    for i in (1, 2):
        # the local that carries parameter i when op is called
        var = opcalls[0].args[i]
        vname = var.id if isinstance(var, ast.Name) else None
        def _is_bc(t, v):
            return isinstance(t, ast.Name) and t.id == vname and isinstance(v, ast.Call) and isinstance(v.func, ast.Name) and v.func.id == "broadcast" and v.args and norm(v.args[0]) == vname

        assigns = []
        for n in walk_no_nested(f.node):
            if not (isinstance(n, ast.Assign) and vname):
                continue
            for t in n.targets:
                if _is_bc(t, n.value):
                    assigns.append(n)
                elif isinstance(t, ast.Tuple) and isinstance(n.value, ast.Tuple) and len(t.elts) == len(n.value.elts):
                    # `indices, updates = broadcast(indices, shape), broadcast(updates, shape)`
                    for te, ve in zip(t.elts, n.value.elts):
                        if _is_bc(te, ve):
                            assigns.append(ast.copy_location(ast.Assign(targets=[te], value=ve), n))
                            assigns[-1]._parent = n
        nodes = [cfg.node_for(a) for a in assigns]
        skip = cfg.can_reach(edges[0], opnode, avoid=nodes) if nodes else True
        common.thorough_paths(rep, f"C14.R4:arg{i}", cfg, edges[0], opnode, nodes, dominator_verdict=not skip)
        shapes += [a.value.args[1] for a in assigns if len(a.value.args) > 1]
        rep.add(
            "C14.R4",
            f"{outer.qualname}:closure:broadcast(arg{i})",
            f"{f.module.rel}:{(assigns[0].lineno if assigns else opcalls[0].lineno)}",
            not skip,
            f"every path from `broadcast is not None` to the primitive rebinds {vname} = broadcast({vname}, shape)" if not skip else f"there is a path from `broadcast is not None` to the primitive on which `{vname}` (the {'indices' if i == 1 else 'updates'}) is not broadcast to the common shape: primitives that flatten/cycle their values (np.put) then pair update values with the wrong elements",
        )
    # both are broadcast to one common shape = elementwise maximum of both shapes
    same = len({norm(x) for x in shapes}) == 1 and len(shapes) >= 2
    ok = False
    text = "?"
    if same:
        sname = shapes[0]
        defs = [n.value for n in walk_no_nested(f.node) if isinstance(n, ast.Assign) and any(norm(t) == norm(sname) for t in n.targets)] if isinstance(sname, ast.Name) else [sname]
        # everything the shape is computed from: its definitions, loops that append to it, and locals they mention
        fstmts = [st for st in walk_no_nested(f.node) if isinstance(st, (ast.For, ast.Assign, ast.Expr)) and isinstance(sname, ast.Name) and any(isinstance(y, ast.Name) and y.id == sname.id for y in ast.walk(st)) and not any(isinstance(y, ast.Call) and isinstance(y.func, ast.Name) and y.func.id in ("broadcast", opname) for y in ast.walk(st))]
        feed = " ".join(norm(st) for st in fstmts)
        for nm in {y.id for st in fstmts for y in ast.walk(st) if isinstance(y, ast.Name)}:
            feed += " " + " ".join(norm(a_.value) for a_ in walk_no_nested(f.node) if isinstance(a_, ast.Assign) and any(isinstance(t, ast.Name) and t.id == nm for t in a_.targets) and ".shape" in norm(a_.value))
        for d in defs:
            text = norm(d) + " " + feed
            body = text
            for c in ast.walk(d):
                if isinstance(c, ast.Call):
                    r = resolve_callee(p, c, f.module)
                    if r and r[0] == "func":
                        body += " " + " ".join(norm(st) for st in r[1].node.body)
            a1, a2 = norm(opcalls[0].args[1]), norm(opcalls[0].args[2])
            ok = f"{a1}.shape" in text and f"{a2}.shape" in text and ("maximum(" in body or "max(" in body)
    rep.add("C14.R4", f"{outer.qualname}:closure:common-shape", f"{f.module.rel}:{opcalls[0].lineno}", same and ok, f"common shape = {text[:90]}" if same and ok else f"indices and updates are not broadcast to one elementwise-maximum shape ({[norm(x) for x in shapes]}; {text[:60]})")


def r5(p, rep):
    rep.rule("C14.R5", "length-1 squeezing never removes a bracketed axis", "T-DOM (predicate form)", floor=1)
    from sa.cfg import decompose

    m = p.module("adapter.namedtensor_from_decomposednamedtensor")
    n_found = 0
    for f in p.funcs.values():
        if f.module is not m:
            continue
        for n in walk_no_nested(f.node):
            if not (isinstance(n, ast.Call) and norm(n.func).endswith("stage3.remove") and len(n.args) >= 2):
                continue
            pred = n.args[1]
            conds = []  # list of (facts under which the predicate returns a truthy value, arg name)
            if isinstance(pred, ast.Lambda):
                conds.append((decompose(pred.body, True), pred.args.args[0].arg))
            elif isinstance(pred, ast.Name):
                r = resolve_callee(p, pred, m)
                g = r[1] if r and r[0] == "func" else None
                if g is None:
                    continue
                cfg = CFG(g.node)
                arg = g.params[0]
                for ret in walk_no_nested(g.node):
                    if isinstance(ret, ast.Return) and ret.value is not None and not (isinstance(ret.value, ast.Constant) and ret.value.value is False):
                        facts = cfg.guards(cfg.node_for(ret))
                        if not (isinstance(ret.value, ast.Constant) and ret.value.value is True):
                            facts = facts + decompose(ret.value, True)
                        conds.append((facts, arg))
            for facts, arg in conds:
                texts = [(norm(t), pol) for t, pol in facts]
                if not any(t == f"{arg}.value == 1" and pol for t, pol in texts):
                    continue
                n_found += 1
                ok = any(t.endswith(f"is_in_brackets({arg})") and not pol for t, pol in texts)
                rep.add(
                    "C14.R5",
                    f"{f.qualname}:squeeze-predicate",
                    f"{m.rel}:{n.lineno}",
                    ok,
                    f"an axis is squeezed only if {[t if pol else 'not ' + t for t, pol in texts]}" + ("" if ok else ": bracketed axes of length 1 are removed too; coordinates are matched to bracketed target axes by position, so the remaining ones receive the wrong coordinate components"),
                )
    if n_found == 0:
        raise AnalysisError("unrecognised idiom: no `value == 1` squeeze predicate handed to stage3.remove in the decomposer")

# words that identify which member of a backend's scatter family a primitive expression denotes
KIND_WORDS = {
    "set": {"put", "set", "__setitem__", "tensor_scatter_nd_update", "scatter", "index_put_:accumulate=False", "op=set"},
    "add": {"add", "tensor_scatter_nd_add", "scatter_add", "index_add", "index_put_:accumulate=True", "op=add"},
    "subtract": {"subtract", "sub", "tensor_scatter_nd_sub", "op=subtract"},
}
NEGATE_WORDS = {"neg", "negative", "__neg__"}
# backends whose scatter family has no subtracting member: add-with-negated-updates is the reviewed substitute
NEGATED_ADD_OK = {"torch": "torch.index_put_ only knows accumulate=True/False, so updates are negated with torch.neg; index_put_ requires updates of the target's dtype, so no unsigned-into-wider-target case arises as it does with numpy ufunc.at. Not confirmable here (torch is not installed)"}


def _primitive_words(expr):
    words = set()
    for n in ast.walk(expr):
        if isinstance(n, ast.Attribute):
            words.add(n.attr)
        elif isinstance(n, ast.Name):
            words.add(n.id)
        elif isinstance(n, ast.Call):
            fn = norm(n.func).split(".")[-1]
            for k in n.keywords:
                if k.arg and isinstance(k.value, ast.Constant):
                    words.add(f"{fn}:{k.arg}={k.value.value}")
                    words.add(f"{k.arg}={k.value.value}")
                    if k.value.value in ("set", "add", "subtract"):
                        words.add(f"op={k.value.value}")  # the selector keyword may have any name (op=, mode=)
    return words


def r6(p, rep):
    rep.rule("C14.R6", "each *_at entry is built on the member of the backend's scatter family that its name says (set / add / subtract)", "T-TAB (name vs primitive, per backend)", floor=18)
    for fw, cls in backends.classical_ops(p).items():
        for r in backends.registrations(p, cls):
            if r.name not in UPDATE_NAMES or (r.combinator or "").split(".")[-1] != "update_at" or not r.value.args:
                continue
            kind = r.name[: -len("_at")]
            prim = r.value.args[0]
            words = _primitive_words(prim)
            has = {k: bool(words & ws) for k, ws in KIND_WORDS.items()}
            neg = bool(words & NEGATE_WORDS)
            key = f"{cls.qualname}:{r.name}:primitive"
            if kind == "subtract" and not has["subtract"] and has["add"] and neg:
                if fw in NEGATED_ADD_OK:
                    rep.exempt("C14.R6", key, r.site, NEGATED_ADD_OK[fw])
                else:
                    rep.violation("C14.R6", key, r.site, f"{fw} subtract_at is built as add-with-negated-updates (`{norm(prim)[:70]}`) although the other entries of this table use the framework's own scatter family: negating the updates is not subtraction for unsigned integer updates (they wrap modulo 2**n before they are accumulated into a wider target)")
                continue
            # `subtract` contains no other family word; `add` entries must not mention subtract and vice versa
            ok = has[kind] and not (kind == "add" and has["subtract"]) and not (kind == "set" and (has["add"] or has["subtract"])) and not (kind == "subtract" and neg)
            rep.add("C14.R6", key, r.site, ok, f"{r.name} <- {norm(prim)[:60]}" if ok else f"the {fw} entry `{r.name}` is built on `{norm(prim)[:70]}`, which is not the `{kind}` member of the scatter family (family words found: {sorted(k for k, v in has.items() if v)}{', negated updates' if neg else ''})")


def r7(p, rep, rid="C14.R7"):
    rep.rule(rid, "a function created in a loop that outlives the iteration does not read the loop's variables late (each table entry keeps its own operation)", "closure capture lint (B023: disabled in the project's ruff.toml)", floor=1)
    n = 0
    for f in p.funcs.values():
        if not isinstance(f.node, (ast.FunctionDef, ast.AsyncFunctionDef)) or any(f.module.name == m for m in common.OFF_PATH_MODULES):
            continue
        k, hits = common.late_binding_closures(f.node)
        n += k
        for fn, names, how in hits:
            rep.violation(rid, f"{f.qualname}:closure:{','.join(names)}", f"{f.module.rel}:{fn.lineno}", f"`{norm(fn)[:60]}` is created in a loop, reads {names} when it is CALLED and is {how}: every copy sees the value of the last iteration (e.g. set / add / subtract all end up doing the last operation)")
        if k and not hits:
            rep.ok(rid, f"{f.qualname}:closures-in-loops", f.loc, f"{k} closure(s) created in a loop read loop variables but are consumed within the same iteration")
    rep.info["closures_in_loops"] = n
    rep.ok(rid, "sweep", "einx/_src", f"{n} closures created in loops inspected")


def r8(p, rep, rid="C14.R8"):
    rep.rule(rid, "a list that is zipped positionally with the sequence it was built from gets exactly one element per element of that sequence (one coordinate per axis of the target in the ravel)", "T-MPT over the loop body (append count per iteration path) with a positive self-check", floor=1)
    import os

    n = 0
    for f in p.funcs.values():
        if not isinstance(f.node, (ast.FunctionDef, ast.AsyncFunctionDef)) or any(f.module.name == m for m in common.OFF_PATH_MODULES):
            continue
        k, hits = common.zip_alignment(f.node)
        n += k
        for z, lname, sname, loop, counts in hits:
            rep.violation(rid, f"{f.qualname}:zip({lname},{sname})", f"{f.module.rel}:{loop.lineno}", f"`{lname}` is filled in the loop over `{sname}` and later paired with it by `{norm(z)[:60]}`, but one trip through the loop appends {sorted(counts)} element(s): after a skipped element every later pair is shifted (each coordinate is multiplied with the stride of the wrong axis) and the non-strict zip drops the tail silently")
        if k and not hits:
            rep.ok(rid, f"{f.qualname}:lockstep", f.loc, f"{k} list(s) built in lockstep with the sequence they are zipped with: exactly one append on every path through the loop body")
    pos = os.path.join(os.path.dirname(os.path.dirname(os.path.abspath(__file__))), "selftest", "positive", "zip_alignment.py")
    tree = ast.parse(open(pos).read())
    from sa.core import set_parents

    set_parents(tree)
    fns = {x.name: x for x in tree.body if isinstance(x, ast.FunctionDef)}
    b_, g_ = common.zip_alignment(fns["bad"]), common.zip_alignment(fns["good"])
    if not (b_[0] == 1 and len(b_[1]) == 1 and g_[0] == 1 and not g_[1]):
        raise AnalysisError("self-check of the zip-alignment lint failed on selftest/positive/zip_alignment.py")
    rep.ok(rid, "self-check:positive-example", "selftest/positive/zip_alignment.py", "the lint reports the seeded positive example and is silent on its corrected twin")
    rep.info["lockstep_lists"] = n


def r9(p, rep):
    rep.rule("C14.R9", "a cursor into a parallel list (the lengths of the bracketed target axes, walked while the coordinate tensors are split) is advanced by every arm that reads at it", "lint (sibling arms of one loop: read at the cursor vs `cursor += n`) with a positive self-check", floor=1)
    import os

    from sa.core import set_parents

    n = 0
    for f in p.funcs.values():
        if not f.module.name.startswith("einx._src.adapter") or not isinstance(f.node, (ast.FunctionDef, ast.AsyncFunctionDef)):
            continue
        k, hits = common.cursor_advances(f.node)
        n += k
        for cur, loop, bad in hits:
            st = bad[0][-1]
            rep.violation("C14.R9", f"{f.qualname}:cursor({cur})", f"{f.module.rel}:{st.lineno}", f"an arm of the loop at line {loop.lineno} reads entries at the cursor `{cur}` but does not advance it, while its sibling arms do: every coordinate tensor that follows is matched with the entries of an earlier one (e.g. wrapped modulo the length of the wrong target axis), so updates land on the wrong elements")
        if k and not hits:
            rep.ok("C14.R9", f"{f.qualname}:cursors", f.loc, f"{k} cursor(s); every arm that reads at the cursor advances it")
    pos = os.path.join(os.path.dirname(os.path.dirname(os.path.abspath(__file__))), "selftest", "positive", "cursor_advance.py")
    tree = ast.parse(open(pos).read())
    set_parents(tree)
    fns = {x.name: x for x in tree.body if isinstance(x, ast.FunctionDef)}
    if len(common.cursor_advances(fns["bad"])[1]) != 1 or common.cursor_advances(fns["good"])[1] or common.cursor_advances(fns["good"])[0] != 1:
        raise AnalysisError("self-check of the cursor lint failed on selftest/positive/cursor_advance.py")
    rep.ok("C14.R9", "self-check:positive-example", "selftest/positive/cursor_advance.py", "the lint reports the seeded positive example and is silent on its corrected twin")
    rep.ok("C14.R9", "sweep", "einx/_src/adapter", f"{n} cursor(s) in the adapter layer", nontrivial=False)


def run(p, rep, tier):
    r1(p, rep)
    r2(p, rep)
    rep.rule("C14.R3", "the update_at family is constructed with the flags its semantics need", "T-TAB family flags", floor=5)
    r3(p, rep)
    r4(p, rep)
    r5(p, rep)
    r6(p, rep)
    r7(p, rep)
    r8(p, rep)
    r9(p, rep)
    rep.assume("np.put flattens and cycles its values; ufunc.at, jnp .at[].set/add, torch.index_put_, tf.tensor_scatter_nd_* and x[idx] = v broadcast or require equal shapes")
    rep.info["undecided"] = "ravel arithmetic, accumulation of duplicates, untouched elements and get_at read-back are value-level and not decided"
