"""C07 - documented shorthand forms mean exactly their documented expansions.

Value-level equivalences are out of reach.  Decided (small part, stated as such):
 R1 forwarding: every public wrapper forwards all its parameters to the same-named backend operation;
    einx.rearrange forwards everything to einx.id
 R2 a number is a *fresh* axis per occurrence; the anonymous '...' is *one shared* variable with a fresh ellipsis id
 R3 family flags equal the documented defaults (reduced-axis marking, keepdims, implicit output)
 R4 the implicit output of element-wise operations is taken only when the superset input is unique
 R5 automatic bracket marking marks exactly the axes that are missing from the output
 R6 keepdims=True is implemented by the single documented rewrite (brackets wrapped in parentheses)
"""

from __future__ import annotations

import ast

from sa.cfg import CFG
from sa.core import AnalysisError, attr_chain, enclosing, norm, parents, resolve_callee, walk_no_nested

from . import c01, c14, c16, common


def forwarded(f, call, skip=("backend",)):
    """does `call` forward every parameter of f (except skip)?  returns list of problems"""
    a = f.node.args
    problems = []
    pos = [x.arg for x in a.posonlyargs + a.args]
    got_pos = []
    for x in call.args:
        if isinstance(x, ast.Starred):
            got_pos.append("*" + norm(x.value))
        else:
            got_pos.append(norm(x))
    want_pos = [p for p in pos if p not in skip] + (["*" + a.vararg.arg] if a.vararg else [])
    if got_pos != want_pos:
        problems.append(f"positional arguments {got_pos} (expected {want_pos})")
    kw = {k.arg: norm(k.value) for k in call.keywords if k.arg}
    for k in a.kwonlyargs:
        if k.arg in skip:
            continue
        if kw.get(k.arg) != k.arg:
            problems.append(f"keyword-only parameter `{k.arg}` is not forwarded as {k.arg}={k.arg}")
    star2 = [norm(k.value) for k in call.keywords if k.arg is None]
    if a.kwarg and a.kwarg.arg not in star2:
        problems.append(f"**{a.kwarg.arg} is not forwarded")
    return problems


def r1(p, rep):
    rep.rule("C07.R1", "public wrappers forward all their parameters", "T-SIB (forwarding)", floor=40)
    for f in c01.public_wrappers(p):
        rets = [r for r in walk_no_nested(f.node) if isinstance(r, ast.Return) and isinstance(r.value, ast.Call)]
        if len(rets) != 1:
            raise AnalysisError(f"unrecognised idiom: {f.qualname} has {len(rets)} returning calls")
        # the backend call in terms of the wrapper's own parameters (a shared module-level helper is looked through)
        call = common.backend_call_of(p, f)[1] or rets[0].value
        probs = forwarded(f, call)
        rep.add("C07.R1", f"{f.qualname}:forwards", f.loc, not probs, "all parameters forwarded" if not probs else f"einx.{f.name} does not forward its arguments faithfully: {probs} - the short form (e.g. keepdims=True, a size keyword) is silently ignored for this operation only")
    g = p.func("rearrange", "frontend.removed_ops")
    rets = [r for r in walk_no_nested(g.node) if isinstance(r, ast.Return) and isinstance(r.value, ast.Call)]
    ok = len(rets) == 1
    if ok:
        r = resolve_callee(p, rets[0].value, g.module)
        ok = bool(r and r[0] == "func" and r[1].name == "id" and r[1].module.name.endswith("frontend.ops"))
        probs = forwarded(g, rets[0].value, skip=()) if ok else ["does not call einx.id"]
        # backend is keyword-only in rearrange: forwarded() checks backend=backend
        aliases(p, rep)
        rep.add("C07.R1", f"{g.qualname}:forwards", g.loc, ok and not probs, "einx.rearrange(description, *tensors, backend=, **parameters) == einx.id(same)" if ok and not probs else f"einx.rearrange is not einx.id: {probs}")


def aliases(p, rep, rid="C07.R1"):
    """module-level functions of the frontend whose whole body is `return other(...)` with the same parameter list
    (einx.solve -> solve_axes, ...): pure aliases must hand every parameter on"""
    n = 0
    for f in p.funcs.values():
        if f.parent is not None or f.cls is not None or not f.module.name.startswith("einx._src.frontend.") or f.name.startswith("_"):
            continue
        body = [st for st in f.node.body if not (isinstance(st, ast.Expr) and isinstance(st.value, ast.Constant))]
        if len(body) != 1 or not isinstance(body[0], ast.Return) or not isinstance(body[0].value, ast.Call) or f.node.decorator_list:
            continue
        call = body[0].value
        r = resolve_callee(p, call, f.module)
        if not (r and r[0] == "func" and r[1].parent is None):
            continue
        g = r[1]
        ga, fa = g.node.args, f.node.args
        # an alias: the target takes the same kinds of parameters (*args / **kwargs alike)
        if bool(ga.vararg) != bool(fa.vararg) or bool(ga.kwarg) != bool(fa.kwarg) or not (fa.vararg or fa.kwarg):
            continue
        n += 1
        probs = forwarded(f, call, skip=())
        rep.add(rid, f"{f.qualname}:alias-forwards", f.loc, not probs, f"{f.name}(...) == {g.name}(same arguments)" if not probs else f"{f.name} is documented as an alias of {g.name} but does not hand on its arguments: {probs} - e.g. size keywords given to the alias are silently ignored")
    return n


def r2(p, rep):
    rep.rule("C07.R2", "numbers are fresh axes, the anonymous ellipsis is one shared variable", "T-TAINT (FRESHID)", floor=3)
    f = p.func("parse_op.parse", "namedtensor.stage1.parse")
    cfg = CFG(f.node)
    found_digit = found_anon = found_id = False
    for n in walk_no_nested(f.node):
        if isinstance(n, ast.Call) and isinstance(n.func, ast.Name) and n.func.id == "Axis" and n.args:
            facts = [(norm(t), pol) for t, pol in cfg.guards_of_ast(n)]
            name = n.args[0]
            is_number_axis = len(n.args) > 1 and isinstance(n.args[1], ast.Call) and isinstance(n.args[1].func, ast.Name) and n.args[1].func.id == "int"
            # `Axis(m.group(1), int(m.group(2)))`: a NAMED axis whose token also carries a length (`b=4`) - the name is the
            # user's, only a token that is nothing but a number makes a fresh axis
            if is_number_axis and n.args[1].args and isinstance(n.args[1].args[0], ast.Call) and isinstance(n.args[1].args[0].func, ast.Attribute) and n.args[1].args[0].func.attr == "group" and isinstance(name, ast.Call) and isinstance(name.func, ast.Attribute) and name.func.attr == "group":
                is_number_axis = False
            if is_number_axis:
                found_digit = True
                branch = enclosing(n, ast.If)
                # name must derive from a uuid4() call evaluated inside this branch
                src_expr = name
                if isinstance(name, ast.Name):
                    defs = [a for a in walk_no_nested(f.node) if isinstance(a, ast.Assign) and any(isinstance(t, ast.Name) and t.id == name.id for t in a.targets)]
                    same_branch = [a for a in defs if enclosing(a, ast.If) is branch]
                    src_expr = same_branch[0].value if same_branch else None
                fresh = src_expr is not None and any(isinstance(c, ast.Call) and norm(c.func).endswith("uuid4") for c in ast.walk(src_expr))
                rep.add("C07.R2", f"{f.qualname}:number-is-fresh-axis", f"{f.module.rel}:{n.lineno}", fresh, f"name = {norm(src_expr)[:60] if src_expr is not None else None}" + ("" if fresh else ": two occurrences of the same number would become the SAME axis (e.g. '2 2' would mean a diagonal / be tied together)"))
                val = n.args[1] if len(n.args) > 1 else None
                rep.add("C07.R2", f"{f.qualname}:number-is-length", f"{f.module.rel}:{n.lineno}", val is not None and norm(val).startswith("int("), f"value = {norm(val) if val is not None else None}")
            elif "anonymous_variable_name" in norm(name):
                found_anon = True
                rep.ok("C07.R2", f"{f.qualname}:anonymous-ellipsis-shared", f"{f.module.rel}:{n.lineno}", "every anonymous '...' uses the one class constant Ellipsis.anonymous_variable_name")
        if isinstance(n, ast.Call) and norm(n.func) == "Ellipsis.create":
            eid = common.kwarg(n, "ellipsis_id")
            found_id = True
            fresh = eid is not None and any(isinstance(c, ast.Call) and norm(c.func).endswith("uuid4") for c in ast.walk(eid))
            rep.add("C07.R2", f"{f.qualname}:ellipsis-id-fresh", f"{f.module.rel}:{n.lineno}", fresh, f"ellipsis_id = {norm(eid) if eid is not None else None}")
    if not (found_digit and found_anon and found_id):
        raise AnalysisError(f"unrecognised idiom in parse(): digit-axis={found_digit} anonymous-ellipsis={found_anon} ellipsis-id={found_id}")


def r9(p, rep):
    rep.rule("C07.R9", "identifiers that must be fresh per use (ellipsis ids, names of anonymous axes) are not drawn in a default argument, which is evaluated once", "lint over default values (a uuid / counter call in a default is one value for all calls)", floor=1)
    n = 0
    for f in p.funcs.values():
        if not isinstance(f.node, (ast.FunctionDef, ast.AsyncFunctionDef)) or any(f.module.name == m for m in common.OFF_PATH_MODULES):
            continue
        k, hits = common.calls_in_defaults(f.node)
        n += k
        for prm, d, why in hits:
            rep.violation("C07.R9", f"{f.qualname}:default({prm})", f"{f.module.rel}:{d.lineno}", f"parameter `{prm}` defaults to `{norm(d)[:60]}`: {why}, so every call that relies on the default gets the SAME value - ellipses wrapped with it share one ellipsis_id and are forced to repeat equally often (RankError for 'b... c...' with different ranks), anonymous axes share one name")
    rep.ok("C07.R9", "sweep", "einx/", f"{n} default values inspected; none draws a per-call value", nontrivial=False)
    import os

    pos = os.path.join(os.path.dirname(os.path.dirname(os.path.abspath(__file__))), "selftest", "positive", "call_in_default.py")
    tree = ast.parse(open(pos).read())
    fns = {x.name: x for x in tree.body if isinstance(x, ast.FunctionDef)}
    if len(common.calls_in_defaults(fns["bad"])[1]) != 1 or common.calls_in_defaults(fns["good"])[1]:
        raise AnalysisError("self-check of the call-in-default lint failed on selftest/positive/call_in_default.py")
    rep.ok("C07.R9", "self-check:positive-example", "selftest/positive/call_in_default.py", "the lint reports the seeded positive example and is silent on its corrected twin")


def r4(p, rep):
    rep.rule("C07.R4", "implicit outputs chosen from a set are taken only when the choice is unique", "T-DOM (singleton guard + documented error)", floor=1)
    f0 = p.func("_parse_op", "adapter.einx_from_namedtensor")
    n = 0
    # helpers of _parse_op and everything else in its module (rule objects in a table are called through the table)
    scope = common.with_helpers(p, f0, depth=4)
    closure = list(scope)
    scope += [g for g in p.funcs.values() if g.module is f0.module and g not in scope and isinstance(g.node, ast.FunctionDef)]
    for f in scope:
        sites = common.take_one_sites(f.node)
        if not sites:
            continue
        cfg = CFG(f.node)
        for node, recv, form in sites:
            if True:
                st = node
                while st is not None and not isinstance(st, ast.stmt):
                    st = getattr(st, "_parent", None)
                # an element is taken out of a *set* (an arbitrary one when there are several): the candidates
                is_set = _is_set_expr(p, f, recv)
                keyed = None
                if not is_set and "values()" in form:
                    # candidates kept in a dict: which inputs share an entry?
                    ds = [a.value for a in walk_no_nested(f.node) if isinstance(a, ast.Assign) and any(isinstance(t, ast.Name) and t.id == recv.id for t in a.targets)]
                    if len(ds) == 1 and isinstance(ds[0], ast.DictComp):
                        keyed = ds[0]
                if (not is_set and keyed is None) or not isinstance(st, (ast.Assign, ast.Return)):
                    continue
                coll = norm(recv)
                adds = [a for a in walk_no_nested(f.node) if isinstance(a, ast.Call) and norm(a.func) == f"{coll}.add"]
                txt = " ".join(norm(x) for a in adds for x in [enclosing(a, ast.For)] if x is not None)
                # the candidate set may also be built by a comprehension or by a helper function
                for a in walk_no_nested(f.node):
                    if isinstance(a, ast.Assign) and any(norm(t) == coll for t in a.targets):
                        txt += " " + norm(a.value)
                        if isinstance(a.value, ast.Call):
                            r = resolve_callee(p, a.value, f.module)
                            if r and r[0] == "func":
                                txt += " " + " ".join(norm(st) for st in r[1].node.body)
                sub = any(w in txt for w in ("issubset", "issuperset", "<=", ">="))
                if f not in closure and not sub:
                    continue  # elsewhere in the module: a set that is not a set of candidate outputs (e.g. the marked axes of one expression)
                n += 1
                if keyed is not None and norm(keyed.key) != norm(keyed.value):
                    rep.violation("C07.R4", f"{f0.qualname}:implicit-output:candidates-keyed", f"{f.module.rel}:{keyed.lineno}", f"the candidate outputs are kept in a dict keyed by `{norm(keyed.key)}`, not by the candidate itself: inputs with equal keys (the same axis names in a different order, 'a b, b a') share one entry, so len({coll}) == 1 although the choice is not unique - the last one silently wins instead of SemanticError")
                facts = cfg.guards_of_ast(node)
                ok = c16.singleton_guard(facts, coll) and common.len_bounds(facts, coll)[0] >= 1
                rep.add("C07.R4", f"{f0.qualname}:implicit-output:pop()", f"{f.module.rel}:{node.lineno}", ok, f"one element of `{coll}` ({form}) only when len({coll}) == 1 (otherwise SemanticError)" if ok else f"the implicit output is taken from `{coll}` ({form}) without a test that this very set has exactly one element: an ambiguous call (e.g. 'a b, b a') silently picks one input - which one depends on set order")
                rep.add("C07.R4", f"{f0.qualname}:implicit-output:superset-rule", f"{f.module.rel}:{node.lineno}", sub, "candidates are the inputs whose axis names contain those of all other inputs" if sub else f"the candidates in `{coll}` are not selected by a subset test over the axis names of the other inputs")
    if n == 0:
        raise AnalysisError("unrecognised idiom: no element taken from a set of candidate outputs (pop() / next(iter()) / one-element unpacking) reachable from _parse_op")
    # the name sets the superset rule compares leave out exactly the axes of length 1 (documented: "excluding 1s")
    from sa.cfg import decompose

    k = 0
    for f in common.with_helpers(p, f0, depth=4):
        for c in common.walk_with_lambdas(f.node):
            if isinstance(c, (ast.SetComp, ast.ListComp, ast.GeneratorExp)) and isinstance(c.elt, ast.Attribute) and c.elt.attr == "name" and any(".nodes()" in norm(g.iter) or "nodes(" in norm(g.iter) for g in c.generators):
                conds = [t for g in c.generators for i_ in g.ifs for t in decompose(i_, True)]
                value_tests = [(t, pol) for t, pol in conds if any(isinstance(x, ast.Attribute) and x.attr == "value" for x in ast.walk(t))]
                if not value_tests:
                    continue
                k += 1
                ok = all(isinstance(t, ast.Compare) and len(t.ops) == 1 and isinstance(t.comparators[0], ast.Constant) and t.comparators[0].value == 1 and ((isinstance(t.ops[0], ast.NotEq) and pol) or (isinstance(t.ops[0], ast.Eq) and not pol)) for t, pol in value_tests)
                rep.add("C07.R4", f"{f0.qualname}:implicit-output:names-exclude-only-1s:{f.name}", f"{f.module.rel}:{c.lineno}", ok, "axis names are collected for all axes except those of length 1" if ok else f"the axis names compared by the superset rule are filtered by `{[norm(t) for t, _ in value_tests]}` instead of `value != 1`: inputs that differ from the largest one by a numeric axis other than 1 ('a 3, a') no longer have an implicit output although their long form is valid")


def r5(p, rep):
    rep.rule("C07.R5", "automatic bracket marking marks exactly the axes missing from the output", "T-DER [S]", floor=2)
    f = p.func("_parse_op", "adapter.einx_from_namedtensor")
    scope = [g for g in p.funcs.values() if g is f or g.parent is f or (g.parent is not None and g.parent.parent is f)] + common.with_helpers(p, f)[1:]
    # the marking predicate: `isinstance(e, stage1.Axis) and e.name not in <names of the output axes>`
    preds = []
    for g in scope:
        for n in ast.walk(g.node):
            if isinstance(n, ast.BoolOp) and isinstance(n.op, ast.And) and len(n.values) == 2:
                a, b = n.values
                if isinstance(a, ast.Call) and norm(a.func) == "isinstance" and norm(a.args[1]).endswith("stage1.Axis") and isinstance(b, ast.Compare) and isinstance(b.ops[0], ast.NotIn) and norm(b.left) == f"{norm(a.args[0])}.name":
                    preds.append((g, n, b.comparators[0]))
    preds = [(g, n, c) for g, n, c in preds if "out" in norm(c)]
    if not preds:
        raise AnalysisError("unrecognised idiom: no `isinstance(e, stage1.Axis) and e.name not in <output axis names>` marking predicate in _parse_op")
    g, n, names = preds[0]
    rep.ok("C07.R5", f"{f.qualname}:mark-predicate", f"{g.module.rel}:{n.lineno}", f"marks `{norm(n)}`")
    defs = [a for h in scope for a in walk_no_nested(h.node) if isinstance(a, ast.Assign) and norm(a.targets[0]) == norm(names)]
    dtext = norm(common.expand_pure_calls(p, g.module, defs[0].value)) if defs else ""  # `_axes(expr)` -> `[.. for .. in expr.nodes() if ..]`
    ok = bool(defs) and ".nodes()" in dtext and ".name" in dtext and "out" in dtext
    rep.add("C07.R5", f"{f.qualname}:axes_names_out", f.loc, ok, f"{norm(names)} = names of all axes of the output expression")
    # the marking code runs only under `mark_reduced_axes` and `not any(<a node of an input is a Brackets>)`: facts that
    # guard the marking predicate (through the lexical nesting of closures up to _parse_op), named booleans written out
    facts = []
    h, at = g, n
    while h is not None:
        facts += common.cfg_of(h).guards_of_ast(at)
        if h is f:
            break
        at, h = h.node, h.parent
    if h is None:
        # the predicate lives in a helper outside _parse_op: facts at its call sites inside _parse_op
        for c in walk_no_nested(f.node):
            if isinstance(c, ast.Call) and norm(c.func).split(".")[-1] == g.name:
                facts += common.cfg_of(f).guards_of_ast(c)
    flag = any(pol and norm(t) == "mark_reduced_axes" for t, pol in facts)
    nobr = any((not pol) and isinstance(t, ast.Call) and norm(t.func) == "any" and "stage1.Brackets" in norm(t) and "exprs_in" in norm(t) for t, pol in facts)
    ok = flag and nobr
    rep.add("C07.R5", f"{f.qualname}:only-without-brackets", f.loc, ok, "automatic marking applies only if no input has brackets")


def _parents_of(g):
    g = g.parent
    while g is not None:
        yield g
        g = g.parent


def _is_set_expr(p, f, d, depth=0):
    """does the expression evaluate to a set? displays, comprehensions, set()/frozenset(), a local bound only to such,
    a call of a project function all of whose returns are such"""
    if depth > 3 or d is None:
        return False
    if isinstance(d, (ast.Set, ast.SetComp)):
        return True
    if isinstance(d, ast.Call) and norm(d.func) in ("set", "frozenset"):
        return True
    if isinstance(d, ast.Name):
        defs = [a.value for a in walk_no_nested(f.node) if isinstance(a, ast.Assign) and any(isinstance(t, ast.Name) and t.id == d.id for t in a.targets)]
        return bool(defs) and all(_is_set_expr(p, f, v, depth + 1) for v in defs)
    if isinstance(d, ast.Call):
        r = resolve_callee(p, d, f.module)
        if r and r[0] == "func":
            rets = [x.value for x in walk_no_nested(r[1].node) if isinstance(x, ast.Return)]
            return bool(rets) and all(_is_set_expr(p, r[1], v, depth + 1) for v in rets)
    return False


def r6(p, rep):
    rep.rule("C07.R6", "keepdims is implemented by one rewrite of the description (brackets wrapped in parentheses)", "T-DER [S]", floor=1)
    m = p.module("adapter.einx_from_namedtensor")
    mods = [m, p.func("_parse_op", "adapter.einx_from_namedtensor").module]  # the parsing code may have moved to a module of its own
    hits = []
    # the rewrite: a FlattenedAxis is created for a Brackets node, and this happens exactly under `keepdims`
    for f in p.funcs.values():
        if not any(f.module is x for x in mods):
            continue
        for n in common.walk_with_lambdas(f.node):
            if isinstance(n, ast.Call) and "FlattenedAxis" in norm(n.func):
                facts = common.lexical_facts(f, n)
                # a module-level callback (`stage1.map(expr, _bracket_to_unit_axis)`): the facts where it is referred to
                top = f
                while top.parent is not None:
                    top = top.parent
                for h in p.funcs.values():
                    if any(h.module is x for x in mods) and h is not top and top not in list(_parents_of(h)):
                        for x in walk_no_nested(h.node):
                            if isinstance(x, ast.Name) and x.id == top.name and isinstance(x.ctx, ast.Load):
                                facts += common.lexical_facts(h, x)
                texts = [(norm(t), pol) for t, pol in facts]
                if any(t in ("keepdims", "keepdims is True", "keepdims == True") and pol for t, pol in texts):
                    hits.append((f, n, texts))
    if not hits:
        raise AnalysisError("unrecognised idiom: no FlattenedAxis rewrite under `keepdims` in einx_from_namedtensor")
    for f, n, texts in hits:
        ok = any("Brackets" in t and pol for t, pol in texts)
        if not ok:
            # the replacement is a callback (`replacement = lambda: FlattenedAxis...`) handed to a function that applies
            # it to Brackets nodes only
            lam = next((a for a in parents(n) if isinstance(a, ast.Lambda)), None)
            st = next((a for a in parents(n) if isinstance(a, ast.stmt)), None)
            names = {t.id for t in st.targets if isinstance(t, ast.Name)} if isinstance(st, ast.Assign) and lam is not None and st.value is lam else set()
            for c in common.walk_with_lambdas(f.node):
                if isinstance(c, ast.Call) and (any(a is lam for a in c.args) or any(isinstance(a, ast.Name) and a.id in names for a in list(c.args) + [k.value for k in c.keywords])):
                    r = resolve_callee(p, c, f.module)
                    if r and r[0] == "func" and any(isinstance(x, ast.Call) and isinstance(x.func, ast.Name) and x.func.id == "isinstance" and "Brackets" in norm(x) for x in ast.walk(r[1].node)):
                        ok = True
        rep.add("C07.R6", f"{f.qualname}:keepdims-rewrite", f"{f.module.rel}:{n.lineno}", ok, "keepdims=True wraps each bracket into a flattened axis `([...])`" if ok else f"under keepdims a FlattenedAxis is created for something that is not a Brackets node (guards {texts[:4]})")


def r7(p, rep):
    rep.rule("C07.R7", "a recursive tree walk never forgets an inherited context (once inside brackets, always inside brackets): redundant nested brackets are dropped at every depth", "T-SIB over the recursive calls of a walk (context parameter is handed down, set, but never reset)", floor=1)
    n = 0
    for f in p.funcs.values():
        if not isinstance(f.node, ast.FunctionDef) or not f.module.name.startswith("einx._src.namedtensor."):
            continue
        rec = [c for c in ast.walk(f.node) if isinstance(c, ast.Call) and isinstance(c.func, ast.Name) and c.func.id == f.name]
        if not rec:
            continue
        host = f.parent.node if f.parent else f.module.tree
        ext = [c for c in ast.walk(host) if isinstance(c, ast.Call) and isinstance(c.func, ast.Name) and c.func.id == f.name and c not in rec]
        for i, prm in enumerate(f.params):
            def arg(c, i=i, prm=prm):
                if i < len(c.args):
                    return c.args[i]
                return next((k.value for k in c.keywords if k.arg == prm), None)

            initial = {norm(arg(c)) for c in ext if isinstance(arg(c), ast.Constant)}
            if len(initial) != 1:
                continue
            vals = [(c, arg(c)) for c in rec]
            entered = {norm(v) for c, v in vals if isinstance(v, ast.Constant)} - initial
            if not entered:
                continue  # the parameter is only handed down unchanged: not a context marker
            n += 1
            resets = [c for c, v in vals if isinstance(v, ast.Constant) and norm(v) in initial]
            missing = [c for c, v in vals if v is None]
            ok = not resets and not missing
            rep.add("C07.R7", f"{f.qualname}:{prm}", f.loc, ok, f"`{prm}` starts as {sorted(initial)[0]}, is set to {sorted(entered)} when the context is entered and is otherwise handed down unchanged in all {len(vals)} recursive calls" if ok else f"`{norm((resets or missing)[0])[:70]}` resets `{prm}` to its start value {sorted(initial)[0]} inside the recursion: below that node the walk no longer knows it is inside the context (e.g. a bracket nested in an ellipsis inside a bracket, '[a [s]...]', survives as a nested bracket and the call fails or is mis-counted)")
    if n == 0:
        raise AnalysisError("unrecognised idiom: no recursive walk with an entered-context flag found in einx._src.namedtensor")


def r8(p, rep):
    rep.rule("C07.R8", "an ellipsis keeps its identity: a node rebuilt from an existing ellipsis carries that ellipsis' id, a synthesised one gets a fresh uuid4() of its own", "T-SIB over all constructions of stage1.Ellipsis (provenance of the ellipsis_id argument)", floor=8)
    ell = p.cls("Ellipsis", "namedtensor.stage1.tree")
    n = 0
    for f in p.funcs.values():
        if not isinstance(f.node, (ast.FunctionDef, ast.AsyncFunctionDef)):
            continue
        cfg = None
        for c in walk_no_nested(f.node):
            if not isinstance(c, ast.Call):
                continue
            r = resolve_callee(p, c, f.module)
            is_ctor = bool(r and ((r[0] == "class" and r[1] is ell) or (r[0] == "func" and r[1].cls is ell and r[1].name == "create")))
            if not is_ctor:
                continue
            n += 1
            site = f"{f.module.rel}:{c.lineno}"
            key = f"{f.qualname}:Ellipsis@{norm(c.args[0])[:30] if c.args else ''}"
            ida = common.kwarg(c, "ellipsis_id") or (c.args[3] if len(c.args) > 3 else None)
            if ida is None:
                # Ellipsis.create has a default (a fresh id) only if the class says so; a missing id is not decided here
                rep.ok("C07.R8", key, site, "no explicit id (constructor default)", nontrivial=False)
                continue
            cfg = cfg or common.cfg_of(f)
            # which existing ellipsis is being rebuilt?  a dominating `isinstance(X, Ellipsis)` fact, or self inside the class
            src_names = set()
            for t, pol in common.lexical_facts(f, c):
                if pol and isinstance(t, ast.Call) and isinstance(t.func, ast.Name) and t.func.id == "isinstance" and len(t.args) == 2 and isinstance(t.args[0], ast.Name):
                    classes = t.args[1].elts if isinstance(t.args[1], ast.Tuple) else [t.args[1]]
                    if any((lambda rr: rr and rr[0] == "class" and rr[1] is ell)(p.resolve_expr(f.module, k, f.node)) for k in classes) and len(classes) == 1:
                        src_names.add(t.args[0].id)
            if f.cls is ell and f.params:
                src_names.add(f.params[0])
            ida_x = cfg.expand(ida, cfg.node_for(c)) if cfg.node_for(c) is not None else ida
            # `<node>.ellipsis_id` of any node (only ellipses have one) / the constructor's own parameter handed on
            forwards = any(isinstance(x, ast.Attribute) and x.attr == "ellipsis_id" and isinstance(x.value, ast.Name) for x in ast.walk(ida_x)) or (isinstance(ida, ast.Name) and ida.id in f.params and ida.id == "ellipsis_id")
            fresh_here = any(isinstance(x, ast.Call) and norm(x.func).endswith("uuid4") for x in ast.walk(ida))
            if not fresh_here and isinstance(ida, ast.Name):
                v = common.single_reaching_value(cfg, c, ida.id)
                if v is not None and any(isinstance(x, ast.Call) and norm(x.func).endswith("uuid4") for x in ast.walk(v)):
                    # drawn in the same loop iteration as the construction
                    fresh_here = enclosing(getattr(v, "_parent", v), (ast.For, ast.While)) is enclosing(c, (ast.For, ast.While))
            if src_names:
                ok = forwards
                why = f"rebuilds the ellipsis `{sorted(src_names)[0]}` and carries its id on" if ok else f"rebuilds the existing ellipsis `{sorted(src_names)[0]}` but gives the copy the id `{norm(ida)[:40]}`: the copies of one `...` (both sides of a distributed `->` / `,`) no longer share their repetition count"
            else:
                ok = fresh_here or forwards
                why = "synthesised ellipsis with an id drawn by uuid4() for this node" if ok else f"a synthesised ellipsis gets the id `{norm(ida)[:40]}`, which is not drawn for this node alone: unrelated ellipses are forced to repeat equally often"
            rep.add("C07.R8", key, site, ok, why)
    if n < 8:
        raise AnalysisError(f"anchor vanished: only {n} constructions of stage1.Ellipsis found")


def run(p, rep, tier):
    r1(p, rep)
    r2(p, rep)
    rep.rule("C07.R3", "family flags equal the documented defaults", "T-TAB", floor=10)
    c14.r3(p, rep, rid="C07.R3", only_update=False)
    r4(p, rep)
    r5(p, rep)
    r6(p, rep)
    r7(p, rep)
    r8(p, rep)
    r9(p, rep)
    from . import c06 as _c06

    _c06.r8(p, rep)  # memoised parsing makes equal constraint texts share one node: the scalar-for-ellipsis form then fails
    _c06.r7(p, rep)  # the set of candidate output expressions relies on hash/eq consistency of the expression classes
    from . import c11 as _c11

    _c11.r8(p, rep)  # a backend whose factory module deviates from its siblings behaves differently for this property
    rep.info["undecided"] = "every value-level equivalence between a short and its long form (ellipsis expansion, '->'/',' distribution, adjacent brackets, length-1 coordinate brackets, extra spaces)"
