"""Tables of the seven backends, read from the source: classical `ops` classes
(adapter/<fw>/classical_from_<fw>.py), tracer signature classes
(tracer/signature/classical/<fw>.py) and the frontend factory modules (frontend/impl/<fw>.py)."""

from __future__ import annotations

import ast
import copy

from sa.core import AnalysisError, attr_chain, norm, resolve_callee, src, walk_no_nested

FRAMEWORKS = ("numpy", "torch", "jax", "mlx", "tensorflow", "tinygrad", "arrayapi")


def classical_ops(p):
    out = {}
    for fw in FRAMEWORKS:
        name = f"einx._src.adapter.{fw}.classical_from_{fw}"
        if name not in p.modules:
            raise AnalysisError(f"anchor vanished: module {name}")
        q = f"{name}::ops"
        if q not in p.classes:
            raise AnalysisError(f"anchor vanished: class {q}")
        out[fw] = p.classes[q]
    return out


def signature_classes(p):
    """fw -> list of signature classes in tracer/signature/classical/<fw>.py"""
    out = {}
    for fw in FRAMEWORKS:
        name = f"einx._src.tracer.signature.classical.{fw}"
        if name not in p.modules:
            raise AnalysisError(f"anchor vanished: module {name}")
        cs = [c for c in p.classes.values() if c.module.name == name]
        if not cs:
            raise AnalysisError(f"anchor vanished: no signature class in {name}")
        out[fw] = cs
    return out


def impl_modules(p):
    out = {}
    for fw in FRAMEWORKS:
        name = f"einx._src.frontend.impl.{fw}"
        if name not in p.modules:
            raise AnalysisError(f"anchor vanished: module {name}")
        out[fw] = p.modules[name]
    return out


class Registration:
    """self.<name> = <value> inside ops.__init__"""

    def __init__(self, cls, name, node, value):
        self.cls = cls
        self.name = name
        self.node = node  # the Assign
        self.value = value

    @property
    def site(self):
        return f"{self.cls.module.rel}:{self.node.lineno}"

    @property
    def combinator(self):
        """dotted callee of the outermost call, e.g. adapter.classical_from_numpy.update_at"""
        if isinstance(self.value, ast.Call):
            ch = attr_chain(self.value.func)
            return ".".join(ch) if ch else norm(self.value.func)
        return None

    def keywords(self):
        return {k.arg: k.value for k in self.value.keywords} if isinstance(self.value, ast.Call) else {}

    def primitives(self, ns_names):
        """attribute chains rooted at one of the framework namespace names anywhere in the value
        (maximal chains), as dotted strings without the root."""
        out = []
        for n in ast.walk(self.value):
            if isinstance(n, ast.Attribute) and not isinstance(getattr(n, "_parent", None), ast.Attribute):
                ch = attr_chain(n)
                if ch and ch[0] in ns_names:
                    out.append((".".join(ch[1:]), n))
        return out


class _Subst(ast.NodeTransformer):
    def __init__(self, mapping):
        self.mapping = mapping

    def visit_Name(self, node):
        if isinstance(node.ctx, ast.Load) and node.id in self.mapping:
            return copy.deepcopy(self.mapping[node.id])
        return node


def expand_local_call(value, localfns, depth=0):
    """`helper(a, b)` where helper is a nested def of ops.__init__ consisting of `return <expr>` is replaced by
    <expr> with the parameters substituted: table entries written through small local wrappers are analysed as if
    they were written out."""
    if depth > 3 or not (isinstance(value, ast.Call) and isinstance(value.func, ast.Name) and value.func.id in localfns):
        return value
    fn = localfns[value.func.id]
    body = [st for st in fn.body if not (isinstance(st, ast.Expr) and isinstance(st.value, ast.Constant))]
    if len(body) != 1 or not isinstance(body[0], ast.Return) or body[0].value is None:
        return value
    params = [a.arg for a in fn.args.args]
    mapping = {}
    for i, a in enumerate(value.args):
        if i < len(params) and not isinstance(a, ast.Starred):
            mapping[params[i]] = a
    for k in value.keywords:
        if k.arg in params:
            mapping[k.arg] = k.value
    defaults = fn.args.defaults
    for prm, d in zip(params[len(params) - len(defaults):], defaults):
        mapping.setdefault(prm, d)
    if set(params) - set(mapping):
        return value
    new = _Subst(mapping).visit(copy.deepcopy(body[0].value))
    ast.copy_location(new, value)
    ast.fix_missing_locations(new)
    from sa.core import set_parents

    set_parents(new)
    new._parent = getattr(value, "_parent", None)
    return expand_local_call(new, localfns, depth + 1)


def _local_values(init, selfname):
    """locals of ops.__init__ that are bound exactly once to something a table entry may refer to by name:
    a framework attribute (`add_ufunc = np.add`), a lambda / partial, or a dict of keyword arguments"""
    counts, values = {}, {}
    params = {a.arg for a in init.args.args + init.args.kwonlyargs}
    for n in walk_no_nested(init):
        if not isinstance(n, ast.Assign):
            continue
        for t in n.targets:
            pairs = []
            if isinstance(t, ast.Name):
                pairs = [(t, n.value)]
            elif isinstance(t, ast.Tuple) and isinstance(n.value, ast.Tuple) and len(t.elts) == len(n.value.elts):
                pairs = list(zip(t.elts, n.value.elts))
            for tt, vv in pairs:
                if isinstance(tt, ast.Name) and tt.id not in params:
                    counts[tt.id] = counts.get(tt.id, 0) + 1
                    values[tt.id] = vv
    ok = {}
    for nm, v in values.items():
        if counts[nm] != 1:
            continue
        if isinstance(v, (ast.Lambda, ast.Dict)) or (isinstance(v, ast.Attribute) and attr_chain(v)) or (isinstance(v, ast.Call) and norm(v.func) in ("partial", "functools.partial", "dict")):
            ok[nm] = v
    return ok


class _Locals(ast.NodeTransformer):
    def __init__(self, values):
        self.values = values

    def visit_Name(self, node):
        if isinstance(node.ctx, ast.Load) and node.id in self.values:
            from sa.cfg import _clone

            return _clone(self.values[node.id])
        return node

    def visit_Lambda(self, node):
        # parameters of a lambda shadow locals of the same name
        shadow = {a.arg for a in node.args.args}
        saved = self.values
        self.values = {k: v for k, v in saved.items() if k not in shadow}
        self.generic_visit(node)
        self.values = saved
        return node

    def visit_Call(self, node):
        self.generic_visit(node)
        kws = []
        for k in node.keywords:
            v = k.value
            if k.arg is None and isinstance(v, ast.Dict) and all(isinstance(x, ast.Constant) and isinstance(x.value, str) for x in v.keys):
                kws += [ast.keyword(arg=x.value, value=y) for x, y in zip(v.keys, v.values)]  # **{"a": 1} -> a=1
            elif k.arg is None and isinstance(v, ast.Call) and norm(v.func) == "dict" and not v.args:
                kws += list(v.keywords)  # **dict(a=1) -> a=1
            else:
                kws.append(k)
        node.keywords = kws
        return node


def resolve_locals(value, values):
    """table entry with once-bound locals of __init__ written out and `**{...}` keyword dicts spread"""
    if not values:
        return value
    stripped = copy.copy(value)
    new = _Locals(values).visit(_strip_parents(value))
    ast.fix_missing_locations(new)
    from sa.core import set_parents

    set_parents(new)
    new._parent = getattr(value, "_parent", None)
    return new


def _strip_parents(node):
    from sa.cfg import _clone

    return _clone(node)


def registrations(p, cls):
    init = cls.methods.get("__init__")
    if init is None:
        raise AnalysisError(f"{cls.qualname} has no __init__")
    selfname = init.node.args.args[0].arg
    localfns = {n.name: n for n in walk_no_nested(init.node) if isinstance(n, ast.FunctionDef)}
    values = _local_values(init.node, selfname)
    regs = []
    for n in walk_no_nested(init.node):
        if isinstance(n, ast.Assign):
            for t in n.targets:
                if isinstance(t, ast.Attribute) and isinstance(t.value, ast.Name) and t.value.id == selfname:
                    v = expand_local_call(n.value, localfns)
                    v = resolve_locals(v, values)
                    v = expand_local_call(v, localfns)
                    regs.append(Registration(cls, t.attr, n, v))
    # entries written as a loop over a literal table: `for name, arity in TABLE: ...; setattr(self, name, <entry>)`
    for loop in [x for x in walk_no_nested(init.node) if isinstance(x, ast.For)]:
        sets = [c for c in ast.walk(loop) if isinstance(c, ast.Call) and isinstance(c.func, ast.Name) and c.func.id == "setattr" and len(c.args) == 3 and isinstance(c.args[0], ast.Name) and c.args[0].id == selfname]
        if not sets:
            continue
        rows = _literal_rows(p, cls.module, loop.iter)
        if rows is None:
            raise AnalysisError(f"unrecognised idiom: {cls.qualname}.__init__ fills the table with setattr() in a loop over `{norm(loop.iter)}`, which is not a literal table")
        for row in rows:
            for name, value in _unroll(loop, row, selfname):
                v = expand_local_call(value, localfns)
                v = resolve_locals(v, values)
                v = expand_local_call(v, localfns)
                ast.copy_location(v, loop)
                regs.append(Registration(cls, name, loop, v))
    return regs


def _literal_rows(p, module, it):
    from sa.core import LiteralEvaluator, NotLiteral

    try:
        rows = LiteralEvaluator(p, module).eval(it)
    except (NotLiteral, AnalysisError):
        return None
    try:
        return [r if isinstance(r, (tuple, list)) else (r,) for r in rows]
    except TypeError:
        return None


def _unroll(loop, row, selfname):
    """one iteration of a table loop with the loop variables replaced by the row's constants: yields (name, entry
    expression) for every setattr(self, name, entry) executed; constant `if` tests are decided, local rebinding
    (`f = getattr(ns, name)`; `f = wrap(f)`) is written out"""
    from sa.cfg import _clone

    tg = loop.target
    names = [tg.id] if isinstance(tg, ast.Name) else [e.id for e in tg.elts if isinstance(e, ast.Name)]
    if len(names) != len(row) and isinstance(tg, ast.Name):
        row = (tuple(row),)
    env = {nm: ast.Constant(value=v) for nm, v in zip(names, row)}

    class S(ast.NodeTransformer):
        def visit_Name(self, n):
            if isinstance(n.ctx, ast.Load) and n.id in env:
                return _clone(env[n.id])
            return n

        def visit_Call(self, c):
            self.generic_visit(c)
            if isinstance(c.func, ast.Name) and c.func.id == "getattr" and len(c.args) == 2 and isinstance(c.args[1], ast.Constant) and isinstance(c.args[1].value, str):
                return ast.copy_location(ast.Attribute(value=c.args[0], attr=c.args[1].value, ctx=ast.Load()), c)
            return c

    def const_test(t):
        t = S().visit(_clone(t))
        if isinstance(t, ast.Compare) and len(t.ops) == 1 and isinstance(t.left, ast.Constant) and isinstance(t.comparators[0], ast.Constant):
            a, b = t.left.value, t.comparators[0].value
            op = t.ops[0]
            if isinstance(op, ast.Is):
                return a is b
            if isinstance(op, ast.IsNot):
                return a is not b
            if isinstance(op, ast.Eq):
                return a == b
            if isinstance(op, ast.NotEq):
                return a != b
        if isinstance(t, ast.Constant):
            return bool(t.value)
        if isinstance(t, ast.UnaryOp) and isinstance(t.op, ast.Not):
            r = const_test(t.operand)
            return None if r is None else not r
        return None

    out = []

    def run(stmts):
        for st in stmts:
            if isinstance(st, ast.Assign) and len(st.targets) == 1 and isinstance(st.targets[0], ast.Name):
                env[st.targets[0].id] = S().visit(_clone(st.value))
            elif isinstance(st, ast.If):
                r = const_test(st.test)
                if r is None:
                    raise AnalysisError(f"unrecognised idiom: table loop with a test that is not constant per row: {norm(st.test)}")
                run(st.body if r else st.orelse)
            elif isinstance(st, ast.Expr) and isinstance(st.value, ast.Call) and isinstance(st.value.func, ast.Name) and st.value.func.id == "setattr":
                c = st.value
                nm = S().visit(_clone(c.args[1]))
                if not (isinstance(nm, ast.Constant) and isinstance(nm.value, str)):
                    raise AnalysisError(f"unrecognised idiom: setattr with a computed name `{norm(c.args[1])}` in a table loop")
                val = S().visit(_clone(c.args[2]))
                ast.fix_missing_locations(val)
                from sa.core import set_parents

                set_parents(val)
                out.append((nm.value, val))
            elif isinstance(st, (ast.Pass, ast.Expr)):
                continue
            else:
                raise AnalysisError(f"unrecognised idiom: statement `{norm(st)[:60]}` in a table loop")

    run(loop.body)
    return out


def namespace_params(cls):
    """parameters of ops.__init__ other than self: the traced framework namespaces (np, torch, mx, ...)."""
    init = cls.methods["__init__"]
    return [a.arg for a in init.node.args.args[1:]] + [a.arg for a in init.node.args.kwonlyargs]


def local_namespace_aliases(cls):
    """locals of ops.__init__ bound to sub-namespaces of a parameter (`jnp = jax.numpy`)."""
    init = cls.methods["__init__"]
    roots = set(namespace_params(cls))
    out = set(roots)
    for n in walk_no_nested(init.node):
        if isinstance(n, ast.Assign) and len(n.targets) == 1 and isinstance(n.targets[0], ast.Name):
            ch = attr_chain(n.value)
            if ch and ch[0] in out:
                out.add(n.targets[0].id)
    return out


def local_alias_targets(cls):
    """locals of ops.__init__ bound to a primitive of a namespace (`getitem = xp.getitem`): local -> {primitive name};
    the local's own name says nothing about which primitive it is"""
    init = cls.methods["__init__"]
    ns = local_namespace_aliases(cls)
    out = {}
    for n in walk_no_nested(init.node):
        if isinstance(n, ast.Assign) and len(n.targets) == 1 and isinstance(n.targets[0], ast.Name):
            ch = attr_chain(n.value)
            if ch and len(ch) >= 2 and ch[0] in ns:
                out.setdefault(n.targets[0].id, set()).add(ch[-1])
    return out


def local_functions(cls):
    """nested defs inside ops.__init__: name -> FunctionDef"""
    init = cls.methods["__init__"]
    return {n.name: n for n in walk_no_nested(init.node) if isinstance(n, ast.FunctionDef)}
