"""Tables of the seven backends, read from the source: classical `ops` classes
(adapter/<fw>/classical_from_<fw>.py), tracer signature classes
(tracer/signature/classical/<fw>.py) and the frontend factory modules (frontend/impl/<fw>.py)."""

from __future__ import annotations

import ast
import copy

from sa.core import AnalysisError, attr_chain, norm, resolve_callee, src, walk_no_nested

FRAMEWORKS = ("numpy", "torch", "jax", "mlx", "tensorflow", "tinygrad", "arrayapi")


def classical_ops(p):
    out = {}
    for fw in FRAMEWORKS:
        name = f"einx._src.adapter.{fw}.classical_from_{fw}"
        if name not in p.modules:
            raise AnalysisError(f"anchor vanished: module {name}")
        q = f"{name}::ops"
        if q not in p.classes:
            raise AnalysisError(f"anchor vanished: class {q}")
        out[fw] = p.classes[q]
    return out


def signature_classes(p):
    """fw -> list of signature classes in tracer/signature/classical/<fw>.py"""
    out = {}
    for fw in FRAMEWORKS:
        name = f"einx._src.tracer.signature.classical.{fw}"
        if name not in p.modules:
            raise AnalysisError(f"anchor vanished: module {name}")
        cs = [c for c in p.classes.values() if c.module.name == name]
        if not cs:
            raise AnalysisError(f"anchor vanished: no signature class in {name}")
        out[fw] = cs
    return out


def impl_modules(p):
    out = {}
    for fw in FRAMEWORKS:
        name = f"einx._src.frontend.impl.{fw}"
        if name not in p.modules:
            raise AnalysisError(f"anchor vanished: module {name}")
        out[fw] = p.modules[name]
    return out


class Registration:
    """self.<name> = <value> inside ops.__init__"""

    def __init__(self, cls, name, node, value):
        self.cls = cls
        self.name = name
        self.node = node  # the Assign
        self.value = value

    @property
    def site(self):
        return f"{self.cls.module.rel}:{self.node.lineno}"

    @property
    def combinator(self):
        """dotted callee of the outermost call, e.g. adapter.classical_from_numpy.update_at"""
        if isinstance(self.value, ast.Call):
            ch = attr_chain(self.value.func)
            return ".".join(ch) if ch else norm(self.value.func)
        return None

    def keywords(self):
        return {k.arg: k.value for k in self.value.keywords} if isinstance(self.value, ast.Call) else {}

    def primitives(self, ns_names):
        """attribute chains rooted at one of the framework namespace names anywhere in the value
        (maximal chains), as dotted strings without the root."""
        out = []
        for n in ast.walk(self.value):
            if isinstance(n, ast.Attribute) and not isinstance(getattr(n, "_parent", None), ast.Attribute):
                ch = attr_chain(n)
                if ch and ch[0] in ns_names:
                    out.append((".".join(ch[1:]), n))
        return out


class _Subst(ast.NodeTransformer):
    def __init__(self, mapping):
        self.mapping = mapping

    def visit_Name(self, node):
        if isinstance(node.ctx, ast.Load) and node.id in self.mapping:
            return copy.deepcopy(self.mapping[node.id])
        return node


def expand_local_call(value, localfns, depth=0):
    """`helper(a, b)` where helper is a nested def of ops.__init__ consisting of `return <expr>` is replaced by
    <expr> with the parameters substituted: table entries written through small local wrappers are analysed as if
    they were written out."""
    if depth > 3 or not (isinstance(value, ast.Call) and isinstance(value.func, ast.Name) and value.func.id in localfns):
        return value
    fn = localfns[value.func.id]
    body = [st for st in fn.body if not (isinstance(st, ast.Expr) and isinstance(st.value, ast.Constant))]
    if len(body) != 1 or not isinstance(body[0], ast.Return) or body[0].value is None:
        return value
    params = [a.arg for a in fn.args.args]
    mapping = {}
    for i, a in enumerate(value.args):
        if i < len(params) and not isinstance(a, ast.Starred):
            mapping[params[i]] = a
    for k in value.keywords:
        if k.arg in params:
            mapping[k.arg] = k.value
    defaults = fn.args.defaults
    for prm, d in zip(params[len(params) - len(defaults):], defaults):
        mapping.setdefault(prm, d)
    if set(params) - set(mapping):
        return value
    new = _Subst(mapping).visit(copy.deepcopy(body[0].value))
    ast.copy_location(new, value)
    ast.fix_missing_locations(new)
    from sa.core import set_parents

    set_parents(new)
    new._parent = getattr(value, "_parent", None)
    return expand_local_call(new, localfns, depth + 1)


def registrations(p, cls):
    init = cls.methods.get("__init__")
    if init is None:
        raise AnalysisError(f"{cls.qualname} has no __init__")
    selfname = init.node.args.args[0].arg
    localfns = {n.name: n for n in walk_no_nested(init.node) if isinstance(n, ast.FunctionDef)}
    regs = []
    for n in walk_no_nested(init.node):
        if isinstance(n, ast.Assign):
            for t in n.targets:
                if isinstance(t, ast.Attribute) and isinstance(t.value, ast.Name) and t.value.id == selfname:
                    regs.append(Registration(cls, t.attr, n, expand_local_call(n.value, localfns)))
    return regs


def namespace_params(cls):
    """parameters of ops.__init__ other than self: the traced framework namespaces (np, torch, mx, ...)."""
    init = cls.methods["__init__"]
    return [a.arg for a in init.node.args.args[1:]] + [a.arg for a in init.node.args.kwonlyargs]


def local_namespace_aliases(cls):
    """locals of ops.__init__ bound to sub-namespaces of a parameter (`jnp = jax.numpy`)."""
    init = cls.methods["__init__"]
    roots = set(namespace_params(cls))
    out = set(roots)
    for n in walk_no_nested(init.node):
        if isinstance(n, ast.Assign) and len(n.targets) == 1 and isinstance(n.targets[0], ast.Name):
            ch = attr_chain(n.value)
            if ch and ch[0] in out:
                out.add(n.targets[0].id)
    return out


def local_functions(cls):
    """nested defs inside ops.__init__: name -> FunctionDef"""
    init = cls.methods["__init__"]
    return {n.name: n for n in walk_no_nested(init.node) if isinstance(n, ast.FunctionDef)}
